module verifharness

go 1.24.7

require (
	github.com/gopher-fleece/gleece/v2 v2.0.0
	github.com/titanous/json5 v1.0.0
)

require (
	github.com/deckarep/golang-set/v2 v2.8.0 // indirect
	github.com/gopher-fleece/runtime v1.2.1 // indirect
	golang.org/x/mod v0.30.0 // indirect
	golang.org/x/sync v0.18.0 // indirect
	golang.org/x/tools v0.39.0 // indirect
)

replace github.com/gopher-fleece/gleece/v2 => /repo
