module verifharness

go 1.24.7

require (
	github.com/getkin/kin-openapi v0.133.0
	github.com/gopher-fleece/gleece/v2 v2.0.0
	github.com/pb33f/libopenapi v0.28.2
	github.com/titanous/json5 v1.0.0
	go.yaml.in/yaml/v4 v4.0.0-rc.3
)

require (
	github.com/aymerick/raymond v2.0.3-0.20180322193309-b565731e1464+incompatible // indirect
	github.com/bahlo/generic-list-go v0.2.0 // indirect
	github.com/basgys/goxml2json v1.1.1-0.20231018121955-e66ee54ceaad // indirect
	github.com/bmatcuk/doublestar/v4 v4.9.1 // indirect
	github.com/buger/jsonparser v1.1.1 // indirect
	github.com/deckarep/golang-set/v2 v2.8.0 // indirect
	github.com/gabriel-vasile/mimetype v1.4.11 // indirect
	github.com/go-openapi/jsonpointer v0.22.3 // indirect
	github.com/go-openapi/swag/jsonname v0.25.4 // indirect
	github.com/go-playground/locales v0.14.1 // indirect
	github.com/go-playground/universal-translator v0.18.1 // indirect
	github.com/go-playground/validator/v10 v10.28.0 // indirect
	github.com/gopher-fleece/runtime v1.2.1 // indirect
	github.com/iancoleman/strcase v0.3.0 // indirect
	github.com/josharian/intern v1.0.0 // indirect
	github.com/leodido/go-urn v1.4.0 // indirect
	github.com/mailru/easyjson v0.9.1 // indirect
	github.com/mohae/deepcopy v0.0.0-20170929034955-c48cc78d4826 // indirect
	github.com/oasdiff/yaml v0.0.0-20250309154309-f31be36b4037 // indirect
	github.com/oasdiff/yaml3 v0.0.0-20250309153720-d2182401db90 // indirect
	github.com/pb33f/jsonpath v0.1.2 // indirect
	github.com/pb33f/libopenapi-validator v0.9.3 // indirect
	github.com/pb33f/ordered-map/v2 v2.3.0 // indirect
	github.com/perimeterx/marshmallow v1.1.5 // indirect
	github.com/santhosh-tekuri/jsonschema/v6 v6.0.2 // indirect
	github.com/spf13/cobra v1.10.2 // indirect
	github.com/spf13/pflag v1.0.10 // indirect
	github.com/woodsbury/decimal128 v1.4.0 // indirect
	golang.org/x/crypto v0.45.0 // indirect
	golang.org/x/mod v0.30.0 // indirect
	golang.org/x/net v0.47.0 // indirect
	golang.org/x/sync v0.18.0 // indirect
	golang.org/x/sys v0.38.0 // indirect
	golang.org/x/text v0.31.0 // indirect
	golang.org/x/tools v0.39.0 // indirect
)

replace github.com/gopher-fleece/gleece/v2 => /repo
