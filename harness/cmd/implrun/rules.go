package main

import (
	"bufio"
	"sort"

	"github.com/gopher-fleece/gleece/v2/core/validators/configuration"
	"github.com/gopher-fleece/gleece/v2/definitions"
)

// rules: translator for C10 - dumps configuration.ValidatorConfigMap and the verb tables as
// plain data (no input).

type ruleOut struct {
	Name           string            `json:"name"`
	Contexts       []string          `json:"contexts"`
	RequiresValue  bool              `json:"requires_value"`
	AllowsMultiple bool              `json:"allows_multiple"`
	Unique         bool              `json:"unique"`
	Mutex          []string          `json:"mutex"`
	AnyProperty    bool              `json:"any_property"` // AllowedProperties == nil
	Properties     map[string]string `json:"properties"`   // name -> type
	Required       []string          `json:"required"`
}

func init() {
	commands["rules"] = func(in *bufio.Reader, out *bufio.Writer) error {
		rules := []ruleOut{}
		for name, def := range configuration.ValidatorConfigMap {
			r := ruleOut{Name: name, RequiresValue: def.RequiresValue, AllowsMultiple: def.AllowsMultiple,
				Unique: def.RequiresUniqueValue, Mutex: append([]string{}, def.MutuallyExclusive...),
				AnyProperty: def.AllowedProperties == nil, Properties: map[string]string{}, Required: []string{}, Contexts: []string{}}
			for _, c := range def.Contexts {
				r.Contexts = append(r.Contexts, string(c))
			}
			for p, pd := range def.AllowedProperties {
				r.Properties[p] = pd.Type
				if pd.Required {
					r.Required = append(r.Required, p)
				}
				if len(pd.AllowedValues) > 0 {
					r.Properties[p] = pd.Type + " (restricted values)"
				}
			}
			sort.Strings(r.Required)
			sort.Strings(r.Mutex)
			rules = append(rules, r)
		}
		sort.Slice(rules, func(i, j int) bool { return rules[i].Name < rules[j].Name })
		valid := definitions.GetValidHttpVerbs()
		sort.Strings(valid)
		return writeJSON(out, map[string]any{
			"rules":           rules,
			"supported_verbs": definitions.GetRouteSupportedHttpVerbs(),
			"valid_verbs":     valid,
		})
	}
}
