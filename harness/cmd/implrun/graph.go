package main

// Command "graph" (property C17): executes op histories on a real symboldg.SymbolGraph through
// its public interface and, after EACH op, records the answers of all queries for every base
// of a small universe, canonicalised (sorted).
//
// Universe: bases 0..4 are declared symbols N0..N4 of file "p.go" (two file versions 1, 2);
// base 5 = primitive string, 6 = primitive int, 7 = special error (universe), 8 = special
// time.Time (non-universe built-in); built-in keys carry version 0.
// Edge kinds: 0 = ty, 1 = ref, 2 = fld, 3 = val, 4.. = every other SymbolEdgeKind constant declared
// in graphs/symboldg (the check reads the names from the source tree under test and sends them as
// "kinds"; SymbolEdgeKind is a string type).
// Per history the check also sends the edge-kind filters to traverse with ("filters"): after each
// op Children/Parents/Descendants are asked through every filter, unsorted and sorted.
// Node kinds: 0 Struct, 1 Field, 2 Enum, 3 Alias, 4 Constant, 5 Builtin, 6 Special.
//
// The adjacency indices deps/revDeps are not observable through the public interface; they are
// read with reflect+unsafe (no hook in /repo needed).  If the fields are renamed or retyped the
// dump is reported as unavailable and only the query answers are compared.

import (
	"bufio"
	"fmt"
	"go/ast"
	"go/token"
	"reflect"
	"sort"
	"time"
	"unsafe"

	"github.com/gopher-fleece/gleece/v2/common"
	"github.com/gopher-fleece/gleece/v2/core/metadata"
	"github.com/gopher-fleece/gleece/v2/core/metadata/typeref"
	"github.com/gopher-fleece/gleece/v2/gast"
	"github.com/gopher-fleece/gleece/v2/graphs"
	"github.com/gopher-fleece/gleece/v2/graphs/symboldg"
)

type gKey [2]int // base, version

type gOp struct {
	Op     string `json:"op"`
	K      *gKey  `json:"k,omitempty"`
	F      *gKey  `json:"f,omitempty"`
	T      *gKey  `json:"t,omitempty"`
	Kind   *int   `json:"kind,omitempty"` // edge kind; nil = all kinds (RemoveEdge)
	Meta   int    `json:"meta,omitempty"` // AddEdge: the metadata argument; 0 = nil, 1 = {"note":"first"}, 2 = {"note":"second"}, 3 = {} (empty, non-nil)
	Fields []gKey `json:"fields,omitempty"`
	Vals   []gKey `json:"vals,omitempty"`
	Ty     *gKey  `json:"ty,omitempty"`
	P      int    `json:"p,omitempty"` // builtin base (AddPrimitive, AddSpecial, AddEnum value kind)
}

type gObs struct {
	Err    int               `json:"err"`   // 0 = op returned no error, 1 = error, 2 = panic
	Nodes  [][4]int          `json:"nodes"` // base, version of stored Id, node kind, node.Version (0 = nil)
	Edges  [][]int           `json:"edges"` // per base answer of GetEdges(key, nil): [base, n, (fb fv tb tv kind ord)*n]
	Ch     [][]int           `json:"ch"`    // per existing base: [base, children bases...]
	Pa     [][]int           `json:"pa"`    // per existing base: [base, parents bases...]
	De     [][]int           `json:"de"`    // per existing base: [base, descendants bases...]
	Fbk    [][]int           `json:"fbk"`   // per node kind with a non-empty answer: [kind, bases...]
	Deps   [][3]int          `json:"deps"`  // dump: from base, to base, to version
	Rev    [][3]int          `json:"rev"`   // dump: to base, from base, from version
	Dump   bool              `json:"dump"`  // adjacency dump available
	Filt   []gFRow           `json:"filt"`  // answers through an edge-kind filter (rows with a non-empty answer)
	metas  map[[4]int]string // edge incarnation (from base, kind, to base, ordinal) -> canonical metadata; "!" = listed with differing metadata
	Flags  [7]bool           `json:"flags"`  // version-independent key queries; Exists == (Get != nil); kind-filtered GetEdges == filter of unfiltered; sorted Children/Parents return the nodes of the unsorted answers; [4] sorted Children/Parents (no filter and every filter, asc and desc) are ordered by the ordinals GetEdges lists; [5] node-kind-filtered Children/Parents == the plain answers restricted to that node kind; [6] edge metadata: an edge incarnation (from, kind, to, ordinal) keeps its metadata, a new one carries what its AddEdge gave (nil for the edges of the compound ops)
	Nondet bool              `json:"nondet"` // a repetition of the same history gave a different observation
	Msg    string            `json:"msg,omitempty"`
}

// gFRow: Children/Parents/Descendants of base B through the edge-kind filter Ks (kind numbers)
type gFRow struct {
	B  int   `json:"b"`
	Ks []int `json:"ks"`
	Ch []int `json:"ch"`
	Pa []int `json:"pa"`
	De []int `json:"de"`
}

const (
	gNBases    = 9
	gNDeclared = 5
)

var gEdgeKinds = []symboldg.SymbolEdgeKind{symboldg.EdgeKindType, symboldg.EdgeKindReference, symboldg.EdgeKindField, symboldg.EdgeKindValue}
var gNodeKinds = []common.SymKind{common.SymKindStruct, common.SymKindField, common.SymKindEnum, common.SymKindAlias,
	common.SymKindConstant, common.SymKindBuiltin, common.SymKindSpecialBuiltin}

type gUniverse struct {
	filters  [][]int // edge-kind filters of the history being executed
	idents   [gNDeclared]*ast.Ident
	versions [3]*gast.FileVersion
	byKey    map[graphs.SymbolKey]gKey
	byBase   map[string]int
}

func newGUniverse() *gUniverse {
	u := &gUniverse{byKey: map[graphs.SymbolKey]gKey{}, byBase: map[string]int{}}
	for v := 1; v <= 2; v++ {
		u.versions[v] = &gast.FileVersion{Path: "p.go", ModTime: time.Unix(int64(1000+v), 0), Hash: fmt.Sprintf("h%d", v)}
	}
	for b := 0; b < gNDeclared; b++ {
		u.idents[b] = &ast.Ident{Name: fmt.Sprintf("N%d", b), NamePos: token.NoPos}
	}
	for b := 0; b < gNBases; b++ {
		for v := 0; v <= 2; v++ {
			if (b < gNDeclared) == (v == 0) {
				continue
			}
			k := u.key(gKey{b, v})
			u.byKey[k] = gKey{b, v}
			u.byBase[k.BaseId()] = b
		}
	}
	return u
}

func (u *gUniverse) key(k gKey) graphs.SymbolKey {
	switch k[0] {
	case 5:
		return graphs.NewUniverseSymbolKey("string")
	case 6:
		return graphs.NewUniverseSymbolKey("int")
	case 7:
		return graphs.NewUniverseSymbolKey("error")
	case 8:
		return graphs.NewNonUniverseBuiltInSymbolKey("time.Time")
	}
	return graphs.NewSymbolKey(u.idents[k[0]], u.versions[k[1]])
}

// fv returns a FRESH FileVersion value for version number v on every call, cycling through
// representations of the same instant (local zone, UTC, monotonic reading stripped): callers of the
// graph pass equal versions (FileVersion.Equals), not identical structs.
var fvCalls int

func (u *gUniverse) fv(v int) *gast.FileVersion {
	base := u.versions[v]
	if base == nil {
		return nil
	}
	fvCalls++
	t := base.ModTime
	switch fvCalls % 3 {
	case 1:
		t = t.UTC()
	case 2:
		t = t.In(time.FixedZone("x", 3600))
	}
	return &gast.FileVersion{Path: base.Path, ModTime: t, Hash: base.Hash}
}

func (u *gUniverse) unkey(k graphs.SymbolKey) gKey {
	if r, ok := u.byKey[k]; ok {
		return r
	}
	if b, ok := u.byBase[k.BaseId()]; ok {
		return gKey{b, 99}
	}
	return gKey{99, 99}
}

func (u *gUniverse) verNum(v *gast.FileVersion) int {
	if v == nil {
		return 0
	}
	for i := 1; i <= 2; i++ {
		if v.Equals(u.versions[i]) {
			return i
		}
	}
	return 99
}

func (u *gUniverse) sym(k gKey, kind common.SymKind) metadata.SymNodeMeta {
	return metadata.SymNodeMeta{Name: u.idents[k[0]].Name, Node: u.idents[k[0]], SymbolKind: kind, FVersion: u.fv(k[1])}
}

func (u *gUniverse) apply(g *symboldg.SymbolGraph, op gOp) (res int, msg string) {
	defer func() {
		if r := recover(); r != nil {
			res, msg = 2, fmt.Sprint(r)
		}
	}()
	var err error
	switch op.Op {
	case "AddPrimitive":
		name := map[int]common.PrimitiveType{5: common.PrimitiveTypeString, 6: common.PrimitiveTypeInt}[op.P]
		g.AddPrimitive(name)
	case "AddSpecial":
		name := map[int]common.SpecialType{7: common.SpecialTypeError, 8: common.SpecialTypeTime}[op.P]
		g.AddSpecial(name)
	case "AddStruct":
		fields := make([]metadata.FieldMeta, len(op.Fields))
		for i, f := range op.Fields {
			fields[i] = metadata.FieldMeta{SymNodeMeta: u.sym(f, common.SymKindField)}
		}
		_, err = g.AddStruct(symboldg.CreateStructNode{Data: metadata.StructMeta{SymNodeMeta: u.sym(*op.K, common.SymKindStruct), Fields: fields}})
	case "AddField":
		tk := u.key(*op.Ty)
		root := typeref.NewNamedTypeRef(&tk, nil)
		tv := u.fv(op.K[1])
		_, err = g.AddField(symboldg.CreateFieldNode{Data: metadata.FieldMeta{
			SymNodeMeta: u.sym(*op.K, common.SymKindField),
			Type:        metadata.TypeUsageMeta{SymNodeMeta: metadata.SymNodeMeta{Name: tk.Name, FVersion: tv}, Root: &root},
		}})
	case "AddEnum":
		vk := map[int]metadata.EnumValueKind{5: metadata.EnumValueKindString, 6: metadata.EnumValueKindInt}[op.P]
		vals := make([]metadata.EnumValueDefinition, len(op.Vals))
		for i, v := range op.Vals {
			vals[i] = metadata.EnumValueDefinition{SymNodeMeta: u.sym(v, common.SymKindConstant), Value: i}
		}
		_, err = g.AddEnum(symboldg.CreateEnumNode{Data: metadata.EnumMeta{SymNodeMeta: u.sym(*op.K, common.SymKindEnum), ValueKind: vk, Values: vals}})
	case "AddAlias":
		_, err = g.AddAlias(symboldg.CreateAliasNode{Data: metadata.AliasMeta{SymNodeMeta: u.sym(*op.K, common.SymKindAlias)}})
	case "AddEdge":
		g.AddEdge(u.key(*op.F), u.key(*op.T), gEdgeKinds[*op.Kind], gMeta(op.Meta))
	case "RemoveEdge":
		var kp *symboldg.SymbolEdgeKind
		if op.Kind != nil {
			k := gEdgeKinds[*op.Kind]
			kp = &k
		}
		g.RemoveEdge(u.key(*op.F), u.key(*op.T), kp)
	case "RemoveNode":
		g.RemoveNode(u.key(*op.K))
	default:
		return 1, "unknown op " + op.Op
	}
	if err != nil {
		return 1, err.Error()
	}
	return 0, ""
}

// the metadata argument of AddEdge number m (a fresh map on every call)
func gMeta(m int) map[string]string {
	switch m {
	case 1:
		return map[string]string{"note": "first"}
	case 2:
		return map[string]string{"note": "second"}
	case 3:
		return map[string]string{}
	}
	return nil
}

// canonical text of an edge's metadata (nil and the empty map are both "")
func gMetaString(m map[string]string) string {
	ks := make([]string, 0, len(m))
	for k := range m {
		ks = append(ks, k)
	}
	sort.Strings(ks)
	out := ""
	for _, k := range ks {
		out += fmt.Sprintf("%q=%q;", k, m[k])
	}
	return out
}

func (u *gUniverse) noteMetas(o *gObs, m map[string]symboldg.SymbolEdgeDescriptor) {
	for _, d := range m {
		f, t := u.unkey(d.Edge.From), u.unkey(d.Edge.To)
		k := [4]int{f[0], gEdgeKindNum(d.Edge.Kind), t[0], int(d.Ordinal)}
		ms := gMetaString(d.Edge.Metadata)
		if old, ok := o.metas[k]; ok && old != ms {
			ms = "!"
		}
		o.metas[k] = ms
	}
}

func gEdgeKindNum(k symboldg.SymbolEdgeKind) int {
	for i, x := range gEdgeKinds {
		if x == k {
			return i
		}
	}
	return 99
}

func gNodeKindNum(k common.SymKind) int {
	for i, x := range gNodeKinds {
		if x == k {
			return i
		}
	}
	return 99
}

// canonical edge list of a GetEdges answer: sorted 6-tuples
func (u *gUniverse) edgeList(m map[string]symboldg.SymbolEdgeDescriptor) [][6]int {
	out := make([][6]int, 0, len(m))
	for _, d := range m {
		f, t := u.unkey(d.Edge.From), u.unkey(d.Edge.To)
		out = append(out, [6]int{f[0], f[1], t[0], t[1], gEdgeKindNum(d.Edge.Kind), int(d.Ordinal)})
	}
	sort.Slice(out, func(i, j int) bool {
		for k := 0; k < 6; k++ {
			if out[i][k] != out[j][k] {
				return out[i][k] < out[j][k]
			}
		}
		return false
	})
	return out
}

func (u *gUniverse) nodeBases(ns []*symboldg.SymbolNode) []int {
	out := make([]int, 0, len(ns))
	for _, n := range ns {
		if n == nil {
			out = append(out, 98)
			continue
		}
		out = append(out, u.unkey(n.Id)[0])
	}
	return out
}

func sortedInts(a []int) []int {
	b := append([]int{}, a...)
	sort.Ints(b)
	return b
}

func gAdj(g *symboldg.SymbolGraph, field string) (map[string]map[graphs.SymbolKey]struct{}, bool) {
	v := reflect.ValueOf(g).Elem().FieldByName(field)
	if !v.IsValid() || v.Type() != reflect.TypeOf(map[string]map[graphs.SymbolKey]struct{}{}) {
		return nil, false
	}
	return *(*map[string]map[graphs.SymbolKey]struct{})(unsafe.Pointer(v.UnsafeAddr())), true
}

func (u *gUniverse) adjList(m map[string]map[graphs.SymbolKey]struct{}) [][3]int {
	out := [][3]int{}
	for outer, inner := range m {
		ob, ok := u.byBase[outer]
		if !ok {
			ob = 99
		}
		for k := range inner {
			kk := u.unkey(k)
			out = append(out, [3]int{ob, kk[0], kk[1]})
		}
	}
	sort.Slice(out, func(i, j int) bool {
		for k := 0; k < 3; k++ {
			if out[i][k] != out[j][k] {
				return out[i][k] < out[j][k]
			}
		}
		return false
	})
	return out
}

func (u *gUniverse) observe(g *symboldg.SymbolGraph) gObs {
	o := gObs{Nodes: [][4]int{}, Edges: [][]int{}, Ch: [][]int{}, Pa: [][]int{}, De: [][]int{}, Fbk: [][]int{}, Filt: []gFRow{},
		Flags: [7]bool{true, true, true, true, true, true, true}, metas: map[[4]int]string{}}
	asc := &symboldg.TraversalBehavior{Sorting: symboldg.TraversalSortingOrdinalAsc}
	for b := 0; b < gNBases; b++ {
		vers := []int{0}
		if b < gNDeclared {
			vers = []int{1, 2}
		}
		var first [][6]int
		var firstNode *symboldg.SymbolNode
		for i, v := range vers {
			key := u.key(gKey{b, v})
			node := g.Get(key)
			if g.Exists(key) != (node != nil) {
				o.Flags[1] = false
			}
			all := g.GetEdges(key, nil)
			u.noteMetas(&o, all)
			el := u.edgeList(all)
			if i == 0 {
				first, firstNode = el, node
			} else if !reflect.DeepEqual(first, el) || firstNode != node {
				o.Flags[0] = false
			}
			for ki, kind := range gEdgeKinds {
				want := [][6]int{}
				for _, e := range el {
					if e[4] == ki {
						want = append(want, e)
					}
				}
				if !reflect.DeepEqual(want, u.edgeList(g.GetEdges(key, []symboldg.SymbolEdgeKind{kind}))) {
					o.Flags[2] = false
				}
			}
		}
		if len(first) > 0 {
			row := []int{b, len(first)}
			for _, e := range first {
				row = append(row, e[:]...)
			}
			o.Edges = append(o.Edges, row)
		}
		if firstNode == nil {
			continue
		}
		id := u.unkey(firstNode.Id)
		if id[0] != b {
			o.Msg += fmt.Sprintf("node stored under base %d has id base %d;", b, id[0])
		}
		o.Nodes = append(o.Nodes, [4]int{b, id[1], gNodeKindNum(firstNode.Kind), u.verNum(firstNode.Version)})
		ch := u.nodeBases(g.Children(firstNode, nil))
		pa := u.nodeBases(g.Parents(firstNode, nil))
		de := u.nodeBases(g.Descendants(firstNode, nil))
		if !reflect.DeepEqual(sortedInts(ch), sortedInts(u.nodeBases(g.Children(firstNode, asc)))) ||
			!reflect.DeepEqual(sortedInts(pa), sortedInts(u.nodeBases(g.Parents(firstNode, asc)))) {
			o.Flags[3] = false
		}
		u.observeFiltered(g, &o, b, firstNode, first, ch, pa)
		o.Ch = append(o.Ch, append([]int{b}, sortedInts(ch)...))
		o.Pa = append(o.Pa, append([]int{b}, sortedInts(pa)...))
		o.De = append(o.De, append([]int{b}, sortedInts(de)...))
	}
	for ki, kind := range gNodeKinds {
		ns := u.nodeBases(g.FindByKind(kind))
		if len(ns) > 0 {
			o.Fbk = append(o.Fbk, append([]int{ki}, sortedInts(ns)...))
		}
	}
	deps, ok1 := gAdj(g, "deps")
	rev, ok2 := gAdj(g, "revDeps")
	o.Dump = ok1 && ok2
	o.Deps, o.Rev = [][3]int{}, [][3]int{}
	if o.Dump {
		o.Deps, o.Rev = u.adjList(deps), u.adjList(rev)
	}
	return o
}

func squeeze(a []int) []int {
	out := []int{}
	for i, x := range a {
		if i == 0 || a[i-1] != x {
			out = append(out, x)
		}
	}
	return out
}

// the order in which a sorted traversal must list the nodes: the edges GetEdges(key, nil) lists for base b
// (`el`), outgoing (children) or incoming (parents), of a kind the filter admits, whose other end exists,
// by ordinal.  Runs of the same node are squeezed (Parents lists an edge once per version under which
// the parent is registered in revDeps).
func (u *gUniverse) wantOrder(g *symboldg.SymbolGraph, el [][6]int, b int, ks []int, children, desc bool) []int {
	type it struct{ ord, base int }
	var its []it
	for _, e := range el {
		self, other := e[0], e[2]
		if !children {
			self, other = e[2], e[0]
		}
		if self != b {
			continue
		}
		if ks != nil {
			hit := false
			for _, k := range ks {
				hit = hit || k == e[4]
			}
			if !hit {
				continue
			}
		}
		v := 0
		if other < gNDeclared {
			v = 1
		}
		if !g.Exists(u.key(gKey{other, v})) {
			continue
		}
		its = append(its, it{e[5], other})
	}
	sort.Slice(its, func(i, j int) bool {
		if desc {
			return its[i].ord > its[j].ord
		}
		return its[i].ord < its[j].ord
	})
	out := make([]int, len(its))
	for i, x := range its {
		out[i] = x.base
	}
	return squeeze(out)
}

func sameSet(a, b []int) bool {
	return reflect.DeepEqual(squeeze(sortedInts(a)), squeeze(sortedInts(b)))
}

// traversals of one existing node through behaviours: every edge-kind filter of the history (recorded in
// o.Filt for the oracle), the sorted variants (flags 3, 4) and node-kind filters (flag 5)
func (u *gUniverse) observeFiltered(g *symboldg.SymbolGraph, o *gObs, b int, node *symboldg.SymbolNode, el [][6]int, ch, pa []int) {
	sortings := []symboldg.TraversalResultSorting{symboldg.TraversalSortingOrdinalAsc, symboldg.TraversalSortingOrdinalDesc}
	checkSorted := func(ks []int, kinds []symboldg.SymbolEdgeKind, fch, fpa []int) {
		for _, srt := range sortings {
			bh := &symboldg.TraversalBehavior{Filtering: symboldg.TraversalFilter{EdgeKinds: kinds}, Sorting: srt}
			sch, spa := u.nodeBases(g.Children(node, bh)), u.nodeBases(g.Parents(node, bh))
			if !sameSet(sch, fch) || !sameSet(spa, fpa) {
				o.Flags[3] = false
			}
			desc := srt == symboldg.TraversalSortingOrdinalDesc
			if !reflect.DeepEqual(squeeze(sch), u.wantOrder(g, el, b, ks, true, desc)) ||
				!reflect.DeepEqual(squeeze(spa), u.wantOrder(g, el, b, ks, false, desc)) {
				o.Flags[4] = false
			}
		}
	}
	checkSorted(nil, nil, ch, pa)
	for _, ks := range u.filters {
		kinds := make([]symboldg.SymbolEdgeKind, len(ks))
		for i, k := range ks {
			kinds[i] = gEdgeKinds[k]
		}
		bh := &symboldg.TraversalBehavior{Filtering: symboldg.TraversalFilter{EdgeKinds: kinds}}
		fch, fpa, fde := u.nodeBases(g.Children(node, bh)), u.nodeBases(g.Parents(node, bh)), u.nodeBases(g.Descendants(node, bh))
		checkSorted(ks, kinds, fch, fpa)
		if len(fch)+len(fpa)+len(fde) > 0 {
			o.Filt = append(o.Filt, gFRow{B: b, Ks: ks, Ch: sortedInts(fch), Pa: sortedInts(fpa), De: sortedInts(fde)})
		}
	}
	for _, nk := range gNodeKinds {
		bh := &symboldg.TraversalBehavior{Filtering: symboldg.TraversalFilter{NodeKinds: []common.SymKind{nk}}}
		pick := func(ns []*symboldg.SymbolNode) []int {
			out := []int{}
			for _, n := range ns {
				if n != nil && n.Kind == nk {
					out = append(out, u.unkey(n.Id)[0])
				}
			}
			return sortedInts(out)
		}
		if !reflect.DeepEqual(sortedInts(u.nodeBases(g.Children(node, bh))), pick(g.Children(node, nil))) ||
			!sameSet(u.nodeBases(g.Parents(node, bh)), pick(g.Parents(node, nil))) {
			o.Flags[5] = false
		}
	}
}

func (u *gUniverse) runHistory(h []gOp) []gObs {
	g := symboldg.NewSymbolGraph()
	out := make([]gObs, 0, len(h))
	prev := map[[4]int]string{}
	for _, op := range h {
		res, msg := u.apply(&g, op)
		o := u.observe(&g)
		for k, m := range o.metas {
			want, known := prev[k]
			if !known {
				want = ""
				if op.Op == "AddEdge" && op.Kind != nil && k[0] == op.F[0] && k[1] == *op.Kind && k[2] == op.T[0] {
					want = gMetaString(gMeta(op.Meta))
				}
			}
			if m != want {
				o.Flags[6] = false
			}
		}
		prev = o.metas
		o.Err, o.Msg = res, o.Msg+msg
		out = append(out, o)
	}
	return out
}

type gInput struct {
	Reps      int       `json:"reps"`
	Histories [][]gOp   `json:"histories"`
	Kinds     []string  `json:"kinds,omitempty"`   // edge kind names, position = kind number (default: ty ref fld val)
	Filters   [][][]int `json:"filters,omitempty"` // per history: the edge-kind filters to traverse with
}

func init() {
	commands["graph"] = func(in *bufio.Reader, out *bufio.Writer) error {
		var inp gInput
		if err := readJSON(in, &inp); err != nil {
			return err
		}
		u := newGUniverse()
		if len(inp.Kinds) > 0 {
			gEdgeKinds = make([]symboldg.SymbolEdgeKind, len(inp.Kinds))
			for i, k := range inp.Kinds {
				gEdgeKinds[i] = symboldg.SymbolEdgeKind(k)
			}
		}
		results := make([][]gObs, 0, len(inp.Histories))
		for hi, h := range inp.Histories {
			u.filters = nil
			if hi < len(inp.Filters) {
				u.filters = inp.Filters[hi]
			}
			for _, op := range h {
				if op.Kind != nil && (*op.Kind < 0 || *op.Kind >= len(gEdgeKinds)) {
					return fmt.Errorf("history %d: edge kind %d out of range", hi, *op.Kind)
				}
			}
			obs := u.runHistory(h)
			for r := 1; r < inp.Reps; r++ {
				again := u.runHistory(h)
				for i := range obs {
					a, b := obs[i], again[i]
					a.Nondet, b.Nondet, a.Msg, b.Msg = false, false, "", ""
					if !reflect.DeepEqual(a, b) {
						obs[i].Nondet = true
					}
				}
			}
			results = append(results, obs)
		}
		return writeJSON(out, results)
	}
}
