package main

// Command "annot" (property C16): builds the real annotations.AnnotationHolder for comment
// blocks given as raw lines and prints the projected observables.  Every string travels as
// hex so that arbitrary bytes (multibyte UTF-8, unicode white space) arrive byte-exact.
//
// input : {"blocks": [[hexline, ...], ...], "json5": [hextext, ...],
//          "source": [null | {"joins": [bool, ...], "decl": "func"|"type"|"field"|"const"}, ...]}
// output: {"blocks": [{err, attrs:[{name,value,props,descr}], frees:[{index,value}], description}],
//          "parsed": [null | the same observables | {"skip": reason}, ...],
//          "json5":  [canonical-json or null, ...]}
//
// "blocks" is the hand-built path (gast.CommentNode{Text, Index = position}).  "parsed" is the real path
// for the blocks that have a "source" entry: the comments are written as the doc comment of a
// declaration in a Go source text (comment i starts a new line unless joins[i], which puts it on the
// line of comment i-1), the text is parsed with go/parser (ParseComments), the doc comment group and
// the FileSet are handed to gast.MapDocListToCommentBlock / gast.GetCommentsFromNode, and the holder is
// built from that block.  "skip" is reported when the parser does not give back the comments that were
// written (an input the driver should not have sent here), never for anything gleece does.
//
// "json5" is the library oracle of DESIGN appendix A.5: the real json5.Unmarshal applied to the
// exact bytes (into a map[string]any, as parseCommentNode does), null when it reports an error.

import (
	"bufio"
	"bytes"
	"encoding/hex"
	"encoding/json"
	"fmt"
	"go/ast"
	"go/parser"
	"go/token"
	"math"
	"sort"
	"strconv"
	"strings"

	"github.com/gopher-fleece/gleece/v2/core/annotations"
	"github.com/gopher-fleece/gleece/v2/gast"
	"github.com/titanous/json5"
)

type annotSource struct {
	Joins []bool `json:"joins"`
	Decl  string `json:"decl"`
}

type annotIn struct {
	Blocks [][]string     `json:"blocks"`
	Json5  []string       `json:"json5"`
	Source []*annotSource `json:"source"`
}

type annotAttr struct {
	Name  string  `json:"name"`
	Value string  `json:"value"`
	Props *string `json:"props"`
	Descr string  `json:"descr"`
}

type annotFree struct {
	Index int    `json:"index"`
	Value string `json:"value"`
}

type annotBlockOut struct {
	Err         bool        `json:"err"`
	ErrMsg      string      `json:"errmsg,omitempty"`
	Attrs       []annotAttr `json:"attrs"`
	Frees       []annotFree `json:"frees"`
	Description string      `json:"description"`
	Skip        string      `json:"skip,omitempty"`
	Source      string      `json:"source,omitempty"`
	Lines       []int       `json:"lines,omitempty"`
}

type annotOut struct {
	Blocks []annotBlockOut  `json:"blocks"`
	Parsed []*annotBlockOut `json:"parsed"`
	Json5  []*string        `json:"json5"`
}

// observeHolder builds the real holder of a comment block and projects it
func observeHolder(cb gast.CommentBlock) annotBlockOut {
	holder, err := annotations.NewAnnotationHolder(cb, annotations.CommentSourceRoute)
	o := annotBlockOut{Attrs: []annotAttr{}, Frees: []annotFree{}}
	if err != nil {
		o.Err = true
		o.ErrMsg = err.Error()
		return o
	}
	for _, a := range holder.Attributes() {
		o.Attrs = append(o.Attrs, annotAttr{Name: hx(a.Name), Value: hx(a.Value),
			Props: canonProps(a.Properties), Descr: hx(a.Description)})
	}
	for _, c := range holder.NonAttributeComments() {
		o.Frees = append(o.Frees, annotFree{Index: c.Index, Value: hx(c.Value)})
	}
	o.Description = hx(holder.GetDescription())
	return o
}

// parsedBlock writes the comments as the doc comment of a declaration, parses the text and maps the
// doc comment group with gleece's own gast functions.
func parsedBlock(lines []string, src *annotSource) annotBlockOut {
	var sb strings.Builder
	sb.WriteString("package verifdoc\n\ntype Anchor struct{}\n\n")
	indent := ""
	switch src.Decl {
	case "field":
		sb.WriteString("type Holder struct {\n\tFirst int\n\n")
		indent = "\t"
	case "const":
		sb.WriteString("const (\n\tFirst = 0\n\n")
		indent = "\t"
	}
	for i, l := range lines {
		if i > 0 {
			if i < len(src.Joins) && src.Joins[i] {
				sb.WriteString(" ")
			} else {
				sb.WriteString("\n" + indent)
			}
		} else {
			sb.WriteString(indent)
		}
		sb.WriteString(l)
	}
	if len(lines) > 0 {
		sb.WriteString("\n")
	}
	switch src.Decl {
	case "field":
		sb.WriteString("\tDocumented string\n}\n")
	case "const":
		sb.WriteString("\tDocumented = 1\n)\n")
	case "type":
		sb.WriteString("type Documented struct{ A int }\n")
	default:
		sb.WriteString("func (a Anchor) Documented(x int) (string, error) { return \"\", nil }\n")
	}
	text := sb.String()
	skip := func(why string) annotBlockOut {
		return annotBlockOut{Attrs: []annotAttr{}, Frees: []annotFree{}, Skip: why, Source: hx(text)}
	}

	fset := token.NewFileSet()
	// a few throw-away files first: the base offset of the file in the set is not 1
	fset.AddFile("other.go", -1, 977)
	file, err := parser.ParseFile(fset, "verif.controller.go", text, parser.ParseComments|parser.SkipObjectResolution)
	if err != nil {
		return skip("go/parser: " + err.Error())
	}
	var node ast.Node
	var doc *ast.CommentGroup
	ast.Inspect(file, func(n ast.Node) bool {
		switch d := n.(type) {
		case *ast.FuncDecl:
			if d.Name.Name == "Documented" {
				node, doc = d, d.Doc
			}
		case *ast.GenDecl:
			if len(d.Specs) == 1 {
				if ts, ok := d.Specs[0].(*ast.TypeSpec); ok && ts.Name.Name == "Documented" {
					node, doc = d, d.Doc
				}
			}
		case *ast.Field:
			if len(d.Names) == 1 && d.Names[0].Name == "Documented" {
				node, doc = d, d.Doc
			}
		case *ast.ValueSpec:
			if len(d.Names) == 1 && d.Names[0].Name == "Documented" {
				node, doc = d, d.Doc
			}
		}
		return true
	})
	if node == nil {
		return skip("declaration not found")
	}
	var list []*ast.Comment
	if doc != nil {
		list = doc.List
	}
	if len(list) != len(lines) {
		return skip(fmt.Sprintf("the doc comment has %d comments, %d were written", len(list), len(lines)))
	}
	for i, c := range list {
		if c.Text != lines[i] {
			return skip(fmt.Sprintf("comment %d comes back as %q, written %q", i, c.Text, lines[i]))
		}
	}
	// the two ways gleece's visitors obtain the block
	var cb gast.CommentBlock
	if src.Decl == "func" || src.Decl == "" {
		if doc == nil {
			cb = gast.GetCommentsFromNode(node, fset)
		} else {
			cb = gast.MapDocListToCommentBlock(list, fset) // route.visitor.go
		}
	} else {
		cb = gast.GetCommentsFromNode(node, fset) // enum.visitor.go; base.go for type declarations
	}
	if len(cb.Comments) != len(lines) {
		o := observeHolder(cb)
		o.ErrMsg = fmt.Sprintf("the comment block has %d comments, the doc comment %d; %s", len(cb.Comments), len(lines), o.ErrMsg)
		o.Source = hx(text)
		return o
	}
	o := observeHolder(cb)
	o.Source = hx(text)
	for _, c := range list {
		o.Lines = append(o.Lines, fset.Position(c.Pos()).Line)
	}
	return o
}

func hx(s string) string { return hex.EncodeToString([]byte(s)) }

// canonJSON renders a value produced by json5.Unmarshal with sorted keys and a fixed number format.
func canonJSON(b *bytes.Buffer, v any) {
	switch x := v.(type) {
	case nil:
		b.WriteString("null")
	case bool:
		if x {
			b.WriteString("true")
		} else {
			b.WriteString("false")
		}
	case float64:
		switch {
		case math.IsNaN(x):
			b.WriteString("NaN")
		case math.IsInf(x, 1):
			b.WriteString("Infinity")
		case math.IsInf(x, -1):
			b.WriteString("-Infinity")
		default:
			b.WriteString(strconv.FormatFloat(x, 'g', -1, 64))
		}
	case string:
		var sb bytes.Buffer
		enc := json.NewEncoder(&sb)
		enc.SetEscapeHTML(false)
		_ = enc.Encode(x)
		b.Write(bytes.TrimRight(sb.Bytes(), "\n"))
	case []any:
		b.WriteByte('[')
		for i, e := range x {
			if i > 0 {
				b.WriteByte(',')
			}
			canonJSON(b, e)
		}
		b.WriteByte(']')
	case map[string]any:
		keys := make([]string, 0, len(x))
		for k := range x {
			keys = append(keys, k)
		}
		sort.Strings(keys)
		b.WriteByte('{')
		for i, k := range keys {
			if i > 0 {
				b.WriteByte(',')
			}
			canonJSON(b, k)
			b.WriteByte(':')
			canonJSON(b, x[k])
		}
		b.WriteByte('}')
	default:
		fmt.Fprintf(b, "\"<%T %v>\"", v, v)
	}
}

func canonProps(m map[string]any) *string {
	if m == nil {
		return nil
	}
	var b bytes.Buffer
	canonJSON(&b, m)
	s := hx(b.String())
	return &s
}

func init() {
	commands["annot"] = func(in *bufio.Reader, out *bufio.Writer) error {
		var input annotIn
		if err := readJSON(in, &input); err != nil {
			return err
		}
		res := annotOut{Blocks: make([]annotBlockOut, 0, len(input.Blocks)), Parsed: make([]*annotBlockOut, 0, len(input.Blocks)), Json5: make([]*string, 0, len(input.Json5))}
		for bi, block := range input.Blocks {
			nodes := make([]gast.CommentNode, len(block))
			lines := make([]string, len(block))
			for i, h := range block {
				raw, err := hex.DecodeString(h)
				if err != nil {
					return err
				}
				lines[i] = string(raw)
				// what gast.MapDocListToCommentBlock produces: Text = ast.Comment.Text, Index = position
				nodes[i] = gast.CommentNode{
					Text:     string(raw),
					Index:    i,
					Position: gast.CommentPosition{StartLine: i, EndLine: i, StartCol: 0, EndCol: len(raw)},
				}
			}
			cb := gast.CommentBlock{Comments: nodes, FileName: "verif.go"}
			o := observeHolder(cb)
			if bi < len(input.Source) && input.Source[bi] != nil {
				p := parsedBlock(lines, input.Source[bi])
				res.Parsed = append(res.Parsed, &p)
			} else {
				res.Parsed = append(res.Parsed, nil)
			}
			res.Blocks = append(res.Blocks, o)
		}
		for _, h := range input.Json5 {
			raw, err := hex.DecodeString(h)
			if err != nil {
				return err
			}
			var m map[string]any
			if err := json5.Unmarshal(raw, &m); err != nil {
				res.Json5 = append(res.Json5, nil)
				continue
			}
			if m == nil {
				// "null" unmarshals into a nil map without error; parseCommentNode then keeps Properties nil
				s := hx("null")
				res.Json5 = append(res.Json5, &s)
				continue
			}
			res.Json5 = append(res.Json5, canonProps(m))
		}
		return writeJSON(out, res)
	}
}
