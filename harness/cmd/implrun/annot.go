package main

// Command "annot" (property C16): builds the real annotations.AnnotationHolder for comment
// blocks given as raw lines and prints the projected observables.  Every string travels as
// hex so that arbitrary bytes (multibyte UTF-8, unicode white space) arrive byte-exact.
//
// input : {"blocks": [[hexline, ...], ...], "json5": [hextext, ...]}
// output: {"blocks": [{err, attrs:[{name,value,props,descr}], frees:[{index,value}], description}],
//          "json5":  [canonical-json or null, ...]}
//
// "json5" is the library oracle of DESIGN appendix A.5: the real json5.Unmarshal applied to the
// exact bytes (into a map[string]any, as parseCommentNode does), null when it reports an error.

import (
	"bufio"
	"bytes"
	"encoding/hex"
	"encoding/json"
	"fmt"
	"math"
	"sort"
	"strconv"

	"github.com/gopher-fleece/gleece/v2/core/annotations"
	"github.com/gopher-fleece/gleece/v2/gast"
	"github.com/titanous/json5"
)

type annotIn struct {
	Blocks [][]string `json:"blocks"`
	Json5  []string   `json:"json5"`
}

type annotAttr struct {
	Name  string  `json:"name"`
	Value string  `json:"value"`
	Props *string `json:"props"`
	Descr string  `json:"descr"`
}

type annotFree struct {
	Index int    `json:"index"`
	Value string `json:"value"`
}

type annotBlockOut struct {
	Err         bool        `json:"err"`
	ErrMsg      string      `json:"errmsg,omitempty"`
	Attrs       []annotAttr `json:"attrs"`
	Frees       []annotFree `json:"frees"`
	Description string      `json:"description"`
}

type annotOut struct {
	Blocks []annotBlockOut `json:"blocks"`
	Json5  []*string       `json:"json5"`
}

func hx(s string) string { return hex.EncodeToString([]byte(s)) }

// canonJSON renders a value produced by json5.Unmarshal with sorted keys and a fixed number format.
func canonJSON(b *bytes.Buffer, v any) {
	switch x := v.(type) {
	case nil:
		b.WriteString("null")
	case bool:
		if x {
			b.WriteString("true")
		} else {
			b.WriteString("false")
		}
	case float64:
		switch {
		case math.IsNaN(x):
			b.WriteString("NaN")
		case math.IsInf(x, 1):
			b.WriteString("Infinity")
		case math.IsInf(x, -1):
			b.WriteString("-Infinity")
		default:
			b.WriteString(strconv.FormatFloat(x, 'g', -1, 64))
		}
	case string:
		var sb bytes.Buffer
		enc := json.NewEncoder(&sb)
		enc.SetEscapeHTML(false)
		_ = enc.Encode(x)
		b.Write(bytes.TrimRight(sb.Bytes(), "\n"))
	case []any:
		b.WriteByte('[')
		for i, e := range x {
			if i > 0 {
				b.WriteByte(',')
			}
			canonJSON(b, e)
		}
		b.WriteByte(']')
	case map[string]any:
		keys := make([]string, 0, len(x))
		for k := range x {
			keys = append(keys, k)
		}
		sort.Strings(keys)
		b.WriteByte('{')
		for i, k := range keys {
			if i > 0 {
				b.WriteByte(',')
			}
			canonJSON(b, k)
			b.WriteByte(':')
			canonJSON(b, x[k])
		}
		b.WriteByte('}')
	default:
		fmt.Fprintf(b, "\"<%T %v>\"", v, v)
	}
}

func canonProps(m map[string]any) *string {
	if m == nil {
		return nil
	}
	var b bytes.Buffer
	canonJSON(&b, m)
	s := hx(b.String())
	return &s
}

func init() {
	commands["annot"] = func(in *bufio.Reader, out *bufio.Writer) error {
		var input annotIn
		if err := readJSON(in, &input); err != nil {
			return err
		}
		res := annotOut{Blocks: make([]annotBlockOut, 0, len(input.Blocks)), Json5: make([]*string, 0, len(input.Json5))}
		for _, block := range input.Blocks {
			nodes := make([]gast.CommentNode, len(block))
			for i, h := range block {
				raw, err := hex.DecodeString(h)
				if err != nil {
					return err
				}
				// what gast.MapDocListToCommentBlock produces: Text = ast.Comment.Text, Index = position
				nodes[i] = gast.CommentNode{
					Text:     string(raw),
					Index:    i,
					Position: gast.CommentPosition{StartLine: i, EndLine: i, StartCol: 0, EndCol: len(raw)},
				}
			}
			cb := gast.CommentBlock{Comments: nodes, FileName: "verif.go"}
			holder, err := annotations.NewAnnotationHolder(cb, annotations.CommentSourceRoute)
			o := annotBlockOut{Attrs: []annotAttr{}, Frees: []annotFree{}}
			if err != nil {
				o.Err = true
				o.ErrMsg = err.Error()
			} else {
				for _, a := range holder.Attributes() {
					o.Attrs = append(o.Attrs, annotAttr{Name: hx(a.Name), Value: hx(a.Value),
						Props: canonProps(a.Properties), Descr: hx(a.Description)})
				}
				for _, c := range holder.NonAttributeComments() {
					o.Frees = append(o.Frees, annotFree{Index: c.Index, Value: hx(c.Value)})
				}
				o.Description = hx(holder.GetDescription())
			}
			res.Blocks = append(res.Blocks, o)
		}
		for _, h := range input.Json5 {
			raw, err := hex.DecodeString(h)
			if err != nil {
				return err
			}
			var m map[string]any
			if err := json5.Unmarshal(raw, &m); err != nil {
				res.Json5 = append(res.Json5, nil)
				continue
			}
			if m == nil {
				// "null" unmarshals into a nil map without error; parseCommentNode then keeps Properties nil
				s := hx("null")
				res.Json5 = append(res.Json5, &s)
				continue
			}
			res.Json5 = append(res.Json5, canonProps(m))
		}
		return writeJSON(out, res)
	}
}
