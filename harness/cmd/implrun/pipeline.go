package main

import (
	"bufio"
	"crypto/sha256"
	"encoding/hex"
	"encoding/json"
	"fmt"
	"os"
	"regexp"
	"sort"
	"strings"

	"github.com/gopher-fleece/gleece/v2/cmd"
	"github.com/gopher-fleece/gleece/v2/core/pipeline"
	"github.com/gopher-fleece/gleece/v2/core/validators/diagnostics"
)

// pipeline: runs GenerateGraph / Validate / GenerateIntermediate on ONE GleecePipeline for a
// number of rounds, and once on a fresh pipeline, inside the given project directory.

type pipelineIn struct {
	Dir    string `json:"dir"`
	Config string `json:"config"`
	Rounds int    `json:"rounds"`
	Fresh  bool   `json:"fresh"`
	Full   bool   `json:"full"` // include full metadata JSON, not only hashes
	// Scripts[i] is the call history of round i on the shared pipeline: a string over G (GenerateGraph),
	// V (Validate), I (GenerateIntermediate); "" or missing = "GVI".  The fresh pipeline always runs "GVI".
	Scripts []string `json:"scripts"`
}

type diagOut struct {
	Entity    string `json:"entity"`
	Kind      string `json:"kind"`
	Parent    string `json:"parent"`
	Code      string `json:"code"`
	Severity  int    `json:"severity"`
	Message   string `json:"message"`
	File      string `json:"file"`
	StartLine int    `json:"start_line"`
	StartCol  int    `json:"start_col"`
	EndLine   int    `json:"end_line"`
	EndCol    int    `json:"end_col"`
}

type roundOut struct {
	GraphErr   string          `json:"graph_err"`
	ValErr     string          `json:"validate_err"`
	InterErr   string          `json:"intermediate_err"`
	Diags      []diagOut       `json:"diags"`
	ErrorText  string          `json:"error_text"`
	GraphHash  string          `json:"graph_hash"`
	GraphNodes int             `json:"graph_nodes"`
	GraphLines int             `json:"graph_lines"`
	MetaHash   string          `json:"meta_hash"`
	MetaHashes []string        `json:"meta_hashes"` // one per GenerateIntermediate call of the round, in order
	Meta       json.RawMessage `json:"meta,omitempty"`
	Panic      string          `json:"panic"`
}

func flattenDiags(parent string, ents []diagnostics.EntityDiagnostic, out *[]diagOut) {
	for _, e := range ents {
		for _, d := range e.Diagnostics {
			*out = append(*out, diagOut{
				Entity: e.EntityName, Kind: e.EntityKind, Parent: parent, Code: d.Code, Severity: int(d.Severity),
				Message: d.Message, File: d.FilePath,
				StartLine: d.Range.StartLine, StartCol: d.Range.StartCol, EndLine: d.Range.EndLine, EndCol: d.Range.EndCol,
			})
		}
		kids := []diagnostics.EntityDiagnostic{}
		for _, c := range e.Children {
			if c != nil {
				kids = append(kids, *c)
			}
		}
		flattenDiags(e.EntityKind+" "+e.EntityName, kids, out)
	}
}

func canonicalGraph(s string) (string, int, int) {
	// The dump iterates maps and pretty keys span several lines: canonicalise by sorting all lines.
	// Keys of anonymous nodes (return values) embed token positions, which depend on the order in
	// which files entered the FileSet of that pipeline: mask them.
	s = posRegex.ReplaceAllString(s, "@pos")
	lines := strings.Split(s, "\n")
	nodes := 0
	for _, l := range lines {
		if strings.HasPrefix(l, "[") {
			nodes++
		}
	}
	sort.Strings(lines)
	joined := strings.Join(lines, "\n")
	h := sha256.Sum256([]byte(joined))
	return hex.EncodeToString(h[:8]), nodes, len(lines)
}

var dumpSeq int
var posRegex = regexp.MustCompile(`@\d+`)

func oneRound(p *pipeline.GleecePipeline, full bool, script string) (r roundOut) {
	defer func() {
		if e := recover(); e != nil {
			r.Panic = fmt.Sprint(e)
		}
	}()
	r.Diags = []diagOut{}
	r.MetaHashes = []string{}
	if script == "" {
		script = "GVI"
	}
	for _, op := range script {
		switch op {
		case 'G':
			if err := p.GenerateGraph(); err != nil {
				r.GraphErr = err.Error()
				return
			}
		case 'V':
			diags, err := p.Validate()
			if err != nil {
				r.ValErr = err.Error()
			}
			r.Diags = []diagOut{}
			flattenDiags("", diags, &r.Diags)
			errEnts := diagnostics.GetDiagnosticsWithSeverity(diags, []diagnostics.DiagnosticSeverity{diagnostics.DiagnosticError})
			if len(errEnts) > 0 {
				r.ErrorText = diagnostics.DiagnosticsToError(errEnts).Error()
			}
		case 'I':
			inter, err := p.GenerateIntermediate()
			if err != nil {
				r.InterErr = err.Error()
				continue
			}
			// imports: map[string][]string with unordered slices
			for k := range inter.Imports {
				sort.Strings(inter.Imports[k])
			}
			// Models.Aliases is assembled from a map walk and never sorted by gleece; its order is not part
			// of any artifact (components are rendered key-sorted), so it is canonicalised here
			sort.SliceStable(inter.Models.Aliases, func(i, j int) bool {
				a, b := inter.Models.Aliases[i], inter.Models.Aliases[j]
				if a.Name != b.Name {
					return a.Name < b.Name
				}
				return a.PkgPath < b.PkgPath
			})
			b, _ := json.Marshal(inter)
			h := sha256.Sum256(b)
			r.MetaHash = hex.EncodeToString(h[:8])
			r.MetaHashes = append(r.MetaHashes, r.MetaHash)
			if full {
				r.Meta = b
			}
		}
	}
	dump := p.Graph().String()
	if dir := os.Getenv("VERIF_DUMP_GRAPH"); dir != "" {
		dumpSeq++
		os.WriteFile(fmt.Sprintf("%s/graph-%d.txt", dir, dumpSeq), []byte(dump), 0644)
	}
	r.GraphHash, r.GraphNodes, r.GraphLines = canonicalGraph(dump)
	return
}

func init() {
	commands["pipeline"] = func(in *bufio.Reader, out *bufio.Writer) error {
		var req pipelineIn
		if err := readJSON(in, &req); err != nil {
			return err
		}
		if err := os.Chdir(req.Dir); err != nil {
			return err
		}
		res := map[string]any{}
		config, err := cmd.LoadGleeceConfig(req.Config)
		if err != nil {
			res["config_err"] = err.Error()
			return writeJSON(out, res)
		}
		pipe, err := pipeline.NewGleecePipeline(config)
		if err != nil {
			res["pipeline_err"] = err.Error()
			return writeJSON(out, res)
		}
		rounds := []roundOut{}
		for i := 0; i < req.Rounds; i++ {
			script := ""
			if i < len(req.Scripts) {
				script = req.Scripts[i]
			}
			rounds = append(rounds, oneRound(&pipe, req.Full, script))
		}
		res["rounds"] = rounds
		if req.Fresh {
			fresh, err := pipeline.NewGleecePipeline(config)
			if err != nil {
				res["fresh_err"] = err.Error()
			} else {
				res["fresh"] = oneRound(&fresh, req.Full, "")
			}
		}
		return writeJSON(out, res)
	}
}
