package main

import (
	"bufio"
	"crypto/sha256"
	"encoding/hex"
	"encoding/json"
	"fmt"
	"os"
	"regexp"
	"sort"
	"strings"

	"github.com/gopher-fleece/gleece/v2/cmd"
	"github.com/gopher-fleece/gleece/v2/core/pipeline"
	"github.com/gopher-fleece/gleece/v2/core/validators/diagnostics"
)

// pipeline: runs GenerateGraph / Validate / GenerateIntermediate on ONE GleecePipeline for a
// number of rounds, and once on a fresh pipeline, inside the given project directory.

type pipelineIn struct {
	Dir    string `json:"dir"`
	Config string `json:"config"`
	Rounds int    `json:"rounds"`
	Fresh  bool   `json:"fresh"`
	Full   bool   `json:"full"` // include full metadata JSON, not only hashes
}

type diagOut struct {
	Entity    string `json:"entity"`
	Kind      string `json:"kind"`
	Parent    string `json:"parent"`
	Code      string `json:"code"`
	Severity  int    `json:"severity"`
	Message   string `json:"message"`
	File      string `json:"file"`
	StartLine int    `json:"start_line"`
	StartCol  int    `json:"start_col"`
	EndLine   int    `json:"end_line"`
	EndCol    int    `json:"end_col"`
}

type roundOut struct {
	GraphErr   string          `json:"graph_err"`
	ValErr     string          `json:"validate_err"`
	InterErr   string          `json:"intermediate_err"`
	Diags      []diagOut       `json:"diags"`
	ErrorText  string          `json:"error_text"`
	GraphHash  string          `json:"graph_hash"`
	GraphNodes int             `json:"graph_nodes"`
	GraphLines int             `json:"graph_lines"`
	MetaHash   string          `json:"meta_hash"`
	Meta       json.RawMessage `json:"meta,omitempty"`
	Panic      string          `json:"panic"`
}

func flattenDiags(parent string, ents []diagnostics.EntityDiagnostic, out *[]diagOut) {
	for _, e := range ents {
		for _, d := range e.Diagnostics {
			*out = append(*out, diagOut{
				Entity: e.EntityName, Kind: e.EntityKind, Parent: parent, Code: d.Code, Severity: int(d.Severity),
				Message: d.Message, File: d.FilePath,
				StartLine: d.Range.StartLine, StartCol: d.Range.StartCol, EndLine: d.Range.EndLine, EndCol: d.Range.EndCol,
			})
		}
		kids := []diagnostics.EntityDiagnostic{}
		for _, c := range e.Children {
			if c != nil {
				kids = append(kids, *c)
			}
		}
		flattenDiags(e.EntityKind+" "+e.EntityName, kids, out)
	}
}

func canonicalGraph(s string) (string, int, int) {
	// The dump iterates maps and pretty keys span several lines: canonicalise by sorting all lines.
	// Keys of anonymous nodes (return values) embed token positions, which depend on the order in
	// which files entered the FileSet of that pipeline: mask them.
	s = posRegex.ReplaceAllString(s, "@pos")
	lines := strings.Split(s, "\n")
	nodes := 0
	for _, l := range lines {
		if strings.HasPrefix(l, "[") {
			nodes++
		}
	}
	sort.Strings(lines)
	joined := strings.Join(lines, "\n")
	h := sha256.Sum256([]byte(joined))
	return hex.EncodeToString(h[:8]), nodes, len(lines)
}

var dumpSeq int
var posRegex = regexp.MustCompile(`@\d+`)

func oneRound(p *pipeline.GleecePipeline, full bool) (r roundOut) {
	defer func() {
		if e := recover(); e != nil {
			r.Panic = fmt.Sprint(e)
		}
	}()
	r.Diags = []diagOut{}
	if err := p.GenerateGraph(); err != nil {
		r.GraphErr = err.Error()
		return
	}
	diags, err := p.Validate()
	if err != nil {
		r.ValErr = err.Error()
	}
	flattenDiags("", diags, &r.Diags)
	errEnts := diagnostics.GetDiagnosticsWithSeverity(diags, []diagnostics.DiagnosticSeverity{diagnostics.DiagnosticError})
	if len(errEnts) > 0 {
		r.ErrorText = diagnostics.DiagnosticsToError(errEnts).Error()
	}
	inter, err := p.GenerateIntermediate()
	if err != nil {
		r.InterErr = err.Error()
	} else {
		// imports: map[string][]string with unordered slices
		for k := range inter.Imports {
			sort.Strings(inter.Imports[k])
		}
		// Models.Aliases is assembled from a map walk and never sorted by gleece; its order is not part
		// of any artifact (components are rendered key-sorted), so it is canonicalised here
		sort.SliceStable(inter.Models.Aliases, func(i, j int) bool {
			a, b := inter.Models.Aliases[i], inter.Models.Aliases[j]
			if a.Name != b.Name {
				return a.Name < b.Name
			}
			return a.PkgPath < b.PkgPath
		})
		b, _ := json.Marshal(inter)
		h := sha256.Sum256(b)
		r.MetaHash = hex.EncodeToString(h[:8])
		if full {
			r.Meta = b
		}
	}
	dump := p.Graph().String()
	if dir := os.Getenv("VERIF_DUMP_GRAPH"); dir != "" {
		dumpSeq++
		os.WriteFile(fmt.Sprintf("%s/graph-%d.txt", dir, dumpSeq), []byte(dump), 0644)
	}
	r.GraphHash, r.GraphNodes, r.GraphLines = canonicalGraph(dump)
	return
}

func init() {
	commands["pipeline"] = func(in *bufio.Reader, out *bufio.Writer) error {
		var req pipelineIn
		if err := readJSON(in, &req); err != nil {
			return err
		}
		if err := os.Chdir(req.Dir); err != nil {
			return err
		}
		res := map[string]any{}
		config, err := cmd.LoadGleeceConfig(req.Config)
		if err != nil {
			res["config_err"] = err.Error()
			return writeJSON(out, res)
		}
		pipe, err := pipeline.NewGleecePipeline(config)
		if err != nil {
			res["pipeline_err"] = err.Error()
			return writeJSON(out, res)
		}
		rounds := []roundOut{}
		for i := 0; i < req.Rounds; i++ {
			rounds = append(rounds, oneRound(&pipe, req.Full))
		}
		res["rounds"] = rounds
		if req.Fresh {
			fresh, err := pipeline.NewGleecePipeline(config)
			if err != nil {
				res["fresh_err"] = err.Error()
			} else {
				res["fresh"] = oneRound(&fresh, req.Full)
			}
		}
		return writeJSON(out, res)
	}
}
