// implrun runs library entry points of gleece (from /repo's working tree) on JSON cases
// read from stdin and prints projected observables as JSON on stdout.
package main

import (
	"bufio"
	"encoding/json"
	"fmt"
	"os"
)

type handler func(in *bufio.Reader, out *bufio.Writer) error

var commands = map[string]handler{}

func main() {
	if len(os.Args) < 2 {
		fmt.Fprintln(os.Stderr, "usage: implrun <command> < cases.json")
		os.Exit(2)
	}
	h, ok := commands[os.Args[1]]
	if !ok {
		fmt.Fprintf(os.Stderr, "unknown command %q\n", os.Args[1])
		os.Exit(2)
	}
	in := bufio.NewReaderSize(os.Stdin, 1<<20)
	out := bufio.NewWriterSize(os.Stdout, 1<<20)
	if err := h(in, out); err != nil {
		out.Flush()
		fmt.Fprintln(os.Stderr, "implrun:", err)
		os.Exit(1)
	}
	out.Flush()
}

func readJSON(in *bufio.Reader, v any) error {
	dec := json.NewDecoder(in)
	return dec.Decode(v)
}

func writeJSON(out *bufio.Writer, v any) error {
	enc := json.NewEncoder(out)
	enc.SetEscapeHTML(false)
	return enc.Encode(v)
}
