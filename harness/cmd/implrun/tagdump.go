package main

// Translator for C20: prints the validation schema of definitions.GleeceConfig as it is
// compiled from /repo's working tree (Go reflect over the real type: field path by JSON
// name, container kind of every step, Go field name, validate-tag rules in tag order).
//
//	implrun tagdump   < /dev/null        -> {"entries":[...]}
//	implrun tagoracle < requests.json    -> [bool, ...]
//
// tagoracle answers "does the real gleece validator accept this string for this single
// rule" by building a one-field struct whose field has the Go type of the addressed
// config field and the tag `validate:"<rule>[=<param>]"`, and passing it to
// validation.ValidateStruct (so gleece's custom validators and go-playground's built-in
// ones are the ones that answer).

import (
	"bufio"
	"fmt"
	"os"
	"reflect"
	"strings"

	"github.com/gopher-fleece/gleece/v2/definitions"
	"github.com/gopher-fleece/gleece/v2/infrastructure/validation"
)

type tdSeg struct {
	Seg  string `json:"seg"` // field | ptr | elems
	JSON string `json:"json"`
}

type tdRule struct {
	Tag   string `json:"tag"`
	Param string `json:"param"`
}

type tdEntry struct {
	Path   []tdSeg  `json:"path"`
	Go     string   `json:"go"`
	Kind   string   `json:"kind"` // string bool struct ptr strings structs strmap
	GoType string   `json:"gotype"`
	Rules  []tdRule `json:"rules"`
	RawTag string   `json:"rawtag"`
}

func tdParseRules(tag string) ([]tdRule, error) {
	if tag == "" {
		return []tdRule{}, nil
	}
	if tag == "-" {
		return nil, fmt.Errorf("validate:\"-\" is not classified by the translator")
	}
	out := []tdRule{}
	for _, part := range strings.Split(tag, ",") {
		if strings.Contains(part, "|") {
			return nil, fmt.Errorf("alternative rule %q is not classified by the translator", part)
		}
		kv := strings.SplitN(part, "=", 2)
		r := tdRule{Tag: kv[0]}
		if len(kv) == 2 {
			r.Param = kv[1]
		}
		switch r.Tag {
		case "structonly", "nostructlevel", "keys", "endkeys", "omitnil", "omitzero", "isdefault", "":
			return nil, fmt.Errorf("rule %q is not classified by the translator", part)
		}
		out = append(out, r)
	}
	return out, nil
}

func tdJSONName(f reflect.StructField) (string, bool) {
	tag, ok := f.Tag.Lookup("json")
	if !ok {
		return f.Name, true
	}
	name := strings.Split(tag, ",")[0]
	if name == "-" {
		return "", false
	}
	if name == "" {
		return f.Name, true
	}
	return name, true
}

func tdHasDive(rules []tdRule) bool {
	for _, r := range rules {
		if r.Tag == "dive" {
			return true
		}
	}
	return false
}

func tdWalk(t reflect.Type, prefix []tdSeg, out *[]tdEntry) error {
	for i := 0; i < t.NumField(); i++ {
		f := t.Field(i)
		if f.Anonymous {
			return fmt.Errorf("embedded field %s.%s is not classified by the translator", t.Name(), f.Name)
		}
		if !f.IsExported() {
			continue
		}
		name, settable := tdJSONName(f)
		if !settable {
			if f.Tag.Get("validate") != "" {
				return fmt.Errorf("field %s.%s has rules but cannot be set from JSON", t.Name(), f.Name)
			}
			continue
		}
		rules, err := tdParseRules(f.Tag.Get("validate"))
		if err != nil {
			return fmt.Errorf("%s.%s: %v", t.Name(), f.Name, err)
		}
		here := append(append([]tdSeg{}, prefix...), tdSeg{"field", name})
		e := tdEntry{Path: here, Go: f.Name, GoType: f.Type.String(), Rules: rules, RawTag: f.Tag.Get("validate")}
		var child reflect.Type
		var childSeg string
		ft := f.Type
		switch {
		case ft.Kind() == reflect.String:
			e.Kind = "string"
		case ft.Kind() == reflect.Bool:
			e.Kind = "bool"
		case ft.Kind() == reflect.Struct:
			e.Kind, child, childSeg = "struct", ft, "field"
		case ft.Kind() == reflect.Ptr && ft.Elem().Kind() == reflect.Struct:
			e.Kind, child, childSeg = "ptr", ft.Elem(), "ptr"
		case ft.Kind() == reflect.Slice && ft.Elem().Kind() == reflect.String:
			e.Kind = "strings"
		case ft.Kind() == reflect.Slice && ft.Elem().Kind() == reflect.Struct:
			e.Kind, child, childSeg = "structs", ft.Elem(), "elems"
		case ft.Kind() == reflect.Map && ft.Key().Kind() == reflect.String && ft.Elem().Kind() == reflect.String:
			e.Kind = "strmap"
		default:
			return fmt.Errorf("%s.%s: field type %s has no known kind", t.Name(), f.Name, ft)
		}
		*out = append(*out, e)
		if child != nil {
			sub := append(append([]tdSeg{}, prefix...), tdSeg{childSeg, name})
			if err := tdWalk(child, sub, out); err != nil {
				return err
			}
		}
	}
	return nil
}

// tdFieldType finds the Go type of the config field addressed by dotted JSON names.
func tdFieldType(path string) (reflect.Type, error) {
	t := reflect.TypeOf(definitions.GleeceConfig{})
	var ft reflect.Type
	for _, name := range strings.Split(path, ".") {
		for t.Kind() == reflect.Ptr || t.Kind() == reflect.Slice {
			t = t.Elem()
		}
		if t.Kind() != reflect.Struct {
			return nil, fmt.Errorf("path %q leaves the struct tree at %q", path, name)
		}
		found := false
		for i := 0; i < t.NumField(); i++ {
			f := t.Field(i)
			if n, ok := tdJSONName(f); ok && n == name && f.IsExported() {
				ft, t, found = f.Type, f.Type, true
				break
			}
		}
		if !found {
			return nil, fmt.Errorf("path %q: no field %q", path, name)
		}
	}
	return ft, nil
}

type tdOracleReq struct {
	Cwd   string `json:"cwd"`
	Items []struct {
		Path  string `json:"path"`
		Tag   string `json:"tag"`
		Param string `json:"param"`
		Value string `json:"value"`
	} `json:"items"`
}

func init() {
	commands["tagdump"] = func(in *bufio.Reader, out *bufio.Writer) error {
		entries := []tdEntry{}
		if err := tdWalk(reflect.TypeOf(definitions.GleeceConfig{}), nil, &entries); err != nil {
			return err
		}
		return writeJSON(out, map[string]any{"root": "definitions.GleeceConfig", "entries": entries})
	}

	commands["tagoracle"] = func(in *bufio.Reader, out *bufio.Writer) error {
		var req tdOracleReq
		if err := readJSON(in, &req); err != nil {
			return err
		}
		if req.Cwd != "" {
			if err := os.Chdir(req.Cwd); err != nil {
				return err
			}
		}
		res := make([]bool, 0, len(req.Items))
		for _, it := range req.Items {
			ft, err := tdFieldType(it.Path)
			if err != nil {
				return err
			}
			if ft.Kind() != reflect.String {
				return fmt.Errorf("tagoracle: %s is not a string field", it.Path)
			}
			tag := it.Tag
			if it.Param != "" {
				tag += "=" + it.Param
			}
			st := reflect.StructOf([]reflect.StructField{{
				Name: "X", Type: ft, Tag: reflect.StructTag(fmt.Sprintf("validate:%q", tag)),
			}})
			v := reflect.New(st).Elem()
			v.Field(0).SetString(it.Value)
			ok, perr := tdValidate(v.Interface())
			if perr != nil {
				return fmt.Errorf("tagoracle: rule %q on %s: %v", tag, it.Path, perr)
			}
			res = append(res, ok)
		}
		return writeJSON(out, res)
	}
}

func tdValidate(x any) (ok bool, err error) {
	defer func() {
		if r := recover(); r != nil {
			err = fmt.Errorf("validator panicked: %v", r)
		}
	}()
	return validation.ValidateStruct(x) == nil, nil
}
