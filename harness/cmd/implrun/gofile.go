package main

import (
	"bufio"
	"bytes"
	"go/ast"
	"go/format"
	"go/parser"
	"go/token"
	"os"
	"strconv"
)

// gofile: syntactic facts about Go source files (C09).  Input: [{"path": "..."}] ; output per
// file: whether it exists and parses, the package clause, every import with its alias and
// whether that alias (or, without alias, the last path element) is referenced as the
// qualifier of a selector expression, and whether the text is a fixed point of go/format
// (what `gofmt -l` reports).

type gofileIn struct {
	Path string `json:"path"`
}

type gofileImport struct {
	Alias string `json:"alias"`
	Path  string `json:"path"`
	Used  bool   `json:"used"`
}

type gofileOut struct {
	Exists     bool           `json:"exists"`
	ParseOK    bool           `json:"parse_ok"`
	ParseError string         `json:"parse_error"`
	Package    string         `json:"package"`
	Imports    []gofileImport `json:"imports"`
	GofmtClean bool           `json:"gofmt_clean"`
	GofmtError string         `json:"gofmt_error"`
	Bytes      int            `json:"bytes"`
}

func gofileOne(path string) gofileOut {
	res := gofileOut{Imports: []gofileImport{}}
	src, err := os.ReadFile(path)
	if err != nil {
		return res
	}
	res.Exists = true
	res.Bytes = len(src)
	fset := token.NewFileSet()
	f, err := parser.ParseFile(fset, path, src, parser.ParseComments)
	if err != nil {
		res.ParseError = err.Error()
		if f != nil && f.Name != nil {
			res.Package = f.Name.Name
		}
		return res
	}
	res.ParseOK = true
	res.Package = f.Name.Name
	used := map[string]bool{}
	ast.Inspect(f, func(n ast.Node) bool {
		if sel, ok := n.(*ast.SelectorExpr); ok {
			if id, ok := sel.X.(*ast.Ident); ok && id.Obj == nil {
				used[id.Name] = true
			}
		}
		return true
	})
	for _, im := range f.Imports {
		p, _ := strconv.Unquote(im.Path.Value)
		alias := ""
		name := ""
		if im.Name != nil {
			alias = im.Name.Name
			name = alias
		} else {
			name = lastElem(p)
			if isMajorVersion(name) {
				name = lastElem(p[:len(p)-len(name)-1])
			}
		}
		res.Imports = append(res.Imports, gofileImport{Alias: alias, Path: p, Used: used[name]})
	}
	formatted, err := format.Source(src)
	if err != nil {
		res.GofmtError = err.Error()
	} else {
		res.GofmtClean = bytes.Equal(formatted, src)
	}
	return res
}

func lastElem(p string) string {
	for i := len(p) - 1; i >= 0; i-- {
		if p[i] == '/' {
			return p[i+1:]
		}
	}
	return p
}

func isMajorVersion(s string) bool {
	if len(s) < 2 || s[0] != 'v' {
		return false
	}
	for _, c := range s[1:] {
		if c < '0' || c > '9' {
			return false
		}
	}
	return true
}

func init() {
	commands["gofile"] = func(in *bufio.Reader, out *bufio.Writer) error {
		var cases []gofileIn
		if err := readJSON(in, &cases); err != nil {
			return err
		}
		results := make([]gofileOut, 0, len(cases))
		for _, c := range cases {
			results = append(results, gofileOne(c.Path))
		}
		return writeJSON(out, results)
	}
}
