package main

import (
	"bufio"
	"fmt"
	"os"
	"slices"
	"strings"

	"github.com/gopher-fleece/gleece/v2/cmd"
	"github.com/gopher-fleece/gleece/v2/common"
	"github.com/gopher-fleece/gleece/v2/core/annotations"
	"github.com/gopher-fleece/gleece/v2/core/metadata"
	"github.com/gopher-fleece/gleece/v2/core/pipeline"
	"github.com/gopher-fleece/gleece/v2/core/validators/diagnostics"
	"github.com/gopher-fleece/gleece/v2/core/validators/paths"
)

// routewarn (C15, pipeline leg): for each project directory runs the real pipeline
// (LoadGleeceConfig -> NewGleecePipeline -> GenerateGraph -> Validate) and reports
//   - the methods (receivers) of the project in the order the API validator visits them (controllers
//     ordered like GleecePipeline.getControllers, receivers in metadata order), with the verb, the
//     method's @Route value, the controller's @Route value (the prefix the routers mount it under),
//     the file and the range of the @Route value, whether it carries @Hidden (hidden receivers are listed like
//     any other: every routes template registers them);
//   - every `route-conflict` diagnostic of the tree Validate() returns, with the controller and receiver
//     entity that carries it, its file, range and message;
//   - what paths.FindConflicts itself says about the entries controller route + method route (indices
//     into the list above).

type rwIn struct {
	Dir    string `json:"dir"`
	Config string `json:"config"`
}

type rwMethod struct {
	Controller string `json:"controller"`
	Pkg        string `json:"pkg"`
	Receiver   string `json:"receiver"`
	Verb       string `json:"verb"`
	Route      string `json:"route"`
	Prefix     string `json:"prefix"`
	HasRoute   bool   `json:"has_route"`
	Hidden     bool   `json:"hidden"` // carries @Hidden: no operation in the specification, registered by the routers all the same
	File       string `json:"file"`
	StartLine  int    `json:"start_line"`
	StartCol   int    `json:"start_col"`
	EndLine    int    `json:"end_line"`
	EndCol     int    `json:"end_col"`
}

type rwWarning struct {
	Controller string `json:"controller"`
	Receiver   string `json:"receiver"`
	Depth      int    `json:"depth"`
	Severity   int    `json:"severity"`
	Message    string `json:"message"`
	File       string `json:"file"`
	StartLine  int    `json:"start_line"`
	StartCol   int    `json:"start_col"`
	EndLine    int    `json:"end_line"`
	EndCol     int    `json:"end_col"`
}

type rwOut struct {
	Err       string        `json:"err"`
	Panic     string        `json:"panic"`
	Methods   []rwMethod    `json:"methods"`
	Warnings  []rwWarning   `json:"warnings"`
	Conflicts []conflictOut `json:"conflicts"`
	OtherDiag int           `json:"other_diags"`
}

func rwCollect(ents []diagnostics.EntityDiagnostic, chain []string, o *rwOut) {
	for _, e := range ents {
		here := append(append([]string{}, chain...), e.EntityKind+"\x00"+e.EntityName)
		for _, d := range e.Diagnostics {
			if string(d.Code) != string(diagnostics.DiagRouteConflict) {
				o.OtherDiag++
				continue
			}
			w := rwWarning{Depth: len(here), Severity: int(d.Severity), Message: d.Message, File: d.FilePath,
				StartLine: d.Range.StartLine, StartCol: d.Range.StartCol, EndLine: d.Range.EndLine, EndCol: d.Range.EndCol}
			for _, c := range here {
				kn := strings.SplitN(c, "\x00", 2)
				switch kn[0] {
				case "Controller":
					w.Controller = kn[1]
				case "Receiver":
					w.Receiver = kn[1]
				}
			}
			o.Warnings = append(o.Warnings, w)
		}
		kids := []diagnostics.EntityDiagnostic{}
		for _, c := range e.Children {
			if c != nil {
				kids = append(kids, *c)
			}
		}
		rwCollect(kids, here, o)
	}
}

func rwOne(req rwIn) (o rwOut) {
	o.Methods, o.Warnings, o.Conflicts = []rwMethod{}, []rwWarning{}, []conflictOut{}
	defer func() {
		if e := recover(); e != nil {
			o.Panic = fmt.Sprint(e)
		}
	}()
	if err := os.Chdir(req.Dir); err != nil {
		o.Err = "chdir: " + err.Error()
		return
	}
	config, err := cmd.LoadGleeceConfig(req.Config)
	if err != nil {
		o.Err = "config: " + err.Error()
		return
	}
	pipe, err := pipeline.NewGleecePipeline(config)
	if err != nil {
		o.Err = "pipeline: " + err.Error()
		return
	}
	if err := pipe.GenerateGraph(); err != nil {
		o.Err = "graph: " + err.Error()
		return
	}
	diags, err := pipe.Validate()
	if err != nil {
		o.Err = "validate: " + err.Error()
	}
	rwCollect(diags, nil, &o)

	// the controllers, ordered like GleecePipeline.getControllers
	controllers := []metadata.ControllerMeta{}
	for _, n := range pipe.Graph().FindByKind(common.SymKindController) {
		if c, ok := n.Data.(metadata.ControllerMeta); ok {
			controllers = append(controllers, c)
		}
	}
	slices.SortFunc(controllers, func(a, b metadata.ControllerMeta) int {
		if byName := strings.Compare(a.Struct.Name, b.Struct.Name); byName != 0 {
			return byName
		}
		return strings.Compare(a.Struct.PkgPath, b.Struct.PkgPath)
	})
	entries := []paths.RouteEntry{}
	ident := map[*metadata.ReceiverMeta]int{}
	for ci := range controllers {
		c := &controllers[ci]
		prefix := ""
		if c.Struct.Annotations != nil {
			prefix = c.Struct.Annotations.GetFirstValueOrEmpty(annotations.GleeceAnnotationRoute)
		}
		for ri := range c.Receivers {
			r := &c.Receivers[ri]
			m := rwMethod{Controller: c.Struct.Name, Pkg: c.Struct.PkgPath, Receiver: r.Name, Prefix: prefix}
			if r.Annotations != nil {
				m.Verb = r.Annotations.GetFirstValueOrEmpty(annotations.GleeceAnnotationMethod)
				m.Route = r.Annotations.GetFirstValueOrEmpty(annotations.GleeceAnnotationRoute)
				m.File = r.Annotations.FileName()
				m.Hidden = r.Annotations.GetFirst(annotations.GleeceAnnotationHidden) != nil
				if a := r.Annotations.GetFirst(annotations.GleeceAnnotationRoute); a != nil {
					rg := a.GetValueRange()
					m.HasRoute = true
					m.StartLine, m.StartCol, m.EndLine, m.EndCol = rg.StartLine, rg.StartCol, rg.EndLine, rg.EndCol
				}
			}
			ident[r] = len(o.Methods)
			o.Methods = append(o.Methods, m)
			// like ApiValidator.getRouteEntries: controller route + method route
			entries = append(entries, paths.RouteEntry{Path: prefix + m.Route, Method: m.Verb,
				Meta: paths.RouteEntryMeta{Controller: c, Receiver: r}})
		}
	}
	for _, cf := range paths.FindConflicts(entries) {
		o.Conflicts = append(o.Conflicts, conflictOut{
			A: ident[cf.A.Meta.Receiver], B: ident[cf.B.Meta.Receiver], Reason: cf.Reason,
			APath: cf.A.Path, BPath: cf.B.Path,
		})
	}
	return
}

func init() {
	commands["routewarn"] = func(in *bufio.Reader, out *bufio.Writer) error {
		var reqs []rwIn
		if err := readJSON(in, &reqs); err != nil {
			return err
		}
		res := make([]rwOut, 0, len(reqs))
		for _, r := range reqs {
			res = append(res, rwOne(r))
		}
		return writeJSON(out, res)
	}
}
