package main

// C20 library-level entry points.
//
//	implrun loadconfig  < {"cwd":dir,"configs":[text,...]}  -> [{"ok":bool,"error":text}, ...]
//	    every text is written to <cwd>/.c20cfg.json and loaded with cmd.LoadGleeceConfig
//	    (JSON5 decoding + validation exactly as the generate commands do it)
//	implrun gofileinfo  < [path,...]  -> [{"package":..,"imports":[..],"strings":[..],"error":..}, ...]
//	    go/parser facts about a generated routes file (package clause, import paths, string literals)

import (
	"bufio"
	"go/ast"
	"go/parser"
	"go/token"
	"os"
	"path/filepath"
	"strconv"

	gleececmd "github.com/gopher-fleece/gleece/v2/cmd"
)

type c20LoadReq struct {
	Cwd     string   `json:"cwd"`
	Configs []string `json:"configs"`
}

type c20LoadRes struct {
	Ok    bool   `json:"ok"`
	Error string `json:"error"`
}

type c20FileInfo struct {
	Package string   `json:"package"`
	Imports []string `json:"imports"`
	Strings []string `json:"strings"`
	Error   string   `json:"error"`
}

func c20Load(path string) (res c20LoadRes) {
	defer func() {
		if r := recover(); r != nil {
			res = c20LoadRes{Ok: false, Error: "PANIC: " + toString(r)}
		}
	}()
	_, err := gleececmd.LoadGleeceConfig(path)
	if err != nil {
		return c20LoadRes{Ok: false, Error: err.Error()}
	}
	return c20LoadRes{Ok: true}
}

func toString(r any) string {
	if e, ok := r.(error); ok {
		return e.Error()
	}
	if s, ok := r.(string); ok {
		return s
	}
	return "panic"
}

func init() {
	commands["loadconfig"] = func(in *bufio.Reader, out *bufio.Writer) error {
		var req c20LoadReq
		if err := readJSON(in, &req); err != nil {
			return err
		}
		if err := os.Chdir(req.Cwd); err != nil {
			return err
		}
		path := filepath.Join(req.Cwd, ".c20cfg.json")
		defer os.Remove(path)
		res := make([]c20LoadRes, 0, len(req.Configs))
		for _, text := range req.Configs {
			if err := os.WriteFile(path, []byte(text), 0644); err != nil {
				return err
			}
			res = append(res, c20Load(path))
		}
		return writeJSON(out, res)
	}

	commands["gofileinfo"] = func(in *bufio.Reader, out *bufio.Writer) error {
		var paths []string
		if err := readJSON(in, &paths); err != nil {
			return err
		}
		res := make([]c20FileInfo, 0, len(paths))
		for _, p := range paths {
			info := c20FileInfo{Imports: []string{}, Strings: []string{}}
			fset := token.NewFileSet()
			f, err := parser.ParseFile(fset, p, nil, parser.SkipObjectResolution)
			if f != nil && f.Name != nil {
				info.Package = f.Name.Name
			}
			if err != nil {
				info.Error = err.Error()
			}
			if f != nil {
				for _, im := range f.Imports {
					if s, e := strconv.Unquote(im.Path.Value); e == nil {
						info.Imports = append(info.Imports, s)
					}
				}
				ast.Inspect(f, func(n ast.Node) bool {
					if lit, ok := n.(*ast.BasicLit); ok && lit.Kind == token.STRING {
						if s, e := strconv.Unquote(lit.Value); e == nil && len(s) < 200 {
							info.Strings = append(info.Strings, s)
						}
					}
					return true
				})
			}
			res = append(res, info)
		}
		return writeJSON(out, res)
	}
}
