package main

// C20 library-level entry points.
//
//	implrun loadconfig  < {"cwd":dir,"configs":[text,...],"name":file?}  -> [{"ok":bool,"error":text}, ...]
//	    every text is written to <cwd>/.c20cfg.json and loaded with cmd.LoadGleeceConfig
//	    (JSON5 decoding + validation exactly as the generate commands do it).  ALL texts of one call
//	    are loaded one after the other in THIS process (a history of loads); for an accepted text
//	    "config" is the returned *GleeceConfig marshalled to JSON right after its call and "after"
//	    the same value marshalled again once the whole history has been loaded (a later load must
//	    not reach into an earlier result).  A caller that wants the answer of a fresh process
//	    sends one text per call.
//	implrun gofileinfo  < [path,...]  -> [{"package":..,"imports":[..],"strings":[..],"error":..}, ...]
//	    go/parser facts about a generated routes file (package clause, import paths, string literals)

import (
	"bufio"
	"encoding/json"
	"go/ast"
	"go/parser"
	"go/token"
	"os"
	"path/filepath"
	"strconv"

	gleececmd "github.com/gopher-fleece/gleece/v2/cmd"
)

type c20LoadReq struct {
	Cwd     string   `json:"cwd"`
	Configs []string `json:"configs"`
	Name    string   `json:"name"` // file name below cwd (default .c20cfg.json); lets processes share a cwd
}

type c20LoadRes struct {
	Ok     bool            `json:"ok"`
	Error  string          `json:"error"`
	Config json.RawMessage `json:"config,omitempty"`
	After  json.RawMessage `json:"after,omitempty"`
}

type c20FileInfo struct {
	Package string   `json:"package"`
	Imports []string `json:"imports"`
	Strings []string `json:"strings"`
	Error   string   `json:"error"`
}

func c20Load(path string) (res c20LoadRes, loaded any) {
	defer func() {
		if r := recover(); r != nil {
			res, loaded = c20LoadRes{Ok: false, Error: "PANIC: " + toString(r)}, nil
		}
	}()
	cfg, err := gleececmd.LoadGleeceConfig(path)
	if err != nil {
		return c20LoadRes{Ok: false, Error: err.Error()}, nil
	}
	res = c20LoadRes{Ok: true}
	if cfg != nil {
		if raw, e := json.Marshal(cfg); e == nil {
			res.Config = raw
			loaded = cfg
		} else {
			res.Error = "MARSHAL: " + e.Error()
		}
	}
	return res, loaded
}

func toString(r any) string {
	if e, ok := r.(error); ok {
		return e.Error()
	}
	if s, ok := r.(string); ok {
		return s
	}
	return "panic"
}

func init() {
	commands["loadconfig"] = func(in *bufio.Reader, out *bufio.Writer) error {
		var req c20LoadReq
		if err := readJSON(in, &req); err != nil {
			return err
		}
		if err := os.Chdir(req.Cwd); err != nil {
			return err
		}
		name := req.Name
		if name == "" {
			name = ".c20cfg.json"
		}
		path := filepath.Join(req.Cwd, name)
		defer os.Remove(path)
		res := make([]c20LoadRes, 0, len(req.Configs))
		kept := make([]any, 0, len(req.Configs))
		for _, text := range req.Configs {
			if err := os.WriteFile(path, []byte(text), 0644); err != nil {
				return err
			}
			r, loaded := c20Load(path)
			res = append(res, r)
			kept = append(kept, loaded)
		}
		for i, loaded := range kept {
			if loaded != nil {
				if raw, e := json.Marshal(loaded); e == nil {
					res[i].After = raw
				}
			}
		}
		return writeJSON(out, res)
	}

	commands["gofileinfo"] = func(in *bufio.Reader, out *bufio.Writer) error {
		var paths []string
		if err := readJSON(in, &paths); err != nil {
			return err
		}
		res := make([]c20FileInfo, 0, len(paths))
		for _, p := range paths {
			info := c20FileInfo{Imports: []string{}, Strings: []string{}}
			fset := token.NewFileSet()
			f, err := parser.ParseFile(fset, p, nil, parser.SkipObjectResolution)
			if f != nil && f.Name != nil {
				info.Package = f.Name.Name
			}
			if err != nil {
				info.Error = err.Error()
			}
			if f != nil {
				for _, im := range f.Imports {
					if s, e := strconv.Unquote(im.Path.Value); e == nil {
						info.Imports = append(info.Imports, s)
					}
				}
				ast.Inspect(f, func(n ast.Node) bool {
					if lit, ok := n.(*ast.BasicLit); ok && lit.Kind == token.STRING {
						if s, e := strconv.Unquote(lit.Value); e == nil && len(s) < 200 {
							info.Strings = append(info.Strings, s)
						}
					}
					return true
				})
			}
			res = append(res, info)
		}
		return writeJSON(out, res)
	}
}
