package main

import (
	"bufio"
	"encoding/base64"
	"fmt"
	"io"
	"log"
	"os"
	"time"

	"github.com/gopher-fleece/gleece/v2/cmd"
	"github.com/gopher-fleece/gleece/v2/cmd/arguments"
)

// genroutes: runs `generate routes` for a LIST of jobs sequentially in ONE process through the
// library entry point the CLI uses (cmd.GenerateRoutes), changing into each job's directory
// first.  After every job the file at the job's output path is read back (it was removed
// before the job ran, so a stale file cannot be mistaken for a fresh one).  C09 compares each
// file with the one a fresh CLI process wrote for the same job: anything one generation leaves
// behind in package-level state (template caches, raymond's global partial/helper registry)
// shows up as a difference.

type genroutesJob struct {
	Dir    string `json:"dir"`
	Config string `json:"config"`
	Output string `json:"output"` // relative to dir, or absolute
}

type genroutesOut struct {
	Error   string  `json:"error"`
	Panic   string  `json:"panic"`
	Written bool    `json:"written"`
	Content string  `json:"content_b64"`
	WallS   float64 `json:"wall_s"`
}

func genroutesOne(j genroutesJob) (res genroutesOut) {
	t0 := time.Now()
	defer func() {
		if r := recover(); r != nil {
			res.Panic = fmt.Sprint(r)
		}
		res.WallS = time.Since(t0).Seconds()
	}()
	if err := os.Chdir(j.Dir); err != nil {
		res.Error = "chdir: " + err.Error()
		return res
	}
	os.Remove(j.Output)
	if err := cmd.GenerateRoutes(arguments.CliArguments{ConfigPath: j.Config}); err != nil {
		res.Error = err.Error()
	}
	if data, err := os.ReadFile(j.Output); err == nil {
		res.Written = true
		res.Content = base64.StdEncoding.EncodeToString(data)
	}
	return res
}

func init() {
	commands["genroutes"] = func(in *bufio.Reader, out *bufio.Writer) error {
		var jobs []genroutesJob
		if err := readJSON(in, &jobs); err != nil {
			return err
		}
		log.SetOutput(io.Discard)
		wd, _ := os.Getwd()
		results := make([]genroutesOut, 0, len(jobs))
		for _, j := range jobs {
			results = append(results, genroutesOne(j))
		}
		if wd != "" {
			os.Chdir(wd)
		}
		return writeJSON(out, results)
	}
}
