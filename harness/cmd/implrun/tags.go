package main

// Command "tags": the two validation converters of the OpenAPI generators on fresh schemas.
// For each case (Go type name, validator string, optional pre-existing component for a
// referenced type) it calls the real swagen30.BuildSchemaValidation and
// swagen31.BuildSchemaValidationV31 the way the call sites (createRouteParam) do, recovers
// panics, and prints
//   raw   the constraint fields of the Go schema structs the converters wrote,
//   json  what the real renderers (kin-openapi MarshalJSON, libopenapi RenderJSON) print,
//   pf    strconv.ParseFloat (through swagtool.ParseNumber) for the strings the model asks about,
//   yres  libopenapi's rendering of single enum nodes (tag, text) the model asks about.

import (
	"bufio"
	"bytes"
	"encoding/json"
	"fmt"
	"io"
	"log"
	"math"

	"github.com/getkin/kin-openapi/openapi3"
	"github.com/gopher-fleece/gleece/v2/generator/swagen/swagen30"
	"github.com/gopher-fleece/gleece/v2/generator/swagen/swagen31"
	"github.com/gopher-fleece/gleece/v2/generator/swagen/swagtool"
	"github.com/pb33f/libopenapi/datamodel/high/base"
	v3 "github.com/pb33f/libopenapi/datamodel/high/v3"
	"github.com/pb33f/libopenapi/orderedmap"
	"go.yaml.in/yaml/v4"
)

type tagsComponent struct {
	Type string   `json:"type"`
	Enum []string `json:"enum"`
}

type tagsCase struct {
	Type      string         `json:"type"`
	Validator string         `json:"validator"`
	Component *tagsComponent `json:"component"`
	PfInputs  []string       `json:"pf_inputs"`
	YInputs   [][2]string    `json:"yres_inputs"` // (tag, text)
}

type tagsSide struct {
	Status   string          `json:"status"` // ok | panic | fail
	Detail   string          `json:"detail,omitempty"`
	IsRef    bool            `json:"is_ref"`
	Raw      map[string]any  `json:"raw,omitempty"`
	JSON     json.RawMessage `json:"json,omitempty"`
	CompRaw  map[string]any  `json:"comp_raw,omitempty"`
	CompJSON json.RawMessage `json:"comp_json,omitempty"`
}

type tagsYres struct {
	Tag   string          `json:"tag"`
	Value string          `json:"value"`
	Bad   bool            `json:"bad"`
	JSON  json.RawMessage `json:"json,omitempty"`
}

type tagsOut struct {
	Kind string         `json:"kind"`
	R30  tagsSide       `json:"r30"`
	R31  tagsSide       `json:"r31"`
	Pf   map[string]any `json:"pf"`
	Yres []tagsYres     `json:"yres"`
}

func tagsFloat(f *float64) any {
	if f == nil {
		return nil
	}
	switch {
	case math.IsNaN(*f):
		return map[string]string{"special": "NaN"}
	case math.IsInf(*f, 1):
		return map[string]string{"special": "+Inf"}
	case math.IsInf(*f, -1):
		return map[string]string{"special": "-Inf"}
	}
	return *f
}

func tagsRaw30(sc *openapi3.Schema) map[string]any {
	if sc == nil {
		return nil
	}
	enum := make([]any, 0, len(sc.Enum))
	for _, e := range sc.Enum {
		switch x := e.(type) {
		case string:
			enum = append(enum, map[string]any{"s": x})
		case int64:
			enum = append(enum, map[string]any{"i": x})
		case float64:
			enum = append(enum, map[string]any{"f": tagsFloat(&x)})
		default:
			enum = append(enum, map[string]any{"other": fmt.Sprintf("%T", e)})
		}
	}
	var maxLen, maxItems any
	if sc.MaxLength != nil {
		maxLen = *sc.MaxLength
	}
	if sc.MaxItems != nil {
		maxItems = *sc.MaxItems
	}
	return map[string]any{
		"format": sc.Format, "min": tagsFloat(sc.Min), "emin": sc.ExclusiveMin,
		"max": tagsFloat(sc.Max), "emax": sc.ExclusiveMax,
		"minLength": sc.MinLength, "maxLength": maxLen, "pattern": sc.Pattern,
		"minItems": sc.MinItems, "maxItems": maxItems, "uniqueItems": sc.UniqueItems, "enum": enum,
	}
}

func tagsDyn(d *base.DynamicValue[bool, float64]) any {
	if d == nil {
		return nil
	}
	if d.N == 1 {
		return tagsFloat(&d.B)
	}
	return map[string]any{"bool": d.A}
}

func tagsI64(p *int64) any {
	if p == nil {
		return nil
	}
	return *p
}

func tagsRaw31(sc *base.Schema) map[string]any {
	if sc == nil {
		return nil
	}
	var enum any // nil slice and empty non-nil slice are rendered differently
	if sc.Enum != nil {
		nodes := make([]any, 0, len(sc.Enum))
		for _, n := range sc.Enum {
			nodes = append(nodes, map[string]any{"tag": n.Tag, "value": n.Value})
		}
		enum = nodes
	}
	var unique any
	if sc.UniqueItems != nil {
		unique = *sc.UniqueItems
	}
	return map[string]any{
		"format": sc.Format, "minimum": tagsFloat(sc.Minimum), "maximum": tagsFloat(sc.Maximum),
		"xmin": tagsDyn(sc.ExclusiveMinimum), "xmax": tagsDyn(sc.ExclusiveMaximum),
		"minLength": tagsI64(sc.MinLength), "maxLength": tagsI64(sc.MaxLength), "pattern": sc.Pattern,
		"minItems": tagsI64(sc.MinItems), "maxItems": tagsI64(sc.MaxItems), "uniqueItems": unique, "enum": enum,
	}
}

func tagsRun30(c tagsCase) (side tagsSide) {
	defer func() {
		if r := recover(); r != nil {
			side = tagsSide{Status: "panic", Detail: fmt.Sprint(r)}
		}
	}()
	o := &openapi3.T{Components: &openapi3.Components{Schemas: openapi3.Schemas{}}}
	if c.Component != nil {
		vals := make([]any, 0, len(c.Component.Enum))
		for _, e := range c.Component.Enum {
			vals = append(vals, e)
		}
		o.Components.Schemas[c.Type] = &openapi3.SchemaRef{Value: &openapi3.Schema{
			Type: &openapi3.Types{c.Component.Type}, Enum: vals}}
	}
	ref := swagen30.InterfaceToSchemaRef(o, c.Type)
	swagen30.BuildSchemaValidation(ref, c.Validator, c.Type)
	side.Status = "ok"
	side.IsRef = ref.Ref != ""
	if !side.IsRef {
		side.Raw = tagsRaw30(ref.Value)
	}
	b, err := json.Marshal(ref)
	if err != nil {
		return tagsSide{Status: "fail", Detail: err.Error(), IsRef: side.IsRef, Raw: side.Raw}
	}
	side.JSON = b
	if comp := o.Components.Schemas[c.Type]; comp != nil {
		side.CompRaw = tagsRaw30(comp.Value)
		cb, err := json.Marshal(comp)
		if err != nil {
			return tagsSide{Status: "fail", Detail: err.Error(), IsRef: side.IsRef}
		}
		side.CompJSON = cb
	}
	return side
}

func tagsNewDoc() *v3.Document {
	return &v3.Document{Version: "3.1.0", Info: &base.Info{Title: "t", Version: "1"},
		Paths:      &v3.Paths{PathItems: orderedmap.New[string, *v3.PathItem]()},
		Components: &v3.Components{Schemas: orderedmap.New[string, *base.SchemaProxy]()}}
}

// the schema objects named in names, as printed by libopenapi's RenderJSON (what
// swagen31.GenerateSpec calls), numbers kept as written
func tagsRender31(doc *v3.Document, names ...string) ([]json.RawMessage, error) {
	b, err := doc.RenderJSON("  ")
	if err != nil {
		return nil, err
	}
	var top struct {
		Components struct {
			Schemas map[string]json.RawMessage `json:"schemas"`
		} `json:"components"`
	}
	dec := json.NewDecoder(bytes.NewReader(b))
	dec.UseNumber()
	if err := dec.Decode(&top); err != nil {
		return nil, fmt.Errorf("rendered document is not JSON: %v", err)
	}
	out := make([]json.RawMessage, len(names))
	for i, n := range names {
		raw := top.Components.Schemas[n]
		var probe any
		pd := json.NewDecoder(bytes.NewReader(raw))
		pd.UseNumber()
		if err := pd.Decode(&probe); err != nil {
			return nil, fmt.Errorf("rendered schema is not JSON: %v", err)
		}
		out[i] = raw
	}
	return out, nil
}

func tagsRun31(c tagsCase) (side tagsSide) {
	defer func() {
		if r := recover(); r != nil {
			side = tagsSide{Status: "panic", Detail: fmt.Sprint(r)}
		}
	}()
	doc := tagsNewDoc()
	var compSchema *base.Schema
	if c.Component != nil {
		nodes := make([]*yaml.Node, 0, len(c.Component.Enum))
		for _, e := range c.Component.Enum {
			nodes = append(nodes, &yaml.Node{Kind: yaml.ScalarNode, Value: e})
		}
		compSchema = &base.Schema{Type: []string{c.Component.Type}, Enum: nodes}
		doc.Components.Schemas.Set(c.Type, base.CreateSchemaProxy(compSchema))
	}
	proxy := swagen31.InterfaceToSchemaV3(doc, c.Type)
	if proxy.Schema() != nil { // createRouteParam / createContentWithSchemaRef
		swagen31.BuildSchemaValidationV31(proxy.Schema(), c.Validator, c.Type)
	}
	side.Status = "ok"
	side.IsRef = proxy.IsReference()
	if !side.IsRef {
		side.Raw = tagsRaw31(proxy.Schema())
	}
	if compSchema != nil {
		side.CompRaw = tagsRaw31(compSchema)
	}
	doc.Components.Schemas.Set("VerifUsage", proxy)
	names := []string{"VerifUsage"}
	if compSchema != nil {
		names = append(names, c.Type)
	}
	rendered, err := tagsRender31(doc, names...)
	if err != nil {
		return tagsSide{Status: "fail", Detail: err.Error(), IsRef: side.IsRef, Raw: side.Raw, CompRaw: side.CompRaw}
	}
	side.JSON = rendered[0]
	if compSchema != nil {
		side.CompJSON = rendered[1]
	}
	return side
}

func tagsYresOne(tag, value string) (out tagsYres) {
	out = tagsYres{Tag: tag, Value: value}
	defer func() {
		if r := recover(); r != nil {
			out.Bad = true
		}
	}()
	doc := tagsNewDoc()
	sc := &base.Schema{Enum: []*yaml.Node{{Kind: yaml.ScalarNode, Value: value, Tag: tag}}}
	doc.Components.Schemas.Set("Y", base.CreateSchemaProxy(sc))
	rendered, err := tagsRender31(doc, "Y")
	if err != nil {
		out.Bad = true
		return out
	}
	var obj struct {
		Enum []json.RawMessage `json:"enum"`
	}
	if err := json.Unmarshal(rendered[0], &obj); err != nil || len(obj.Enum) != 1 {
		out.Bad = true
		return out
	}
	out.JSON = obj.Enum[0]
	return out
}

func init() {
	commands["tags"] = func(in *bufio.Reader, out *bufio.Writer) error {
		log.SetOutput(io.Discard)
		var cases []tagsCase
		if err := readJSON(in, &cases); err != nil {
			return err
		}
		results := make([]tagsOut, 0, len(cases))
		ycache := map[[2]string]tagsYres{}
		for _, c := range cases {
			o := tagsOut{Kind: swagtool.ToOpenApiType(c.Type), Pf: map[string]any{}, Yres: []tagsYres{}}
			o.R30 = tagsRun30(c)
			o.R31 = tagsRun31(c)
			for _, v := range c.PfInputs {
				o.Pf[v] = tagsFloat(swagtool.ParseNumber(v))
			}
			for _, y := range c.YInputs {
				r, ok := ycache[y]
				if !ok {
					r = tagsYresOne(y[0], y[1])
					ycache[y] = r
				}
				o.Yres = append(o.Yres, r)
			}
			results = append(results, o)
		}
		return writeJSON(out, results)
	}
}
