package main

import (
	"bufio"
	"os"

	"github.com/gopher-fleece/gleece/v2/cmd"
	"github.com/gopher-fleece/gleece/v2/core/pipeline"
	"github.com/gopher-fleece/gleece/v2/core/validators/diagnostics"
)

// diagtree (C18): the entity tree pipeline.Validate() returns, unflattened (sibling entities that
// share kind and name stay apart), the entities GetDiagnosticsWithSeverity(Error) selects, in order,
// and the text DiagnosticsToError makes of them (= the error Run() returns).  With "rounds": k the trees of
// k-1 further Validate() calls on the same pipeline ("later_rounds").

type dtDiag struct {
	Code      string `json:"code"`
	Severity  int    `json:"severity"`
	Message   string `json:"message"`
	File      string `json:"file"`
	Source    string `json:"source"`
	StartLine int    `json:"start_line"`
	StartCol  int    `json:"start_col"`
	EndLine   int    `json:"end_line"`
	EndCol    int    `json:"end_col"`
}

type dtEntity struct {
	Kind     string     `json:"kind"`
	Name     string     `json:"name"`
	Diags    []dtDiag   `json:"diags"`
	Children []dtEntity `json:"children"`
}

func toDtEntity(e diagnostics.EntityDiagnostic) dtEntity {
	out := dtEntity{Kind: e.EntityKind, Name: e.EntityName, Diags: []dtDiag{}, Children: []dtEntity{}}
	for _, d := range e.Diagnostics {
		out.Diags = append(out.Diags, dtDiag{Code: d.Code, Severity: int(d.Severity), Message: d.Message, File: d.FilePath,
			Source: d.Source, StartLine: d.Range.StartLine, StartCol: d.Range.StartCol, EndLine: d.Range.EndLine, EndCol: d.Range.EndCol})
	}
	for _, c := range e.Children {
		if c != nil {
			out.Children = append(out.Children, toDtEntity(*c))
		}
	}
	return out
}

func init() {
	commands["diagtree"] = func(in *bufio.Reader, out *bufio.Writer) error {
		var req pipelineIn
		if err := readJSON(in, &req); err != nil {
			return err
		}
		if err := os.Chdir(req.Dir); err != nil {
			return err
		}
		res := map[string]any{}
		config, err := cmd.LoadGleeceConfig(req.Config)
		if err != nil {
			res["config_err"] = err.Error()
			return writeJSON(out, res)
		}
		pipe, err := pipeline.NewGleecePipeline(config)
		if err != nil {
			res["pipeline_err"] = err.Error()
			return writeJSON(out, res)
		}
		if err := pipe.GenerateGraph(); err != nil {
			res["graph_err"] = err.Error()
			return writeJSON(out, res)
		}
		diags, err := pipe.Validate()
		if err != nil {
			res["validate_err"] = err.Error()
		}
		tree := []dtEntity{}
		for _, e := range diags {
			tree = append(tree, toDtEntity(e))
		}
		res["tree"] = tree
		// "rounds": k > 1 - Validate() again, k-1 more times, on the SAME pipeline (no GenerateGraph in between: what a
		// host does that prints the warnings and then validates again); every later round's tree, serialised as it
		// is returned
		later := [][]dtEntity{}
		for r := 1; r < req.Rounds; r++ {
			again, aerr := pipe.Validate()
			if aerr != nil {
				res["validate_again_err"] = aerr.Error()
				break
			}
			t := []dtEntity{}
			for _, e := range again {
				t = append(t, toDtEntity(e))
			}
			later = append(later, t)
		}
		res["later_rounds"] = later
		errEnts := diagnostics.GetDiagnosticsWithSeverity(diags, []diagnostics.DiagnosticSeverity{diagnostics.DiagnosticError})
		selected := []string{}
		for _, e := range errEnts {
			selected = append(selected, e.EntityKind+" "+e.EntityName)
		}
		res["selected"] = selected
		if len(errEnts) > 0 {
			res["error_text"] = diagnostics.DiagnosticsToError(errEnts).Error()
		} else {
			res["error_text"] = ""
		}
		// the command's own error, from a fresh pipeline
		fresh, err := pipeline.NewGleecePipeline(config)
		if err == nil {
			if _, rerr := fresh.Run(); rerr != nil {
				res["run_err"] = rerr.Error()
			} else {
				res["run_err"] = ""
			}
		}
		return writeJSON(out, res)
	}
}
