package main

import (
	"bufio"
	"encoding/base64"
	"fmt"
	"io"
	"io/fs"
	"log"
	"os"
	"path/filepath"
	"time"

	"github.com/gopher-fleece/gleece/v2/cmd"
	"github.com/gopher-fleece/gleece/v2/cmd/arguments"
)

// genseq: runs a SEQUENCE of generations in ONE process, all in the same live directory (same
// package paths, same file names): before each job the live directory is re-synchronised from
// the job's staging directory (the next edit of the project), then the library entry point the
// CLI uses is called (cmd.GenerateSpec / GenerateRoutes / GenerateSpecAndRoutes) and the output
// files are read back.  The checks compare every artifact with the one a FRESH process writes
// for the same edit in the same directory: whatever a generation leaves behind in package-level
// state (memoised annotations, cached packages, scheme tables, template registries) and that a
// later generation picks up shows as a difference.

type genseqJob struct {
	Live    string   `json:"live"`    // directory the generation runs in
	Stage   string   `json:"stage"`   // directory whose content replaces Live's before the run ("" = keep)
	Config  string   `json:"config"`  // config file, relative to Live
	Mode    string   `json:"mode"`    // spec | routes | spec-and-routes
	Outputs []string `json:"outputs"` // files to read back, relative to Live (removed before the run)
}

type genseqOut struct {
	Error   string            `json:"error"`
	Panic   string            `json:"panic"`
	Files   map[string]string `json:"files_b64"` // only the outputs that exist after the run
	WallS   float64           `json:"wall_s"`
}

func syncDir(stage, live string) error {
	if err := os.RemoveAll(live); err != nil {
		return err
	}
	return filepath.WalkDir(stage, func(p string, d fs.DirEntry, err error) error {
		if err != nil {
			return err
		}
		rel, _ := filepath.Rel(stage, p)
		dst := filepath.Join(live, rel)
		if d.IsDir() {
			return os.MkdirAll(dst, 0o755)
		}
		data, err := os.ReadFile(p)
		if err != nil {
			return err
		}
		return os.WriteFile(dst, data, 0o644)
	})
}

func genseqOne(j genseqJob) (res genseqOut) {
	t0 := time.Now()
	res.Files = map[string]string{}
	defer func() {
		if r := recover(); r != nil {
			res.Panic = fmt.Sprint(r)
		}
		res.WallS = time.Since(t0).Seconds()
	}()
	if j.Stage != "" {
		if err := syncDir(j.Stage, j.Live); err != nil {
			res.Error = "sync: " + err.Error()
			return res
		}
	}
	if err := os.Chdir(j.Live); err != nil {
		res.Error = "chdir: " + err.Error()
		return res
	}
	for _, o := range j.Outputs {
		os.Remove(o)
	}
	args := arguments.CliArguments{ConfigPath: j.Config}
	var err error
	switch j.Mode {
	case "spec":
		err = cmd.GenerateSpec(args)
	case "routes":
		err = cmd.GenerateRoutes(args)
	default:
		err = cmd.GenerateSpecAndRoutes(args)
	}
	if err != nil {
		res.Error = err.Error()
	}
	for _, o := range j.Outputs {
		if data, e := os.ReadFile(o); e == nil {
			res.Files[o] = base64.StdEncoding.EncodeToString(data)
		}
	}
	return res
}

func init() {
	commands["genseq"] = func(in *bufio.Reader, out *bufio.Writer) error {
		var jobs []genseqJob
		if err := readJSON(in, &jobs); err != nil {
			return err
		}
		log.SetOutput(io.Discard)
		wd, _ := os.Getwd()
		results := make([]genseqOut, 0, len(jobs))
		for _, j := range jobs {
			results = append(results, genseqOne(j))
		}
		if wd != "" {
			os.Chdir(wd)
		}
		return writeJSON(out, results)
	}
}
