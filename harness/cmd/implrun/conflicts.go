package main

import (
	"bufio"

	"github.com/gopher-fleece/gleece/v2/core/metadata"
	"github.com/gopher-fleece/gleece/v2/core/validators/paths"
)

type conflictEntry struct {
	Path string `json:"path"`
	Verb string `json:"verb"`
}

type conflictOut struct {
	A      int    `json:"a"`
	B      int    `json:"b"`
	Reason string `json:"reason"`
	APath  string `json:"a_path"`
	BPath  string `json:"b_path"`
}

func init() {
	commands["conflicts"] = func(in *bufio.Reader, out *bufio.Writer) error {
		var cases [][]conflictEntry
		if err := readJSON(in, &cases); err != nil {
			return err
		}
		results := make([][]conflictOut, 0, len(cases))
		for _, c := range cases {
			entries := make([]paths.RouteEntry, len(c))
			ident := map[*metadata.ReceiverMeta]int{}
			for i, e := range c {
				r := &metadata.ReceiverMeta{}
				ident[r] = i
				entries[i] = paths.RouteEntry{Path: e.Path, Method: e.Verb, Meta: paths.RouteEntryMeta{Receiver: r}}
			}
			confs := paths.FindConflicts(entries)
			res := make([]conflictOut, 0, len(confs))
			for _, cf := range confs {
				res = append(res, conflictOut{
					A: ident[cf.A.Meta.Receiver], B: ident[cf.B.Meta.Receiver], Reason: cf.Reason,
					APath: cf.A.Path, BPath: cf.B.Path,
				})
			}
			results = append(results, res)
		}
		return writeJSON(out, results)
	}
}
