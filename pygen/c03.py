#!/usr/bin/env python3
"""C03 - no controller code runs unless the route's effective security approved it."""
import json
import os
import random
import shutil
import sys

sys.path.insert(0, os.path.dirname(os.path.abspath(__file__)))
from common import *  # noqa
import project as P
import routercheck as R
import servers
import handlermodel
import c12 as C12

PROP = "C03"
# refusal statuses by invocation ordinal: common ones and valid codes net/http has no name for
STATUSES = [401, 440, 403, 498]


def main():
    a, seed = args_for(PROP)
    res = Result(PROP, a.tier, seed)
    rng = random.Random(seed)
    build_coq()
    proof_coverage(PROP, res)
    n = 8 if a.tier == "quick" else 60
    replay_seq = None
    if a.replay and "sequence" in json.load(open(a.replay))["input"]:
        rp = json.load(open(a.replay))
        replay_seq = [{"engine": rp.get("engine", "gin"), "sequence": [(x["edit"], x["project"], x.get("extra")) for x in rp["input"]["sequence"]]}]
        projects = [rp["input"]["sequence"][-1]["project"]]
    elif a.replay:
        projects = [json.load(open(a.replay))["input"]]
    else:
        projects = []
        while len(projects) < n:
            p = P.gen_project(rng, {"security": True, "params": True, "multipkg": True})
            if len(set(c["name"] for c in p["controllers"])) != len(p["controllers"]):
                continue
            projects.append(p)
        # the finite product method x controller x default security (x hidden), see c04.product_cases
        import c04
        # (enforceSecurityOnAllRoutes is C04's subject: with it some of these projects are rightly rejected)
        prod = [q for q in c04.product_cases(rng) if not q["config"]["enforce"]]
        projects += prod[:16] if a.tier == "quick" else prod
    moddir, results = R.generate_routes(PROP, projects)

    # ---- translation obligations: router_ok p regs = true for every generated file
    rows, meta = [], []
    for k, p in enumerate(projects):
        for e in R.ENGINES:
            r = results[k][e]
            if r["exit"] != 0 or not r["hir"] or r["hir"]["parse_error"]:
                meta.append((k, e, "not-generated"))
                continue
            rows.append("(%d, %s,\n   %s)" % (len(meta), P.coq_project(p), R.coq_registrations(r["hir"])))
            meta.append((k, e, "ok"))
    body = ("From Gleece Require Import Base.Bytes Model.Project Model.Spec Model.Security Model.RouterGate.\n"
            "From Coq Require Import String.\n"
            "Definition cases : list (nat * project * list registration) := [\n" + ";\n".join(rows) + "].\n"
            "Definition failing := Eval vm_compute in map (fun c => fst (fst c)) "
            "(filter (fun c => negb (router_ok (snd (fst c)) (snd c))) cases).\nPrint failing.\n")
    out = run_coq_file(PROP, "obligations", body, timeout=900)
    failing = parse_nat_list(out, "failing")
    notgen = [(k, e) for (k, e, s) in meta if s != "ok"]
    for i in failing[:2]:
        k, e, _ = meta[i]
        h = results[k][e]["hir"]
        bad = [r for r in h["registrations"] if not r["gate_ok"] or r["rest_auth_calls"] or
               not (r["rest_first_is_controller"] and r["rest_second_is_init"])]
        res.violation({"kind": "translation-obligation", "obligation": "RouterGate.router_ok (project %d, engine %s)" % (k, e),
                       "input": projects[k], "engine": e, "registrations": h["registrations"],
                       "suspicious_registrations": bad,
                       "note": "the generated handler does not start with the authorization gate for the route's "
                               "effective alternatives, or the registration table differs from the annotated routes"},
                      no_input=not bad)
    for (k, e) in notgen[:2]:
        res.violation({"kind": "correspondence", "obligation": "gleece generate routes failed or file unparsable",
                       "input": projects[k], "engine": e, "cli_output": results[k][e]["out"][-1500:]}, no_input=True)
    served = server_correspondence(res, rng, projects, a.tier, prefer=sorted(set(meta[i][0] for i in failing))[:2])
    # sequences of generations in one process / through spec-and-routes: the same obligation on every artifact
    seqstats = R.seq_router_leg(res, PROP, rng, projects[:(1 if a.tier == "quick" else 5)], a.tier, explicit=replay_seq) \
        if (replay_seq or not a.replay) else {}
    res.coverage["generation_sequences"] = seqstats
    nregs = sum(len(results[k][e]["hir"]["registrations"]) for (k, e, s) in meta if s == "ok")
    shas = sorted(set(results[k][e]["hir"]["authorize_sha"] for (k, e, s) in meta if s == "ok"))
    res.coverage["obligations"] = res.coverage.get("obligations", 0) + len(rows)
    res.coverage["discharged"] = res.coverage.get("discharged", 0) + len(rows) - len(failing)
    res.coverage.update({
        "evaluations": len(rows), "distinct_nontrivial": len(set(json.dumps(projects[k], sort_keys=True) + e
                                                                  for (k, e, s) in meta if s == "ok")),
        "programs": len(rows),
        "rule": "seeded projects x five engines: the routes file generated by the real CLI is translated by "
                "go/ast (implrun hir) and router_ok is evaluated by vm_compute; non-trivial = every translated file",
        "samples": [{"engine": meta[0][1], "registrations": results[meta[0][0]][meta[0][1]]["hir"]["registrations"][:2]}] if rows else [],
        "input_distribution": {"projects": len(projects), "routes_files": len(rows), "registrations": nregs,
                               "authorize_function_fingerprints": shas, "not_generated": notgen},
        "translation_failures": len(failing),
        "compiled_router_runs": served,
    })
    res.coverage["traces_validated_against_impl"] = served.get("requests_x_engines", 0) - served.get("disagreements", 0)
    res.assumptions += ["the translator (harness/cmd/implrun/hir.go) is trusted to report the first two statements of "
                        "each handler and every call to authorize/RequestAuth.* faithfully",
                        "the body of the generated authorize() function is tied to Security.authorize by the "
                        "compiled-router correspondence, not by translation"]
    shutil.rmtree(os.path.join(WORK, PROP), ignore_errors=True)
    sys.exit(res.finish())


def coq_trace(alts, o):
    """Observed outcome of one request on one engine -> Security.event list."""
    ev = []
    for a in o["auth"]:
        v = a["verdict"]
        ref = "None" if v == "approve" else "(Some (mkRefusal %s%%N []))" % v.split(":")[1]
        ev.append("EAuth (mkCheck %s %s) %s" % (coq_bytes(a["scheme"]), coq_list([coq_bytes(x) for x in a["scopes"]]), ref))
    if o["calls"]:
        ev.append("EInit")
        for c in o["calls"]:
            ev.append("EInvoked %s %s" % (coq_bytes(c["controller"]), coq_bytes(c["method"])))
    elif o["status"] == 422:
        ev.append("EInit")
        ev.append("ERejected422 []")
    ev.append("EReplied %d%%N []" % o["status"])
    return coq_list(ev)


def server_correspondence(res, rng, projects, tier, prefer=()):
    """All approve/refuse assignments of every route's checks, each with a valid and a malformed request,
    against the five compiled routers: the observed callback trace must be the model's, and prop_C03 must hold."""
    nserve = 3 if tier == "quick" else 10
    chosen = [C12.clean_project(p) for p in projects[:nserve]]
    # product projects: method-level security under an unsecured controller without default, and the reverse
    def interesting(p):
        return p["controllers"][0]["name"] == "PCtl" and not p["config"]["default_security"] and \
            not p["controllers"][0]["security"] and any(m["security"] for m in p["controllers"][0]["methods"])
    chosen += [C12.clean_project(p) for p in projects if interesting(p)][:2]
    # projects whose routes file failed its translation obligation are served too: the search for a failing request
    chosen += [C12.clean_project(projects[k]) for k in prefer]
    # a controller declared inside a documented `type ( ... )` block, when one was generated
    chosen += [C12.clean_project(p) for p in projects[nserve:] if any(c.get("shape") == "grouped_decl" for c in p["controllers"])][:1]
    h = servers.build_servers(PROP + "_srv", chosen)
    reqs, meta, hrows = [], [], []
    for k, p in enumerate(chosen):
        for c in p["controllers"]:
            for m in c["methods"]:
                sec = C12.effective_security(p, c, m)
                kk = min(len(sec), 4)
                labelled = {lbl: (rq, tags) for (lbl, tags, rq, sc) in C12.route_requests(p, c, m)
                            if lbl == "valid" or lbl.startswith("missing:") or lbl.startswith("ill:")}
                picks = ["valid"] + [l for l in labelled if l != "valid"][:1]
                for mask in range(1 << kk):
                    # every other assignment: the refusing callback returns a NIL context with its refusal
                    refuse = {"#%d" % i: {"status": STATUSES[i], "message": "no %d" % i, "nil_ctx": bool(mask % 2 == 1 and i > 0) or bool(mask == 1)}
                              for i in range(kk) if mask >> i & 1}
                    for lbl in picks:
                        rq, tags = labelled[lbl]
                        for e in R.ENGINES:
                            if not h.usable(k, e):
                                continue
                            r = dict(rq, project=k, engine=e, script={"refuse": refuse} if refuse else {})
                            reqs.append(r)
                            meta.append((k, c["name"], m["name"], e, mask, lbl, sec))
                            hrows.append({"key": [k, c["name"], m["name"], mask, lbl], "project": k, "controller": c["name"],
                                          "method": m["name"], "label": lbl, "tags": tags, "request": rq,
                                          "script": r["script"], "engine": e})
    outs = h.run(reqs) if reqs else []
    rows = []
    for i, ((k, cn, mn, e, mask, lbl, sec), o) in enumerate(zip(meta, outs)):
        alts = coq_list([coq_list(["mkCheck %s %s" % (coq_bytes(x["name"]), coq_list([coq_bytes(y) for y in x["scopes"]]))])
                         for x in sec])
        rows.append("(%d, %s, %d%%N, %s)" % (i, alts, mask, coq_trace(sec, o)))
    bad_prop, bad_model = [], []
    SH = 500
    for lo in range(0, len(rows), SH):
        body = ("From Gleece Require Import Base.Bytes Model.Security.\nFrom Coq Require Import String.\n"
                "(* the scripted callback: refuse invocation number n iff bit n of the mask is set *)\n"
                "Definition cbm (mask : N) (n : N) (c : check) : N * option refusal :=\n"
                "  (N.succ n, if N.testbit mask n then Some (mkRefusal (nth (N.to_nat n) [401; 440; 403; 498]%%N 0%%N) []) else None).\n"
                "Definition auths (tr : list event) := filter is_auth tr.\n"
                "Definition ev_eqb (a b : event) : bool := match a, b with\n"
                "  | EAuth c None, EAuth c' None => check_eqb c c'\n"
                "  | EAuth c (Some r), EAuth c' (Some r') => check_eqb c c' && N.eqb (rf_status r) (rf_status r')\n"
                "  | _, _ => false end.\n"
                "Definition model_auths (alts : list (list check)) (mask : N) : list event :=\n"
                "  auths (run_handler (cbm mask) (mkHandler alts (fun _ => [EInit])) 0%%N).\n"
                "Definition cases : list (nat * list (list check) * N * list event) := [\n%s].\n"
                "Definition propfail := Eval vm_compute in map (fun c => fst (fst (fst c))) "
                "(filter (fun c => let '(_, alts, _, tr) := c in negb (prop_C03 alts tr)) cases).\n"
                "Definition disagree := Eval vm_compute in map (fun c => fst (fst (fst c))) "
                "(filter (fun c => let '(_, alts, mask, tr) := c in negb (list_eqb ev_eqb (model_auths alts mask) (auths tr))) cases).\n"
                "Print propfail.\nPrint disagree.\n") % ";\n".join(rows[lo:lo + SH])
        out = run_coq_file(PROP, "servers_%d" % lo, body, timeout=900)
        bad_prop += parse_nat_list(out, "propfail")
        bad_model += parse_nat_list(out, "disagree")
    for i in bad_prop[:2]:
        k, cn, mn, e, mask, lbl, sec = meta[i]
        res.violation({"kind": "property-fails-on-implementation", "engine": e, "input": C12.minimal_project(chosen[k], {"controller": cn, "method": mn}) if hasattr(C12, "minimal_project") else chosen[k],
                       "controller": cn, "method": mn, "refused_invocations_mask": mask, "request": {kk: reqs[i][kk] for kk in ("method", "path", "query", "headers", "form", "body", "script")},
                       "observed": outs[i], "effective_security": sec,
                       "claim": "prop_C03 on the observed trace: controller code ran only after one alternative was approved in full; "
                                "when all were refused the reply is the last refusal"})
    if bad_model and not bad_prop:
        i = bad_model[0]
        k, cn, mn, e, mask, lbl, sec = meta[i]
        res.violation({"kind": "correspondence", "obligation": "corr:Security.authorize vs generated authorize() (%s)" % e,
                       "input": chosen[k], "controller": cn, "method": mn, "refused_invocations_mask": mask,
                       "observed": outs[i], "effective_security": sec}, no_input=True)
    for r, o in zip(hrows, outs):
        r["raw"] = o
    hstats = handlermodel.handler_leg(res, PROP, chosen, hrows)
    h.cleanup()
    return {"projects": len(chosen), "requests_x_engines": len(reqs), "property_oracle_failures": len(bad_prop),
            "disagreements": len(bad_model), "handler_model": hstats,
            "routes_with_security": len(set((k, cn, mn) for (k, cn, mn, e, mask, lbl, sec) in meta if sec))}


if __name__ == "__main__":
    main()
