#!/usr/bin/env python3
"""C05 - handlers bind each parameter from its declared source and enforce requiredness."""
import copy
import json
import re
import os
import random
import shutil
import sys

sys.path.insert(0, os.path.dirname(os.path.abspath(__file__)))
from common import *  # noqa
import project as P
import routercheck as R
import servers
import handlermodel
import c12 as C12

PROP = "C05"
COQ_ENGINE = {"gin": "Gin", "echo": "Echo", "mux": "Mux", "chi": "Chi", "fiber": "Fiber"}
COQ_PRIM = {"string": "PString", "int": "PInt", "int8": "(PIntN 8)", "int16": "(PIntN 16)", "int32": "(PIntN 32)",
            "int64": "(PIntN 64)", "uint": "PUint", "uint8": "(PUintN 8)", "uint16": "(PUintN 16)", "uint32": "(PUintN 32)",
            "uint64": "(PUintN 64)", "bool": "PBool"}
BOUNDARY = {
    "int": ["0", "-1", "9223372036854775807", "-9223372036854775808", "9223372036854775808", "-9223372036854775809", "+5", "007", "1e3", "0x10", " 1", ""],
    "int8": ["127", "-128", "128", "-129", "0"],
    "int64": ["9223372036854775807", "-9223372036854775808", "9223372036854775808", "12abc"],
    "uint": ["0", "4294967295", "4294967296", "18446744073709551615", "18446744073709551616", "-1", "+1"],
    "uint32": ["4294967295", "4294967296", "-0", "0"],
    "bool": ["true", "false", "1", "0", "t", "F", "TRUE", "True", "yes", "", "tRuE"],
    "string": ["abc", "héllo ✓", "a b", "a+b", "a&b=c", "100%", "semi;colon", "q?x#y", "日本語", "'quoted\"", "tab\tx"],
}


# occurrences sent for a list-valued parameter (each inner list: the values of the successive occurrences of the key)
SLICE_VALUES = {
    "string": [["Lovelace, Ada"], ["a,b,c"], [","], ["x,"], ["a", "b"], ["a,b", "c"], ["a", "b,c", "d"], ["abc"],
               ["a&b=c", "100%"], ["semi;colon"], ["a b", "a+b"], ["héllo ✓, wörld"], ["p|q"], ["a", "a"]],
    "int": [["1,2"], ["1", "2"], ["1,2", "3"], ["3", "1,2"], ["1", "x"], ["-5"], ["7", "7", "7"], ["1 2"], ["1;2"], [","], ["1,"]],
    "bool": [["true,false"], ["true", "false"], ["1", "0", "t"], ["true", "yes"], ["true,"]],
}
JSON_MEDIA_TYPES = ["application/json; charset=utf-8", "application/json;charset=UTF-8", "Application/JSON"]


def coq_tparam(t):
    import re
    decl = re.sub(r"(Param|Response)\d+\w+\.", "", t["decl_type"])
    return "(mkTP %s %s %s %s %s %s %s %s %s)" % (
        coq_bytes(t["var"]), coq_bytes(decl), coq_list([coq_bytes(x) for x in t["sources"]]), coq_list([coq_bytes(x) for x in t["wires"]]),
        coq_bytes(t["conv"]), coq_bytes(t["conv_bits"]), coq_bytes(t["validator"]), coq_bool(t["has_validator"]),
        coq_bool(t["is_body"]))


def coq_handlers(hir):
    rows = []
    for r in hir["registrations"]:
        args = r["invokes"][0]["args"] if r["invokes"] else []
        rows.append("(%s, %s)" % (coq_list([coq_tparam(t) for t in r["params"]]), coq_list([coq_bytes(x) for x in args])))
    return "[" + ";\n    ".join(rows) + "]"


def arg_value(ty, arg):
    """JSON argument recorded by the echoing controller -> Coq value term (or None if not representable)."""
    if arg is None:
        return None
    if ty == "string":
        return "(VStr %s)" % coq_bytes(arg) if isinstance(arg, str) else None
    if ty == "bool":
        return "(VBool %s)" % coq_bool(arg) if isinstance(arg, bool) else None
    if isinstance(arg, bool) or not isinstance(arg, int):
        return None
    if ty.startswith("uint"):
        return "(VUint %d%%N)" % arg if arg >= 0 else None
    return "(VInt (%d)%%Z)" % arg


def main():
    a, seed = args_for(PROP)
    res = Result(PROP, a.tier, seed)
    rng = random.Random(seed)
    build_coq()
    proof_coverage(PROP, res)
    n = 8 if a.tier == "quick" else 50
    if a.replay:
        projects = [json.load(open(a.replay))["input"]]
    else:
        projects = []
        while len(projects) < n:
            p = P.gen_project(rng, {"security": False, "params": True, "multipkg": True, "enums": True, "blank_validators": True})
            if len(set(c["name"] for c in p["controllers"])) != len(p["controllers"]):
                continue
            projects.append(p)
        # a coverage project: every primitive x every location, pointer and non-pointer
        cov = P.gen_project(random.Random(1), {"security": False, "params": False})
        cov["controllers"] = cov["controllers"][:1]
        c = cov["controllers"][0]
        c["methods"] = []
        i = 0
        for ty in ["string", "int", "int8", "int64", "uint", "uint32", "bool"]:
            for loc in ["path", "query", "header", "form"]:
                for ptr in ([False] if loc == "path" else [False, True]):
                    name = "v%d" % i
                    route = "/cov%d" % i + ("/{%s}" % name if loc == "path" else "")
                    c["methods"].append({
                        "name": "Cov%d" % i, "verb": "POST" if loc == "form" else "GET", "route": route, "hidden": False,
                        "deprecated": False, "security": [], "ret": "string", "errtype": "error", "response": None, "errors": [],
                        "descr": "", "file": 0,
                        "params": [{"name": name, "ctx": False, "loc": loc, "alias": None, "type": ty, "pointer": ptr,
                                    "validator": None, "slice": False}]})
                    i += 1
        projects.append(cov)
        # grouped declarations: three names in one field followed by a separately declared parameter of the same type
        grp = copy.deepcopy(cov)
        gc = grp["controllers"][0]
        gc["methods"] = []
        for gi, (ty, loc) in enumerate([("string", "query"), ("int", "query"), ("string", "header"), ("int64", "form")]):
            def gp(n):
                return {"name": n, "ctx": False, "loc": loc, "alias": None, "type": ty, "pointer": False, "validator": None,
                        "slice": False}
            gc["methods"].append({
                "name": "Grp%d" % gi, "verb": "POST" if loc == "form" else "GET", "route": "/grp%d" % gi, "hidden": False,
                "deprecated": False, "security": [], "ret": "string", "errtype": "error", "response": None, "errors": [],
                "descr": "", "file": 0, "params": [gp("first"), gp("middle"), gp("last"), gp("nick")],
                "groups": [[0, 1, 2], [3]]})
        for oi, (loc, val) in enumerate([("query", "oneof=abc xyz"), ("header", "required,oneof=abc def ghi"),
                                         ("path", "oneof=abc xyz"), ("form", "oneof='abc' 'x y'")]):
            gc["methods"].append({
                "name": "One%d" % oi, "verb": "POST" if loc == "form" else "GET",
                "route": "/one%d" % oi + ("/{s}" if loc == "path" else ""), "hidden": False, "deprecated": False, "security": [],
                "ret": "string", "errtype": "error", "response": None, "errors": [], "descr": "", "file": 0,
                "params": [{"name": "s", "ctx": False, "loc": loc, "alias": None, "type": "string", "pointer": False,
                            "validator": val, "slice": False}]})
        for bi, ptr in enumerate((False, True)):
            gc["methods"].append({
                "name": "Bod%d" % bi, "verb": "POST", "route": "/bod%d" % bi, "hidden": False, "deprecated": False, "security": [],
                "ret": "string", "errtype": "error", "response": None, "errors": [], "descr": "", "file": 0,
                "params": [{"name": "n", "ctx": False, "loc": "query", "alias": None, "type": "int", "pointer": False,
                            "validator": None, "slice": False},
                           {"name": "b", "ctx": False, "loc": "body", "alias": None, "type": "Item", "pointer": ptr,
                            "validator": None if ptr else "required", "slice": False}]})
        # list-valued query parameters (the only location where slices are accepted): one and two per method,
        # every element type, with and without a wire name of their own, next to scalars; an optional (*[]T) one
        def sp(n, ty, alias=None, ptr=False, loc="query", sl=True):
            return {"name": n, "ctx": False, "loc": loc, "alias": alias, "type": ty, "pointer": ptr, "validator": None,
                    "slice": sl}
        for si, sps in enumerate([[sp("authors", "string", "author"), sp("years", "int", "year")],
                                  [sp("flags", "bool"), sp("ids", "uint32", "id")],
                                  [sp("notes", "string", "note", ptr=True), sp("big", "int64")],
                                  [sp("tok", "string", "X-Tok", loc="header", sl=False), sp("tags", "string"),
                                   sp("n", "int8", sl=False)],
                                  [sp("small", "int8", "s"), sp("u", "uint")]]):
            gc["methods"].append({
                "name": "Sl%d" % si, "verb": "GET", "route": "/sl%d" % si, "hidden": False, "deprecated": False, "security": [],
                "ret": "string", "errtype": "error", "response": None, "errors": [], "descr": "", "file": 0, "params": sps})
        projects.append(grp)
    moddir, results = R.generate_routes(PROP, projects)

    # ---- (1) translation obligations per generated file
    rows, meta = [], []
    for k, p in enumerate(projects):
        for e in R.ENGINES:
            r = results[k][e]
            if r["exit"] != 0 or not r["hir"] or r["hir"]["parse_error"]:
                meta.append((k, e, "not-generated"))
                continue
            rows.append("(%d, %s, %s,\n   %s)" % (len(meta), COQ_ENGINE[e], P.coq_project(p), coq_handlers(r["hir"])))
            meta.append((k, e, "ok"))
    failing = []
    SH = 12
    for lo in range(0, len(rows), SH):
        body = ("From Gleece Require Import Base.Bytes Model.Project Model.Spec Model.Router Model.RouterParams.\n"
                "From Coq Require Import String.\n"
                "Definition cases : list (nat * engine * project * list (list tparam * list str)) := [\n" + ";\n".join(rows[lo:lo + SH]) + "].\n"
                "Definition failing := Eval vm_compute in map (fun c => fst (fst (fst c))) "
                "(filter (fun c => let '(_, e, p, hs) := c in negb (router_params_ok e p hs)) cases).\nPrint failing.\n")
        out = run_coq_file(PROP, "obligations_%d" % lo, body, timeout=900)
        failing += parse_nat_list(out, "failing")
    for i in failing[:2]:
        k, e, _ = meta[i]
        res.violation({"kind": "translation-obligation", "obligation": "RouterParams.router_params_ok (project %d, engine %s)" % (k, e),
                       "input": projects[k], "engine": e,
                       "translated_parameters": [{"op": r["op_id"], "params": r["params"], "invoke": r["invokes"]}
                                                 for r in results[k][e]["hir"]["registrations"]],
                       "note": "a generated handler does not read a parameter from its declared location / wire name, converts it "
                               "with another function or bit size than its declared type requires, validates it with another tag, "
                               "or passes the arguments in another order"}, no_input=True)

    # ---- (2) compiled routers: values at the boundaries of the declared type, presence / absence
    chosen = [C12.clean_project(projects[-1]), C12.clean_project(projects[-2])] + \
        [C12.clean_project(p) for p in projects[:(1 if a.tier == "quick" else 6)]]
    h = servers.build_servers(PROP + "_srv", chosen)
    reqs, rmeta, hrows = [], [], []
    for k, p in enumerate(chosen):
        for c in p["controllers"]:
            for m in c["methods"]:
                params = m["params"]
                real = [x for x in params if not x["ctx"]]
                tmpl = C12.collapse(c["route"] + m["route"])
                def vv(x):
                    return {"Color": "red", "Shade": "dark", "Tone": "warm", "Level": "1"}.get(x["type"], C12.valid_value(x))
                base = {x["name"]: ([vv(x)] * 2 if x.get("slice") else vv(x)) for x in real if x["loc"] != "body"}
                for pi, prm in enumerate(params):
                    if prm["ctx"] or prm["loc"] == "body" or prm.get("slice") or prm["type"] not in COQ_PRIM:
                        continue
                    vals = list(BOUNDARY.get(prm["type"], []))
                    if prm["loc"] == "path":
                        vals = [v for v in vals if v != "" and "/" not in v and "?" not in v and "#" not in v]
                    if prm["loc"] == "header":
                        vals = [v for v in vals if v == v.strip() and "\t" not in v and all(ord(ch) < 128 for ch in v)]
                    cases = [("value", v) for v in vals] + ([("absent", None)] if prm["loc"] != "path" else [])
                    if prm["loc"] == "form":
                        cases.append(("absent+query-decoy", None))
                    for kind, v in cases:
                        values = dict(base)
                        values[prm["name"]] = v
                        rq = C12.build_request(m["verb"], tmpl, params, values)
                        if kind == "absent+query-decoy":
                            # the field is missing from the form body but a query argument carries its wire name
                            rq["query"] = list(rq["query"]) + [(C12.wire(prm), vv(prm))]
                        for e in R.ENGINES:
                            if not h.usable(k, e):
                                continue
                            reqs.append(dict(rq, project=k, engine=e, script={}))
                            rmeta.append((k, c["name"], m["name"], e, pi, prm, kind, v))
                            hrows.append({"key": [k, c["name"], m["name"], pi, kind, v], "project": k, "controller": c["name"],
                                          "method": m["name"], "label": "valid", "tags": {"values": values}, "request": rq,
                                          "script": {}, "engine": e})
    outs = h.run(reqs) if reqs else []
    # ---- list-valued parameters: ONE element per occurrence of the wire name, each converted on its own; nothing
    # inside an occurrence (comma, blank, semicolon, any URL-reserved character) separates elements
    sreqs, smeta, shrows = [], [], []
    for k, p in enumerate(chosen):
        for c in p["controllers"]:
            for m in c["methods"]:
                params = m["params"]
                real = [x for x in params if not x["ctx"]]
                tmpl = C12.collapse(c["route"] + m["route"])
                def vv(x):
                    return {"Color": "red", "Shade": "dark", "Tone": "warm", "Level": "1"}.get(x["type"], C12.valid_value(x))
                base = {x["name"]: ([vv(x)] * 2 if x.get("slice") else vv(x)) for x in real if x["loc"] != "body"}
                for pi, prm in enumerate(params):
                    if prm["ctx"] or not prm.get("slice") or prm["loc"] != "query" or prm["type"] not in COQ_PRIM:
                        continue
                    for vals in SLICE_VALUES.get(prm["type"], SLICE_VALUES["int"] if prm["type"] != "bool" else []):
                        values = dict(base)
                        values[prm["name"]] = list(vals)
                        rq = C12.build_request(m["verb"], tmpl, params, values)
                        for e in R.ENGINES:
                            if not h.usable(k, e):
                                continue
                            sreqs.append(dict(rq, project=k, engine=e, script={}))
                            smeta.append((k, c["name"], m["name"], e, pi, prm, list(vals)))
                            shrows.append({"key": [k, c["name"], m["name"], pi, "slice", list(vals)], "project": k,
                                           "controller": c["name"], "method": m["name"], "label": "valid",
                                           "tags": {"values": values}, "request": rq, "script": {}, "engine": e})
    souts = h.run(sreqs) if sreqs else []
    srows = []
    for i, ((k, cn, mn, e, pi, prm, vals), o) in enumerate(zip(smeta, souts)):
        invoked = len(o["calls"]) == 1 and o["calls"][0]["method"] == mn
        arg = o["calls"][0]["args"][pi] if invoked and pi < len(o["calls"][0]["args"]) else None
        got = None
        if isinstance(arg, list):
            got = [arg_value(prm["type"], x) for x in arg]
            got = None if any(g is None for g in got) else got
        srows.append("(%d%%nat, %s, %s, %s, %d%%N, %s, %s)" % (
            i, COQ_PRIM[prm["type"]], coq_list([coq_bytes(v) for v in vals]), coq_bool(invoked), o["status"],
            "None" if got is None else "(Some %s)" % coq_list(got),
            coq_bool(bool(prm["validator"]) and prm["validator"] != "required")))
    sbad = []
    for lo in range(0, len(srows), 800):
        body = ("From Gleece Require Import Base.Bytes Model.Bind Model.SliceBind.\nFrom Coq Require Import String.\n"
                "Definition cases : list (nat * prim * list str * bool * N * option (list value) * bool) := [\n" +
                ";\n".join(srows[lo:lo + 800]) + "].\n"
                "Definition bad := Eval vm_compute in map (fun c => let '(i, _, _, _, _, _, _) := c in i) "
                "(filter (fun c => let '(_, ty, raws, invoked, status, got, has_rule) := c in "
                "negb (prop_C05_slice_request ty raws invoked status got has_rule)) cases).\nPrint bad.\n")
        out = run_coq_file(PROP, "slices_%d" % lo, body, timeout=900)
        sbad += parse_nat_list(out, "bad")
    for i in sbad[:2]:
        k, cn, mn, e, pi, prm, vals = smeta[i]
        res.violation({"kind": "property-fails-on-implementation", "engine": e, "input": chosen[k], "controller": cn, "method": mn,
                       "parameter": prm, "sent_occurrences": vals,
                       "request": {kk: sreqs[i][kk] for kk in ("method", "path", "query", "headers", "form", "body")},
                       "observed": souts[i],
                       "claim": "a list-valued query parameter reaches the method as ONE element per occurrence of its wire "
                                "name, in order, each converted to the element type (a comma or any other reserved character "
                                "inside an occurrence is part of that value); an occurrence that does not convert is answered "
                                "422 without invoking the method"})
    # ---- body parameters: the request body must be ONE JSON document of the declared type
    breqs, bmeta, bhrows = [], [], []
    for k, p in enumerate(chosen):
        for c in p["controllers"]:
            for m in c["methods"]:
                params = m["params"]
                if not any((not x["ctx"]) and x["loc"] == "body" for x in params):
                    continue
                tmpl = C12.collapse(c["route"] + m["route"])
                base = {x["name"]: ([C12.valid_value(x)] * 2 if x.get("slice") else
                                    {"Color": "red", "Shade": "dark", "Tone": "warm", "Level": "1"}.get(x["type"], C12.valid_value(x)))
                        for x in params if not x["ctx"] and x["loc"] != "body"}
                for b in ("valid", "missing", "malformed", "trailing", "twodocs", "whitespace", "unicode") + \
                        tuple((bk, ct) for bk in ("valid", "unicode") for ct in JSON_MEDIA_TYPES):
                    # a pair: the same valid document, labelled with the JSON media type the way clients label it
                    # (a parameter after the type, another letter case): the label does not change what is carried
                    ctype = None
                    if isinstance(b, tuple):
                        b, ctype = b
                    rq = C12.build_request(m["verb"], tmpl, params, base, body=b)
                    if ctype:
                        rq["headers"] = list(rq["headers"]) + [("Content-Type", ctype)]
                        b = b + "+" + ctype
                    for e in R.ENGINES:
                        if not h.usable(k, e):
                            continue
                        breqs.append(dict(rq, project=k, engine=e, script={}))
                        bmeta.append((k, c["name"], m["name"], e, b))
                        bhrows.append({"key": [k, c["name"], m["name"], "body", b], "project": k, "controller": c["name"],
                                       "method": m["name"], "label": "body-" + b, "tags": {"values": base}, "request": rq,
                                       "script": {}, "engine": e})
    bouts = h.run(breqs) if breqs else []
    nbody = 0
    for bi_, ((k, cn, mn, e, b), o) in enumerate(zip(bmeta, bouts)):
        if b.split("+")[0] in ("valid", "unicode"):
            meth = [m_ for c_ in chosen[k]["controllers"] if c_["name"] == cn for m_ in c_["methods"] if m_["name"] == mn][0]
            bpi = [j for j, x in enumerate(meth["params"]) if (not x["ctx"]) and x["loc"] == "body"][0]
            sent = json.loads(breqs[bi_]["body"])
            ok = len(o["calls"]) == 1 and o["calls"][0]["method"] == mn and bpi < len(o["calls"][0]["args"]) and \
                handlermodel.canon_json(o["calls"][0]["args"][bpi]) == handlermodel.canon_json(sent) and 200 <= o["status"] < 300
            if not ok:
                nbody += 1
                if nbody <= 2:
                    res.violation({"kind": "property-fails-on-implementation", "engine": e, "input": chosen[k], "controller": cn,
                                   "method": mn, "body_kind": b,
                                   "request": {kk: breqs[bi_][kk] for kk in ("method", "path", "query", "headers", "form", "body")},
                                   "observed": o,
                                   "claim": "a request whose body is one JSON document of the declared type (every other "
                                            "parameter valid) reaches the method with the decoded document, whatever "
                                            "parameters or letter case its JSON media type label carries"})
            continue
        if b in ("malformed", "trailing", "twodocs", "whitespace") and (o["calls"] or o["status"] != 422):
            nbody += 1
            if nbody <= 2:
                res.violation({"kind": "property-fails-on-implementation", "engine": e, "input": chosen[k], "controller": cn,
                               "method": mn, "body_kind": b, "request": {kk: breqs[bmeta.index((k, cn, mn, e, b))][kk]
                                                                          for kk in ("method", "path", "query", "headers", "form", "body")},
                               "observed": o,
                               "claim": "a request body that is not one JSON document of the declared type is answered 422 and the "
                                        "method is not invoked (nothing is bound from a prefix of it)"})
    rows = []
    for i, ((k, cn, mn, e, pi, prm, kind, v), o) in enumerate(zip(rmeta, outs)):
        invoked = len(o["calls"]) == 1 and o["calls"][0]["method"] == mn
        arg = o["calls"][0]["args"][pi] if invoked and pi < len(o["calls"][0]["args"]) else None
        got = arg_value(prm["type"], arg)
        required = (not prm["pointer"]) or prm["loc"] == "path" or (prm["validator"] or "").find("required") >= 0
        rows.append("(%d%%nat, %s, %s, %s, %s, %s, %d%%N, %s, %s)" % (
            i, COQ_PRIM[prm["type"]], coq_option(v, coq_bytes), coq_bool(required), coq_bool(invoked),
            coq_bool(invoked and arg is None), o["status"], "(Some %s)" % got if got else "None",
            coq_bool(bool(prm["validator"]) and prm["validator"] != "required")))
    # a value that is literally one of the options of the parameter's `oneof=` rule must reach the method
    noneof = 0
    for i, ((k, cn, mn, e, pi, prm, kind, v), o) in enumerate(zip(rmeta, outs)):
        val = prm["validator"] or ""
        if kind != "value" or "oneof=" not in val or prm["type"] != "string":
            continue
        opts_ = re.findall(r"'([^']*)'|(\S+)", val.split("oneof=", 1)[1].split(",", 1)[0])
        options = [a or b for a, b in opts_]
        invoked = len(o["calls"]) == 1 and o["calls"][0]["method"] == mn
        if (v in options) != invoked or (v not in options and o["status"] != 422):
            noneof += 1
            if noneof <= 2:
                res.violation({"kind": "property-fails-on-implementation", "engine": e, "input": chosen[k], "controller": cn,
                               "method": mn, "parameter": prm, "sent": v, "declared_options": options,
                               "request": {kk: reqs[i][kk] for kk in ("method", "path", "query", "headers", "form", "body")},
                               "observed": o,
                               "claim": "the handler enforces the validator that was declared: a value among the options of "
                                        "`oneof=` is passed to the method, any other value is answered 422"})
    bad = []
    SH = 800
    for lo in range(0, len(rows), SH):
        body = ("From Gleece Require Import Base.Bytes Model.Bind.\nFrom Coq Require Import String.\n"
                "Definition cases : list (nat * prim * option str * bool * bool * bool * N * option value * bool) := [\n" +
                ";\n".join(rows[lo:lo + SH]) + "].\n"
                "Definition bad := Eval vm_compute in map (fun c => let '(i, _, _, _, _, _, _, _, _) := c in i) "
                "(filter (fun c => let '(_, ty, raw, required, invoked, null_arg, status, got, has_rule) := c in "
                "negb (prop_C05_request ty raw required invoked null_arg status got has_rule)) cases).\nPrint bad.\n")
        out = run_coq_file(PROP, "values_%d" % lo, body, timeout=900)
        bad += parse_nat_list(out, "bad")
    known = known_for(PROP)
    nviol = 0
    for i in bad:
        k, cn, mn, e, pi, prm, kind, v = rmeta[i]
        meth = [m for c in chosen[k]["controllers"] if c["name"] == cn for m in c["methods"] if m["name"] == mn][0]
        hit = None
        for f in known:
            mt = f.get("match", {})
            if mt.get("kind") == "form-query-share-wire-name" and e in mt.get("engines", []) and prm["loc"] == "form" and \
                    any((not q["ctx"]) and q["loc"] == "query" and C12.wire(q) == C12.wire(prm) for q in meth["params"]):
                hit = f
        if hit:
            res.known(hit, "%s.%s: form field %s shares its wire name %s with a query parameter (engine %s)" % (
                cn, mn, prm["name"], C12.wire(prm), e))
            continue
        nviol += 1
        if nviol > 3:
            continue
        res.violation({"kind": "property-fails-on-implementation", "engine": e, "input": chosen[k], "controller": cn, "method": mn,
                       "parameter": prm, "sent": v, "request": {kk: reqs[i][kk] for kk in ("method", "path", "query", "headers", "form", "body")},
                       "observed": outs[i],
                       "claim": "a representable value of the declared type reaches the method unchanged; a missing required "
                                "parameter or a value that does not convert is answered 422 without invoking the method; "
                                "an absent optional (pointer) parameter is passed as nil"})
    # ---- (3) whole requests against the engine-independent handler model (Handler.handle)
    for r_, o_ in zip(hrows, outs):
        r_["raw"] = o_
    for r_, o_ in zip(bhrows, bouts):
        r_["raw"] = o_
    for r_, o_ in zip(shrows, souts):
        r_["raw"] = o_
    hstats = handlermodel.handler_leg(res, PROP, chosen, hrows + bhrows + shrows)
    hstats["slice_requests_x_engines"] = len(sreqs)
    hstats["body_requests_x_engines"] = len(breqs)
    h.cleanup()
    res.coverage["obligations"] = res.coverage.get("obligations", 0) + len(meta)
    res.coverage["discharged"] = res.coverage.get("discharged", 0) + len([1 for m_ in meta if m_[2] == "ok"]) - len(failing)
    dist = {}
    for (k, cn, mn, e, pi, prm, kind, v) in rmeta:
        key = "%s/%s/%s" % (prm["type"], prm["loc"], "ptr" if prm["pointer"] else "val")
        dist[key] = dist.get(key, 0) + 1
    res.coverage.update({
        "evaluations": len(reqs) + len(meta),
        "distinct_nontrivial": len(set((prm["type"], prm["loc"], prm["pointer"], kind, v) for (k, cn, mn, e, pi, prm, kind, v) in rmeta)),
        "programs": len([1 for m_ in meta if m_[2] == "ok"]),
        "rule": "(1) every generated routes file (projects x five engines, incl. a coverage project with every primitive x every "
                "location x pointer-ness) translated by go/ast; router_params_ok evaluated by vm_compute; (2) compiled routers: per "
                "parameter, values at the boundaries of the declared type, unicode and URL-reserved strings, absence; oracle "
                "prop_C05_request (which runs the model conversion Bind.convert on the sent text); distinct = distinct "
                "(type, location, pointer-ness, sent value); list-valued query parameters: occurrences with commas / reserved "
                "characters inside, several occurrences, unconvertible elements, oracle prop_C05_slice_request (one element per "
                "occurrence); bodies: one JSON document (422 otherwise), the valid document under JSON media types with "
                "parameters / other letter case must reach the method; every request also against Handler.handle",
        "samples": [{"parameter": rmeta[0][5], "sent": rmeta[0][7], "engine": rmeta[0][3], "status": outs[0]["status"],
                     "calls": outs[0]["calls"]}] if reqs else [],
        "traces_validated_against_impl": len(reqs) - len(bad),
        "input_distribution": {"projects": len(projects), "routes_files": len(meta), "served_projects": len(chosen),
                               "requests_x_engines": len(reqs), "per_type_location": dist},
        "translation_failures": len(failing), "value_failures": len(bad), "handler_model": hstats,
        "slice_requests_x_engines": len(sreqs), "slice_failures": len(sbad),
        "slice_distinct": len(set((prm["type"], prm["pointer"], tuple(vals)) for (k, cn, mn, e, pi, prm, vals) in smeta)),
        "body_requests_x_engines": len(breqs), "body_failures": nbody,
    })
    res.assumptions += ["floats (strconv.ParseFloat) and go-playground validator tags other than `required` are not modelled: "
                        "parameters carrying another rule are only required not to be invoked with a wrong value",
                        "path unescaping, query and header decoding are framework behaviour (partial)"]
    shutil.rmtree(os.path.join(WORK, PROP), ignore_errors=True)
    sys.exit(res.finish())


if __name__ == "__main__":
    main()
