#!/usr/bin/env python3
"""C11 - the 3.0 and 3.1 documents describe the same API (and the validation-converter part
of C14: no nil dereference on arbitrary validator tag strings).

Layer (a), library level: generated (Go type, validator string) cases go through the real
swagen30.BuildSchemaValidation / swagen31.BuildSchemaValidationV31 (implrun tags); the model
Model/Tags.v is compared with what the converters wrote and with what the real renderers
print, and the property oracle prop_C11_tags is evaluated on the rendered pair.

Layer (b), document level: generated projects (validator strings on parameters, a fixed type
library with enums / embedding / tagged fields) run through the real CLI for 3.0.0 and 3.1.0;
both documents are projected and compared after the dialect translation."""
import copy
import json
import math
import os
import random
import re
import sys

sys.path.insert(0, os.path.dirname(os.path.abspath(__file__)))
from common import *  # noqa
import project as P
import projrun
import specobs

PROP = "C11"

# class ids of Model/Tags.v [classes] (1-8) and of this driver (9-)
CLASS_NAMES = {
    1: "bounds-mix", 2: "enum-after-enum", 3: "enum-yaml-typing", 4: "length-parse",
    5: "zero-upper-length", 6: "bad-number-exclusive", 7: "bad-bool-unique", 8: "oneof-all-invalid",
    9: "nil-deref-panic", 10: "ref-write-through",
}
DOC_CLASSES = ["default-response", "enum-component-typing"]

# ------------------------------------------------------------------ Coq term printing


def coq_num(x):
    """JSON number (python int / float, or {"special": ..}) -> Tags.num term."""
    if isinstance(x, dict):
        return "(NF %s)" % coq_bytes(x.get("special", "?"))
    if isinstance(x, bool):
        return "(NF %s)" % coq_bytes("bool")
    if isinstance(x, int):
        return "(NZ (%d))" % x
    if x in ("NaN", "+Inf", "-Inf"):    # libopenapi prints the special floats as strings
        return "(NF %s)" % coq_bytes(x)
    if not isinstance(x, float):        # a renderer printed something that is not a number
        return "(NF %s)" % coq_bytes("non-number:" + json.dumps(x, sort_keys=True)[:40])
    if math.isfinite(x) and x == math.floor(x):
        return "(NZ (%d))" % int(x)
    return "(NF %s)" % coq_bytes(repr(x))


def coq_onum(x):
    return "None" if x is None else "(Some %s)" % coq_num(x)


def coq_jv(x):
    if isinstance(x, str):
        return "(JStr %s)" % coq_bytes(x)
    if isinstance(x, bool):
        return "(JBool %s)" % coq_bool(x)
    if x is None:
        return "JNull"
    if isinstance(x, (int, float)):
        return "(JNum %s)" % coq_num(x)
    return "(JBad %s)" % coq_bytes(json.dumps(x, sort_keys=True)[:40])


def coq_oN(x):
    return "None" if x is None else "(Some %d%%N)" % x


def coq_oZ(x):
    return "None" if x is None else "(Some (%d))" % x


def raw30_term(r):
    enum = []
    for e in r["enum"]:
        if "s" in e:
            enum.append("(JStr %s)" % coq_bytes(e["s"]))
        elif "i" in e:
            enum.append("(JNum (NZ (%d)))" % e["i"])
        elif "f" in e:
            enum.append("(JNum %s)" % coq_num(e["f"]))
        else:
            enum.append("(JBad %s)" % coq_bytes(str(e)))
    return "(mk30 %s %s %s %s %s %d%%N %s %s %d%%N %s %s %s)" % (
        coq_bytes(r["format"]), coq_onum(r["min"]), coq_bool(r["emin"]), coq_onum(r["max"]), coq_bool(r["emax"]),
        r["minLength"], coq_oN(r["maxLength"]), coq_bytes(r["pattern"]), r["minItems"], coq_oN(r["maxItems"]),
        coq_bool(r["uniqueItems"]), coq_list(enum))


YTAG = {"": "YNone", "!!int": "YInt", "!!float": "YFloat"}


def raw31_term(r):
    for key in ("xmin", "xmax"):
        if isinstance(r[key], dict) and "bool" in r[key]:
            raise RuntimeError("boolean exclusive bound in a 3.1 schema: %r" % (r,))
    enum = "None"
    if r["enum"] is not None:
        enum = "(Some %s)" % coq_list(["(%s, %s)" % (YTAG.get(e["tag"], "YNone"), coq_bytes(e["value"]))
                                       for e in r["enum"]])
    return "(mk31 %s %s %s %s %s %s %s %s %s %s %s %s)" % (
        coq_bytes(r["format"]), coq_onum(r["minimum"]), coq_onum(r["xmin"]), coq_onum(r["maximum"]),
        coq_onum(r["xmax"]), coq_oZ(r["minLength"]), coq_oZ(r["maxLength"]), coq_bytes(r["pattern"]),
        coq_oZ(r["minItems"]), coq_oZ(r["maxItems"]),
        "None" if r["uniqueItems"] is None else "(Some %s)" % coq_bool(r["uniqueItems"]), enum)


CONSTRAINT_KEYS = ["format", "minimum", "maximum", "exclusiveMinimum", "exclusiveMaximum", "minLength", "maxLength",
                   "pattern", "minItems", "maxItems", "uniqueItems", "enum"]


def json30_term(j):
    """constraint keywords of a schema object of the 3.0 document -> constraints30."""
    j = j or {}
    return "(mk30 %s %s %s %s %s %d%%N %s %s %d%%N %s %s %s)" % (
        coq_bytes(j.get("format", "")), coq_onum(j.get("minimum")), coq_bool(bool(j.get("exclusiveMinimum", False))),
        coq_onum(j.get("maximum")), coq_bool(bool(j.get("exclusiveMaximum", False))),
        j.get("minLength", 0), coq_oN(j.get("maxLength")), coq_bytes(j.get("pattern", "")), j.get("minItems", 0),
        coq_oN(j.get("maxItems")), coq_bool(bool(j.get("uniqueItems", False))),
        coq_list([coq_jv(x) for x in (j.get("enum") or [])]))


def json31_term(j):
    """constraint keywords of a schema object of the 3.1 document -> doc31."""
    j = j or {}
    for key in ("exclusiveMinimum", "exclusiveMaximum"):
        if isinstance(j.get(key), bool):
            raise RuntimeError("boolean %s in a 3.1 schema" % key)
    enum = "None" if "enum" not in j or j["enum"] is None else "(Some %s)" % coq_list([coq_jv(x) for x in j["enum"]])
    return "(mkDoc %s %s %s %s %s %s %s %s %s %s %s %s)" % (
        coq_bytes(j.get("format", "")), coq_onum(j.get("minimum")), coq_onum(j.get("exclusiveMinimum")),
        coq_onum(j.get("maximum")), coq_onum(j.get("exclusiveMaximum")), coq_oZ(j.get("minLength")),
        coq_oZ(j.get("maxLength")), coq_bytes(j.get("pattern", "")), coq_oZ(j.get("minItems")),
        coq_oZ(j.get("maxItems")), coq_bool(bool(j.get("uniqueItems", False))), enum)


def raw30_as_json(r):
    """What kin-openapi is expected to print for the raw constraint fields (zero values omitted)."""
    out = {}
    if r["format"]:
        out["format"] = r["format"]
    if r["min"] is not None:
        out["minimum"] = r["min"]
    if r["max"] is not None:
        out["maximum"] = r["max"]
    if r["emin"]:
        out["exclusiveMinimum"] = True
    if r["emax"]:
        out["exclusiveMaximum"] = True
    if r["minLength"]:
        out["minLength"] = r["minLength"]
    if r["maxLength"] is not None:
        out["maxLength"] = r["maxLength"]
    if r["pattern"]:
        out["pattern"] = r["pattern"]
    if r["minItems"]:
        out["minItems"] = r["minItems"]
    if r["maxItems"] is not None:
        out["maxItems"] = r["maxItems"]
    if r["uniqueItems"]:
        out["uniqueItems"] = True
    if r["enum"]:
        out["enum"] = [e.get("s", e.get("i", e.get("f"))) for e in r["enum"]]
    return out


def only_constraints(j):
    return {k: v for k, v in (j or {}).items() if k in CONSTRAINT_KEYS}


KIND = {"string": "KString", "integer": "KInteger", "number": "KNumber", "array": "KArray"}


def side_term(side, which, comp=False):
    """result term of one converter run: which = raw30 | raw31 | json30 | json31."""
    if side["status"] == "panic":
        return "Panic"
    key = ("comp_" if comp else "") + ("raw" if which.startswith("raw") else "json")
    if side["status"] == "fail":
        if which.startswith("json") or side.get(key) is None:
            return "Fail"
    val = side.get(key)
    if comp:
        if val is None:
            return "(Ok None)"
        return "(Ok (Some %s))" % {"raw30": raw30_term, "raw31": raw31_term, "json30": json30_term,
                                   "json31": json31_term}[which](val)
    return "(Ok %s)" % {"raw30": raw30_term, "raw31": raw31_term, "json30": json30_term,
                        "json31": json31_term}[which](val)


def oracle_terms(out):
    pfl = coq_list(["(%s, %s)" % (coq_bytes(k), coq_onum(v)) for k, v in sorted(out["pf"].items())])
    yl = coq_list(["((%s, %s), %s)" % (YTAG[y["tag"]], coq_bytes(y["value"]),
                                       "(JBad %s)" % coq_bytes(y["value"]) if y["bad"] else coq_jv(y["json"]))
                   for y in out["yres"]])
    return pfl, yl


# ------------------------------------------------------------------ layer (a): generator

TYPES_CORE = ["string", "int", "float64", "[]string", "bool"]
TYPES_MORE = ["int64", "uint8", "uint", "float32", "[]int", "map[string]int", "time.Time", "[]byte", "any",
              "interface{}"]
FORMAT_RULES = ["email", "uuid", "ip", "ipv4", "ipv6", "hostname", "date", "datetime"]
NUM_RULES = ["gt", "gte", "lt", "lte", "min", "max"]
LEN_RULES = ["len", "minItems", "maxItems"]
ALL_RULES = FORMAT_RULES + NUM_RULES + LEN_RULES + ["pattern", "uniqueItems", "enum", "oneof"]
OTHER_RULES = ["required", "omitempty", "foo", "", "Email", "minitems", "dive"]

NUM_GOOD = ["0", "1", "5", "10", "255", "3", "100"]
NUM_BOUNDARY = ["-3", "+7", "007", "2.5", "-0.5", "1e3", "1E-2", ".5", "5.", "-0", "9007199254740993",
                "18446744073709551615", "9223372036854775807", "-1", "+5", "00", "1_0"]
NUM_BAD = ["abc", "", "0x10", " 5", "5 ", "1e400", "18446744073709551616", "9223372036854775808", "--1", "1,5",
           "five", "1.2.3", "NaN", "Inf"]
BOOL_GOOD = ["true", "false", "1", "0", "t", "F", "True", "TRUE"]
BOOL_BAD = ["yes", "no", "", "tRUE", "2", "on"]
ENUM_VALS = ["a|b|c", "a", "red|blue", "x|y|x", "A|b", "1|2", "true|false", "null", "a b|c", "1.5|x", "0x10|a", "~|a",
             "2001-01-01", "a||b", "a|", "on|off", "007"]
ENUM_EMPTY = ["", "|a", "|"]
ONEOF_VALS = ["a b c", "a", "red blue", "a a b", "1 2 3", "10 20", "007 +5", "1.5 2.50", "1e3 2", "5", "-3 3",
              "true false", "x\ty", "  a  b ", "010", "1 x 2", "x y", "null", "~", "0o10 1", ".5 5.", "-0",
              "9223372036854775807", "1_0", "NaN 1", "yes no", "2001-01-01"]
ONEOF_EMPTY = ["", " ", "  \t "]
PATTERNS = ["^[a-z]+$", "a=b", "", "x|y", "^\\d{3}$", "[0-9]+", "a b"]


def value_pool(rule):
    """(well-formed, boundary, malformed) value pools for a rule name."""
    if rule in FORMAT_RULES or rule in OTHER_RULES:
        return [""], ["", "x"], ["x", "1"]
    if rule in NUM_RULES or rule in LEN_RULES:
        return NUM_GOOD, NUM_BOUNDARY, NUM_BAD
    if rule == "pattern":
        return PATTERNS[:2] + PATTERNS[3:], PATTERNS, [""]
    if rule == "uniqueItems":
        return BOOL_GOOD[:2], BOOL_GOOD, BOOL_BAD
    if rule == "enum":
        return ENUM_VALS[:4], ENUM_VALS, ENUM_EMPTY
    if rule == "oneof":
        return ONEOF_VALS[:6], ONEOF_VALS, ONEOF_EMPTY
    return [""], [""], [""]


def mk_rule(name, value, rng=None):
    if value == "" and (name in FORMAT_RULES or name in OTHER_RULES) and (rng is None or rng.random() < 0.9):
        return name
    return name + "=" + value


def gen_rule(rng, names=None):
    name = rng.choice(names or ALL_RULES) if rng.random() < 0.93 else rng.choice(OTHER_RULES)
    good, boundary, bad = value_pool(name)
    r = rng.random()
    pool = good if r < 0.5 else boundary if r < 0.8 else bad
    return mk_rule(name, rng.choice(pool), rng)


def gen_tag_cases(rng, n_random):
    cases = []
    # every rule name x core kinds x (well-formed, boundary, malformed, random)
    for name in ALL_RULES + OTHER_RULES[:3]:
        good, boundary, bad = value_pool(name)
        for ty in TYPES_CORE + [rng.choice(TYPES_MORE)]:
            for pool in (good, boundary, bad, good + boundary + bad):
                cases.append({"type": ty, "validator": mk_rule(name, rng.choice(pool))})
    # pairs that interact: bounds on the same side, repeated rules, enum after enum / oneof
    inter = [("gt", "gte"), ("gte", "gt"), ("gt", "min"), ("lt", "lte"), ("lte", "lt"), ("max", "lt"), ("gt", "gt"),
             ("gte", "gte"), ("min", "min"), ("max", "max"), ("len", "min"), ("len", "max"), ("min", "len"),
             ("enum", "enum"), ("oneof", "enum"), ("enum", "oneof"), ("oneof", "oneof"), ("minItems", "minItems"),
             ("maxItems", "maxItems"), ("uniqueItems", "uniqueItems"), ("email", "uuid"), ("pattern", "pattern"),
             ("gt", "lt"), ("gte", "lte"), ("min", "max"), ("minItems", "maxItems")]
    for a, b in inter:
        for ty in ("string", "int", "float64", "[]string"):
            for _ in range(2):
                cases.append({"type": ty, "validator": gen_rule(rng, [a]) + "," + gen_rule(rng, [b])})
    # random multi-rule strings
    for _ in range(n_random):
        ty = rng.choice(TYPES_CORE) if rng.random() < 0.75 else rng.choice(TYPES_MORE)
        k = rng.choice([1, 2, 2, 3, 3, 4, 5])
        if rng.random() < 0.5:
            # rules that apply to the kind
            names = {"string": FORMAT_RULES + ["min", "max", "len", "pattern", "enum", "oneof"],
                     "int": NUM_RULES + ["enum", "oneof"], "float64": NUM_RULES + ["oneof", "enum"],
                     "[]string": ["minItems", "maxItems", "uniqueItems", "oneof", "enum"]}.get(ty)
        else:
            names = None
        rules = [gen_rule(rng, names) for _ in range(k)]
        if rng.random() < 0.2:
            rules.insert(rng.randrange(len(rules) + 1), "required")
        if rng.random() < 0.05:
            rules.append("")
        cases.append({"type": ty, "validator": ",".join(rules)})
    # references to a named type, with and without an existing component
    for _ in range(max(40, n_random // 12)):
        comp = rng.choice([None, {"type": "string", "enum": ["red", "blue", "green"]},
                           {"type": "string", "enum": ["red", "blue", "green"]}])
        rules = [gen_rule(rng, ["oneof", "enum", "min", "email", "required", "gt"]) for _ in range(rng.choice([1, 1, 2]))]
        cases.append({"type": rng.choice(["Color", "Item", "pkg.Thing"]), "validator": ",".join(rules),
                      "component": comp})
    return cases


def py_kind(ty):
    """Mirror of swagtool.ToOpenApiType (only used to choose which oracle answers to ask for;
    the harness reports the real one, which is compared with Tags.kind_of_type)."""
    if ty == "string":
        return "string"
    if ty in ("int", "int8", "int16", "int32", "int64", "uint", "uint8", "uint16", "uint32", "uint64"):
        return "integer"
    if ty in ("float32", "float64"):
        return "number"
    if ty in ("bool", "[]byte", "bytes", "Time", "time.Time"):
        return "other"
    return "array" if ty.startswith("[]") else "other"


SMALL_INT = re.compile(r"^[+-]?[0-9]+$")


def oracle_inputs(ty, v):
    """The strings the model may ask ParseFloat / the YAML resolution about."""
    kind = py_kind(ty)
    pfs, ys = [], []

    def need_pf(x):
        if SMALL_INT.match(x) and abs(int(x)) <= 2 ** 53:
            return
        if x not in pfs:
            pfs.append(x)
    for rule in v.split(","):
        name, _, val = rule.partition("=")
        if name in NUM_RULES and kind in ("integer", "number"):
            need_pf(val)
        if name == "oneof":
            tag = {"integer": "!!int", "number": "!!float"}.get(kind, "")
            for pce in val.split():
                if kind == "number":
                    need_pf(pce)
                if [tag, pce] not in ys:
                    ys.append([tag, pce])
        if name == "enum":
            for pce in val.split("|"):
                if ["", pce] not in ys:
                    ys.append(["", pce])
    return pfs, ys


def is_ref_type(ty):
    prim = ["string", "int", "int8", "int16", "int32", "int64", "uint", "uint8", "uint16", "uint32", "uint64", "bool",
            "float32", "float64", "[]byte", "bytes", "Time", "time.Time", "interface{}", "any", ""]
    return ty not in prim and not ty.startswith("[]") and not ty.startswith("map[")


TAGS_HEADER = """From Gleece Require Import Base.Bytes Model.Tags.
From Coq Require Import String.
Open Scope Z_scope.
Definition FX := true.     (* the model describes the tree with patch fix-F4 *)
Definition FX9 := true.    (* ... and fix-F9 *)
Record pcase := mkP { p_id : nat; p_ty : str; p_kind : kind; p_v : str;
  p_pf : list (str * option num); p_y : list (ynode * jv);
  p_raw30 : result constraints30; p_raw31 : result constraints31;
  p_json30 : result constraints30; p_json31 : result doc31 }.
Record rcase := mkR { r_id : nat; r_ty : str; r_v : str; r_pf : list (str * option num); r_y : list (ynode * jv);
  r_pre30 : option constraints30; r_pre31 : option constraints31;
  r_raw30 : result (option constraints30); r_raw31 : result (option constraints31);
  r_json30 : result (option constraints30); r_json31 : result (option doc31) }.
Definition kind_eqb (a b : kind) : bool :=
  match a, b with KString, KString | KInteger, KInteger | KNumber, KNumber | KArray, KArray | KOther, KOther => true
  | _, _ => false end.
Definition unrenderable (d : doc31) : bool :=
  let badn o := match o with Some (NF t) => orb (str_eqb t (s "NaN")) (orb (str_eqb t (s "+Inf")) (str_eqb t (s "-Inf"))) | _ => false end in
  badn (d_minimum d) || badn (d_xmin d) || badn (d_maximum d) || badn (d_xmax d) ||
  match d_enum d with Some l => existsb (fun x => match x with JBad _ => true | _ => false end) l | None => false end.
Definition p_agree30 c := kind_eqb (kind_of_type (p_ty c)) (p_kind c) && negb (is_ref_type (p_ty c)) &&
  result_eqb c30_eqb (build30 (lookup_pf (p_pf c)) FX (p_kind c) (p_v c) (fresh30 (fresh_fmt (p_ty c)))) (p_raw30 c).
Definition p_agree31 c :=
  result_eqb c31_eqb (build31 (lookup_pf (p_pf c)) FX (p_kind c) (p_v c) (fresh31 (fresh_fmt (p_ty c)))) (p_raw31 c).
Definition p_render c := match p_raw31 c, p_json31 c with
  | Ok r, Ok d => doc31_eqb_exact (render31 (lookup_yres (p_y c)) r) d
  | Ok r, Fail => unrenderable (render31 (lookup_yres (p_y c)) r)
  | Panic, Panic => true
  | _, _ => false end.
Definition p_holds c := prop_C11_tags (p_json30 c) (p_json31 c).
Definition p_classes c := classes (lookup_pf (p_pf c)) (lookup_yres (p_y c)) (p_kind c) (p_v c).
Definition p_legacy_panic c := negb (safe_tags30 (p_kind c) (p_v c)) || negb (safe_tags31 (lookup_pf (p_pf c)) (p_kind c) (p_v c)).
Definition ropt {A} (e : A -> A -> bool) := result_eqb (opt_eqb e).
Definition r_agree30 c := is_ref_type (r_ty c) &&
  ropt c30_eqb (site30 (lookup_pf (r_pf c)) FX FX9 true (kind_of_type (r_ty c)) (r_v c) (r_pre30 c)) (r_raw30 c).
Definition r_agree31 c := ropt c31_eqb (site31 true (kind_of_type (r_ty c)) (r_v c) (r_pre31 c)) (r_raw31 c).
Definition r_render c := match r_raw31 c, r_json31 c with
  | Ok (Some r), Ok (Some d) => doc31_eqb_exact (render31 (lookup_yres (r_y c)) r) d
  | Ok None, Ok None => true | Panic, Panic => true | _, _ => false end.
Definition r_holds c := match r_json30 c, r_json31 c with
  | Ok (Some a), Ok (Some b) => prop_C11_tags (Ok a) (Ok b)
  | Ok None, Ok None => true
  | Panic, _ | _, Panic => false
  | _, _ => true end.
Definition r_writes c := writes_enum (parse_rules (r_v c)).
Definition mask (l : list nat) : nat := fold_left (fun a c => if Nat.eqb (Nat.land (Nat.shiftr a c) 1) 1 then a else a + Nat.pow 2 c)%nat l 0%nat.
Definition bit (b : bool) (k : nat) : nat := if b then Nat.pow 2 k else 0%nat.
(* per case: id, bits (0 agree30, 1 agree31, 2 render31, 3 holds, 4 legacy panic predicted / ref rule writes enum), class mask *)
Definition p_row c := [p_id c; (bit (p_agree30 c) 0 + bit (p_agree31 c) 1 + bit (p_render c) 2 + bit (p_holds c) 3 + bit (p_legacy_panic c) 4)%nat; mask (p_classes c)].
Definition r_row c := [r_id c; (bit (r_agree30 c) 0 + bit (r_agree31 c) 1 + bit (r_render c) 2 + bit (r_holds c) 3 + bit (r_writes c) 4)%nat; 0%nat].
"""


def comp_pre_terms(comp):
    if comp is None:
        return "None", "None"
    e30 = coq_list(["(JStr %s)" % coq_bytes(x) for x in comp["enum"]])
    e31 = "(Some %s)" % coq_list(["(YNone, %s)" % coq_bytes(x) for x in comp["enum"]])
    return ("(Some (mk30 [] None false None false 0%%N None [] 0%%N None false %s))" % e30,
            "(Some (mk31 [] None None None None None None [] None None None %s))" % e31)


def run_tags(cases, tag="tags"):
    """Runs implrun tags + one coqc per shard.  Returns list of per-case dicts:
    impl, agree30, agree31, render, holds, aux, classes (names), render30_ok."""
    payload = []
    for c in cases:
        pfs, ys = oracle_inputs(c["type"], c["validator"])
        for e in (c.get("component") or {}).get("enum", []):
            ys.append(["", e])
        payload.append({"type": c["type"], "validator": c["validator"], "component": c.get("component"),
                        "pf_inputs": pfs, "yres_inputs": ys})
    outs = implrun("tags", payload, timeout=900)
    rows = {}
    SH = max(40, min(150, (len(cases) + 15) // 16))
    shards = []
    for lo in range(0, len(cases), SH):
        plain, refs = [], []
        for i in range(lo, min(lo + SH, len(cases))):
            c, o = cases[i], outs[i]
            pfl, yl = oracle_terms(o)
            if is_ref_type(c["type"]):
                pre30, pre31 = comp_pre_terms(c.get("component"))
                refs.append("mkR %d %s %s %s %s %s %s\n   %s %s\n   %s %s" % (
                    i, coq_bytes(c["type"]), coq_bytes(c["validator"]), pfl, yl, pre30, pre31,
                    side_term(o["r30"], "raw30", True), side_term(o["r31"], "raw31", True),
                    side_term(o["r30"], "json30", True), side_term(o["r31"], "json31", True)))
            else:
                j30 = dict(o["r30"])
                j31 = dict(o["r31"])
                plain.append("mkP %d %s %s %s %s %s\n   %s %s\n   %s %s" % (
                    i, coq_bytes(c["type"]), KIND.get(o["kind"], "KOther"), coq_bytes(c["validator"]), pfl, yl,
                    side_term(o["r30"], "raw30"), side_term(o["r31"], "raw31"),
                    side_term(j30, "json30"), side_term(j31, "json31")))
        body = TAGS_HEADER + \
            "Definition pcases : list pcase :=\n [" + ";\n ".join(plain) + "].\n" + \
            "Definition rcases : list rcase :=\n [" + ";\n ".join(refs) + "].\n" + \
            "Definition rows := Eval vm_compute in (flat_map p_row pcases ++ flat_map r_row rcases).\nPrint rows.\n"
        shards.append(("%s_%d" % (tag, lo), body))
    import concurrent.futures
    with concurrent.futures.ThreadPoolExecutor(max_workers=16) as ex:
        for out in ex.map(lambda nb: run_coq_file(PROP, nb[0], nb[1]), shards):
            flat = parse_nat_list(out, "rows")
            for k in range(0, len(flat), 3):
                rows[flat[k]] = (flat[k + 1], flat[k + 2])
    res = []
    for i, (c, o) in enumerate(zip(cases, outs)):
        bits, cmask = rows[i]
        classes = [CLASS_NAMES[k] for k in range(1, 9) if cmask >> k & 1]
        ref = is_ref_type(c["type"])
        panicked = o["r30"]["status"] == "panic" or o["r31"]["status"] == "panic"
        if panicked:
            # a crash: nil dereference on a malformed value (F4) or through an unresolved reference
            classes.append(CLASS_NAMES[9] if (not ref and bits >> 4 & 1) else
                           CLASS_NAMES[10] if (ref and bits >> 4 & 1) else "unexplained-panic")
        elif ref and (bits >> 4 & 1):
            classes.append(CLASS_NAMES[10])
        r30ok = True
        if not ref and o["r30"]["status"] == "ok":
            r30ok = raw30_as_json(o["r30"]["raw"]) == only_constraints(o["r30"]["json"])
        res.append({"impl": o, "agree30": bool(bits & 1), "agree31": bool(bits >> 1 & 1), "render": bool(bits >> 2 & 1),
                    "holds": bool(bits >> 3 & 1), "classes": classes, "render30_ok": r30ok, "ref": ref,
                    "panicked": panicked})
    return res


def shrink_tag_case(case, pred):
    """Drop rules (then the component) while pred stays true."""
    cur = dict(case)
    rules = cur["validator"].split(",")
    changed = True
    while changed and len(rules) > 1:
        changed = False
        for k in range(len(rules)):
            cand = dict(cur, validator=",".join(rules[:k] + rules[k + 1:]))
            if pred(cand):
                rules = rules[:k] + rules[k + 1:]
                cur = cand
                changed = True
                break
    return cur


def known_index():
    """class name -> finding, from known_findings.json (development: C11_KNOWN_FILE adds proposed entries)."""
    found = list(known_for(PROP))
    extra = os.environ.get("C11_KNOWN_FILE")
    if extra and os.path.exists(extra):
        found += [f for f in json.load(open(extra)) if f.get("property") == PROP]
    idx = {}
    for f in found:
        m = f.get("match") or {}
        for cl in ([m["class"]] if isinstance(m.get("class"), str) else list(m.get("class") or [])):
            idx[cl] = f
    return idx


# ------------------------------------------------------------------ layer (b): projects

STR_ENUM = {"name": "ItemColor", "base": "string", "values": ["red", "blue", "green"]}
INT_ENUM = {"name": "ItemLevel", "base": "int", "values": ["1", "2", "3"]}
FIELD_TYPES = ["string", "string", "int", "float64", "bool", "[]string", "[]int", "ItemColor", "ItemLevel", "*ItemBase",
               "Item", "[]Item", "map[string]int", "int64"]

DIVERGENT = {  # class -> (go type, validator) usable on parameters and fields
    "bounds-mix": [("int", "gt=5,gte=3"), ("float64", "lte=9,lt=7")],
    "enum-after-enum": [("string", "enum=a|b,enum=c"), ("string", "oneof=a b,enum=c")],
    "enum-yaml-typing": [("string", "oneof=1 2 3"), ("string", "enum=true|false"), ("int", "oneof=010 7"),
                         ("int", "enum=1|2")],
    "length-parse": [("string", "min=+5")],
    "zero-upper-length": [("string", "max=0"), ("[]string", "maxItems=0")],
    "bad-number-exclusive": [("int", "gt=5,gt=abc")],
    "bad-bool-unique": [("[]string", "uniqueItems=true,uniqueItems=yes")],
    "oneof-all-invalid": [("int", "oneof=x y")],
}


def safe_validator(rng, ty):
    """A validator string on which the two converters are proved to agree (guard = true for
    oracles that print strings as strings)."""
    rules = []
    if rng.random() < 0.3:
        rules.append("required")
    if ty == "string":
        r = rng.random()
        if r < 0.3:
            rules.append(rng.choice(FORMAT_RULES))
        if r < 0.6:
            a = rng.choice([1, 2, 3])
            rules += rng.choice([["min=%d" % a], ["max=%d" % (a + 5)], ["min=%d" % a, "max=%d" % (a + 7)],
                                 ["len=%d" % (a + 1)]])
        elif r < 0.8:
            rules.append(rng.choice(["oneof=a b c", "oneof=red", "enum=x|y", "oneof=alpha beta"]))
        if rng.random() < 0.2:
            rules.append("pattern=" + rng.choice(["^[a-z]+$", "^x", "[0-9]+"]))
    elif ty in ("int", "int64", "uint32", "int8", "uint"):
        a = rng.choice([0, 1, 5])
        rules += rng.choice([["gte=%d" % a], ["gt=%d" % a], ["lte=%d" % (a + 50)], ["lt=%d" % (a + 9)],
                             ["gte=%d" % a, "lte=%d" % (a + 20)], ["gt=%d" % a, "lt=%d" % (a + 30)],
                             ["min=%d" % a, "max=%d" % (a + 3)], ["oneof=1 2 3"], ["gte=-5"], []])
    elif ty in ("float64", "float32"):
        rules += rng.choice([["gte=0.5"], ["gt=0", "lt=1"], ["lte=2.5"], ["min=1e-3"], ["oneof=1.5 2.5"], []])
    elif ty.startswith("[]") and ty != "[]byte":
        rules += rng.choice([["minItems=1"], ["maxItems=5"], ["minItems=1", "maxItems=9", "uniqueItems=true"],
                             ["uniqueItems=false"], []])
    elif ty == "bool":
        pass
    rng.shuffle(rules)
    return ",".join(rules) or None


def gen_type_library(rng, diverge):
    """Struct ItemFull with generated fields (optionally embedding ItemBase)."""
    fields = []
    names = ["Name", "Age", "Score", "Tags", "Nums", "Color", "Level", "Ref", "Sub", "Subs", "M", "Big", "Flag", "Note"]
    rng.shuffle(names)
    for nm in names[: rng.choice([2, 3, 4, 6])]:
        ty = rng.choice(FIELD_TYPES)
        v = None
        if ty in ("ItemColor", "ItemLevel"):
            v = rng.choice([None, None, "required"])
        elif not ty.startswith("*") and ty not in ("Item", "[]Item", "map[string]int"):
            v = safe_validator(rng, ty)
        fields.append({"name": nm, "type": ty, "json": rng.choice([nm.lower(), nm[0].lower() + nm[1:], None]),
                       "validator": v, "descr": rng.choice(["", "The " + nm.lower()])})
    if diverge:
        cls = rng.choice(sorted(DIVERGENT))
        ty, v = rng.choice(DIVERGENT[cls])
        fields.append({"name": "Odd", "type": ty, "json": "odd", "validator": v, "descr": ""})
    return {"embed": rng.random() < 0.5, "fields": fields, "descr": rng.choice(["", "Full thing"])}


def render_types(lib):
    out = ["package types", ""]
    for en in (STR_ENUM, INT_ENUM):
        out += ["// Enum %s" % en["name"], "type %s %s" % (en["name"], en["base"]), "", "const ("]
        for i, val in enumerate(en["values"]):
            lit = json.dumps(val) if en["base"] == "string" else val
            out.append("\t%sV%d %s = %s" % (en["name"], i, en["name"], lit))
        out += [")", ""]
    out += ["// Base part", "type ItemBase struct {", "\t// The id",
            "\tID string `json:\"id\" validate:\"required,uuid\"`", "}", ""]
    if lib["descr"]:
        out.append("// " + lib["descr"])
    out.append("type ItemFull struct {")
    if lib["embed"]:
        out.append("\tItemBase")
    for f in lib["fields"]:
        if f["descr"]:
            out.append("\t// " + f["descr"])
        tags = []
        if f["json"]:
            tags.append('json:"%s"' % f["json"])
        if f["validator"]:
            tags.append('validate:"%s"' % f["validator"])
        out.append("\t%s %s%s" % (f["name"], f["type"], (" `" + " ".join(tags) + "`") if tags else ""))
    out += ["}", ""]
    return "\n".join(out)


def gen_doc_project(rng, diverge):
    p = P.gen_project(rng, {"security": True, "params": True, "multipkg": True, "enforce": False})
    p["typelib"] = gen_type_library(rng, diverge and rng.random() < 0.4)
    sites = []
    for c in p["controllers"]:
        for m in c["methods"]:
            if rng.random() < 0.3:
                m["ret"] = rng.choice(["ItemFull", "*ItemFull", "[]ItemFull", "[]string", "[]int"])
            for prm in m["params"]:
                if prm["ctx"]:
                    continue
                if prm["loc"] == "body":
                    prm["type"] = rng.choice(["Item", "ItemFull", "[]string", "[]string", "[]int"])
                    if prm["type"].startswith("[]"):
                        # a composite payload that is not a model: the same type under different usage-site constraints
                        prm["pointer"] = False
                        v = safe_validator(rng, prm["type"])
                        prm["validator"] = v
                        sites.append(prm)
                    continue
                if prm["loc"] == "query" and not prm["slice"] and rng.random() < 0.2:
                    prm["type"] = rng.choice(["ItemColor", "ItemLevel"])
                    prm["validator"] = rng.choice([None, "required"])
                    sites.append(prm)
                    continue
                ty = ("[]" if prm["slice"] else "") + prm["type"]
                if rng.random() < 0.7:
                    prm["validator"] = safe_validator(rng, ty)
                sites.append(prm)
    if diverge and sites:
        prm = rng.choice(sites)
        if prm["type"] in ("ItemColor", "ItemLevel"):
            prm["validator"] = "oneof=red blue" if prm["type"] == "ItemColor" else "oneof=1 2"
        else:
            cls = rng.choice(sorted(DIVERGENT))
            cands = [tv for tv in DIVERGENT[cls] if tv[0] == ("[]" if prm["slice"] else "") + prm["type"]]
            if cands:
                prm["validator"] = rng.choice(cands)[1]
    if diverge and rng.random() < 0.3:
        for f in p["typelib"]["fields"]:
            if f["type"] == "ItemColor":
                f["validator"] = "oneof=red blue"
    return p


def run_projects(tag, projects, versions=projrun.VERSIONS):
    """projrun.run_batch with the richer type library written next to types.go."""
    import shutil
    build_cli()
    moddir = os.path.join(WORK, tag, "mod")
    shutil.rmtree(moddir, ignore_errors=True)
    P.make_module(moddir)
    jobs, index = [], []
    for k, p in enumerate(projects):
        root = os.path.join(moddir, "p%d" % k)
        modpath = "verifproj/p%d" % k
        P.render_project(p, root, modpath)
        with open(os.path.join(root, "types", "more.go"), "w") as f:
            f.write(render_types(p["typelib"]))
        for v in versions:
            cfgname = P.render_config(p, root, modpath, openapi=v)
            jobs.append({"dir": root, "args": ["generate", "spec", "-c", cfgname]})
            index.append((k, v))
    results = P.run_cli_many(jobs)
    out = [dict() for _ in projects]
    for (k, v), r in zip(index, results):
        root = os.path.join(moddir, "p%d" % k)
        r = dict(r)
        r["spec"] = P.load_json(os.path.join(root, "dist", "spec-%s.json" % v)) if r["exit"] == 0 else None
        r["ops"] = specobs.doc_obs(r["spec"])
        out[k][v] = r
    return out


SKELETON_KEYS = ["type", "items", "additionalProperties", "properties", "required", "allOf", "oneOf", "anyOf", "title",
                 "description", "deprecated", "nullable", "$ref"]


def norm_schema(sch, loc, pairs):
    """Canonical skeleton of a schema object; the constraint keywords of every object are
    appended to pairs[loc] (compared through prop_C11_tags, not here)."""
    if sch is None:
        return None
    if not isinstance(sch, dict):
        return {"_not_an_object": sch}
    out = {}
    if "$ref" in sch:
        out["ref"] = sch["$ref"].split("/")[-1]
    t = sch.get("type")
    if isinstance(t, list):
        t = sorted(t)
        t = t[0] if len(t) == 1 else t
    if t is not None:
        out["type"] = t
    if "items" in sch:
        out["items"] = norm_schema(sch["items"], loc + ".items", pairs)
    ap = sch.get("additionalProperties")
    if isinstance(ap, dict):
        out["additionalProperties"] = norm_schema(ap, loc + ".additionalProperties", pairs)
    elif ap is not None:
        out["additionalProperties"] = ap
    if sch.get("properties"):
        out["properties"] = {k: norm_schema(v, loc + ".properties." + k, pairs) for k, v in sch["properties"].items()}
    if sch.get("required"):
        out["required"] = sorted(set(sch["required"]))
    for key in ("allOf", "oneOf", "anyOf"):
        if sch.get(key):
            out[key] = [norm_schema(x, "%s.%s[%d]" % (loc, key, i), pairs) for i, x in enumerate(sch[key])]
    if sch.get("title"):
        out["title"] = sch["title"]
    if (sch.get("description") or "").strip():
        out["description"] = sch["description"]
    if sch.get("deprecated"):
        out["deprecated"] = True
    if sch.get("nullable"):
        out["nullable"] = True
    unknown = sorted(k for k in sch if k not in SKELETON_KEYS and k not in CONSTRAINT_KEYS)
    if unknown:
        out["_unknown"] = {k: sch[k] for k in unknown}
    pairs[loc] = only_constraints(sch)
    return out


def project_doc(spec, ops):
    """(skeleton, constraints by location) of one emitted document."""
    pairs = {}
    comps = spec.get("components") or {}
    sk = {"ops": {}, "schemas": {},
          "components_other": {k: v for k, v in comps.items() if k != "schemas" and v},
          "top": {k: v for k, v in spec.items() if k not in ("paths", "components", "openapi") and v}}
    glob_sec = []
    for req in spec.get("security") or []:
        keys = sorted(req.keys())
        glob_sec.append((keys[0], list(req[keys[0]] or [])) if len(keys) == 1 else ("<%d schemes>" % len(keys), []))
    for o in ops:
        key = "%s %s" % (o["verb"], o["path"])
        loc = "op[%s]" % key
        body = None
        if o["body"]:
            b = o["body"]
            if b["kind"] == "json":
                body = {"kind": "json", "required": b["required"],
                        "schema": norm_schema(b["schema"], loc + ".body", pairs)}
            elif b["kind"] == "form":
                body = {"kind": "form", "required": sorted(b["required"]),
                        "props": {k: norm_schema(v, "%s.form.%s" % (loc, k), pairs) for k, v in b["props"]}}
            else:
                body = b
        raw = ((spec.get("paths") or {}).get(o["path"]) or {}).get(o["verb"].lower()) or {}
        sk["ops"][key] = {
            "id": o["id"], "tags": o["tags"], "deprecated": o["deprecated"], "descr": o["descr"],
            "summary": raw.get("summary") or "",
            "param_notes": [{"name": q.get("name"), "description": (q.get("description") or "").strip(),
                             "deprecated": bool(q.get("deprecated", False))} for q in raw.get("parameters") or []],
            "body_description": ((raw.get("requestBody") or {}).get("description") or "").strip(),
            "unknown_keys": sorted(k for k in raw if k not in (
                "summary", "description", "operationId", "tags", "parameters", "requestBody", "responses",
                "security", "deprecated")),
            # an absent operation-level security inherits the document-level requirement
            "security": o["security"] if o["security_present"] else glob_sec,
            "params": [{"name": q["name"], "in": q["in"], "required": q["required"],
                        "schema": norm_schema(q["schema"], "%s.param.%s.%s" % (loc, q["in"], q["name"]), pairs)}
                       for q in o["params"]],
            "body": body,
            "responses": {r["code"]: {"descr": r["descr"], "has_content": r["has_content"],
                                      "schema": norm_schema(r["schema"], "%s.resp.%s" % (loc, r["code"]), pairs)}
                          for r in o["responses"]},
            "default_response": o["default_noise"],
        }
    for name, sch in ((spec.get("components") or {}).get("schemas") or {}).items():
        sk["schemas"][name] = norm_schema(sch, "schemas." + name, pairs)
    return sk, pairs


def tree_diff(a, b, loc, out):
    if isinstance(a, dict) and isinstance(b, dict):
        for k in sorted(set(a) | set(b)):
            if k not in a or k not in b:
                out.append((loc + "." + str(k), a.get(k, "<absent>"), b.get(k, "<absent>")))
            else:
                tree_diff(a[k], b[k], loc + "." + str(k), out)
    elif isinstance(a, list) and isinstance(b, list) and len(a) == len(b):
        for i, (x, y) in enumerate(zip(a, b)):
            tree_diff(x, y, "%s[%d]" % (loc, i), out)
    elif a != b:
        out.append((loc, a, b))


def site_sources(p):
    """location prefix -> (go type, validator string) for every place a validator is applied."""
    src = {}
    for c in p["controllers"]:
        for m in c["methods"]:
            if m["hidden"]:
                continue
            path = re.sub(r"/+", "/", c["route"] + m["route"])
            loc = "op[%s %s]" % (m["verb"], path)
            for prm in m["params"]:
                if prm["ctx"]:
                    continue
                ty = ("[]" if prm.get("slice") else "") + prm["type"]
                wire = prm["alias"] or prm["name"]
                # pipeline: non-pointer / path parameters get ",required" appended (no constraint effect)
                if prm["loc"] == "body":
                    src[loc + ".body"] = (ty, prm["validator"] or "")
                elif prm["loc"] == "form":
                    src["%s.form.%s" % (loc, wire)] = (ty, prm["validator"] or "")
                else:
                    src["%s.param.%s.%s" % (loc, prm["loc"], wire)] = (ty, prm["validator"] or "")
    lib = p["typelib"]
    for f in lib["fields"]:
        jn = f["json"] or f["name"]
        for prefix in ("schemas.ItemFull.properties.", "schemas.ItemFull.allOf[0].properties."):
            src[prefix + jn] = (f["type"].lstrip("*"), f["validator"] or "")
    return src


def ref_usages(p):
    """named type -> validator strings applied at places that reference it."""
    use = {}
    for loc, (ty, v) in site_sources(p).items():
        if is_ref_type(ty):
            use.setdefault(ty, []).append(v)
    return use


WRITES_ENUM = re.compile(r"(^|,)(enum(=|,|$)|oneof=[^,]*[^,\s])")


def classify_doc_diffs(p, diffs, cfail, tag_classes):
    """Attribute every difference to a class.  diffs: skeleton differences (loc, a, b);
    cfail: locations whose constraint pair fails prop_C11_tags; tag_classes: (type, validator)
    -> class names from the library layer.  Returns list of (class or None, loc, detail)."""
    src = site_sources(p)
    uses = ref_usages(p)
    out = []
    for loc, a, b in diffs:
        if loc.endswith(".default_response"):
            out.append(("default-response", loc, {"3.0": a, "3.1": b}))
        else:
            out.append((None, loc, {"3.0": a, "3.1": b}))
    for loc, a, b in cfail:
        cls = None
        m = re.match(r"schemas\.(\w+)$", loc)
        if loc in src:
            cs = tag_classes.get(src[loc], [])
            cls = cs[0] if cs else None
        elif m and m.group(1) in ("ItemColor", "ItemLevel"):
            name = m.group(1)
            written = any(WRITES_ENUM.search(v or "") for v in uses.get(name, []))
            e30 = set(json.dumps(x) for x in (a.get("enum") or []))
            e31 = set(json.dumps(x) for x in (b.get("enum") or []))
            if written and len(e30) != len(e31):
                cls = "ref-write-through"
            elif name == "ItemLevel":
                cls = "enum-component-typing"
        out.append((cls, loc, {"3.0": a, "3.1": b, "source": src.get(loc)}))
    return out


DOC_HEADER = """From Gleece Require Import Base.Bytes Model.Tags.
From Coq Require Import String.
Open Scope Z_scope.
Definition holds (c : nat * constraints30 * doc31) : bool := let '(_, a, b) := c in prop_C11_tags (Ok a) (Ok b).
"""


def eval_constraint_pairs(pairs, tag="doc"):
    """pairs: list of (j30, j31) constraint dicts.  Returns the indices failing prop_C11_tags."""
    todo = [(i, a, b) for i, (a, b) in enumerate(pairs) if a or b]
    if not todo:
        return []
    body = DOC_HEADER + "Definition cases : list (nat * constraints30 * doc31) :=\n [" + \
        ";\n ".join("(%d%%nat, %s, %s)" % (i, json30_term(a), json31_term(b)) for i, a, b in todo) + "].\n" + \
        "Definition failing := Eval vm_compute in map (fun c => fst (fst c)) (filter (fun c => negb (holds c)) cases).\n" \
        "Print failing.\n"
    return parse_nat_list(run_coq_file(PROP, tag, body), "failing")


def compare_docs(p, obs):
    """Relational oracle on the implementation pair.  Returns dict(status, diffs, cfail)."""
    r30, r31 = obs["3.0.0"], obs["3.1.0"]
    crashed = [v for v in projrun.VERSIONS if "panic:" in obs[v]["out"] or "goroutine " in obs[v]["out"]]
    if crashed:
        return {"status": "crash", "versions": crashed}
    if r30["spec"] is None and r31["spec"] is None:
        return {"status": "rejected-both"}
    if r30["spec"] is None or r31["spec"] is None:
        return {"status": "rejected-one", "emitted": "3.0.0" if r30["spec"] is not None else "3.1.0"}
    sk30, c30 = project_doc(r30["spec"], r30["ops"])
    sk31, c31 = project_doc(r31["spec"], r31["ops"])
    diffs = []
    tree_diff(sk30, sk31, "doc", diffs)
    diffs = [(loc[len("doc."):] if loc.startswith("doc.") else loc, a, b) for loc, a, b in diffs]
    locs = sorted(set(c30) | set(c31))
    return {"status": "emitted", "diffs": diffs, "locs": locs, "c30": c30, "c31": c31}


# ------------------------------------------------------------------ driver

# always executed first: the witnesses of the refutation theorems and the replays of F4 / F9
SEED_CASES = [
    {"type": "int", "validator": "gt=5,gte=3"}, {"type": "string", "validator": "enum=a|b,enum=c"},
    {"type": "string", "validator": "oneof=1 2"}, {"type": "int", "validator": "oneof=010"},
    {"type": "string", "validator": "min=+5"}, {"type": "string", "validator": "max=0"},
    {"type": "int", "validator": "gt=5,gt=abc"}, {"type": "[]string", "validator": "uniqueItems=true,uniqueItems=yes"},
    {"type": "int", "validator": "oneof=x"}, {"type": "string", "validator": "min=abc"},
    {"type": "int", "validator": "gt=abc"}, {"type": "[]string", "validator": "uniqueItems=yes"},
    {"type": "string", "validator": "len=x"}, {"type": "[]int", "validator": "minItems=-1"},
    {"type": "Color", "validator": "oneof=red blue", "component": {"type": "string", "enum": ["red", "blue", "green"]}},
    {"type": "Color", "validator": "oneof=a", "component": None},
    {"type": "string", "validator": "required,min=3,max=10,email,pattern=^[a-z]+$,oneof=a b"},
    {"type": "int", "validator": "gte=0,lt=100,oneof=1 2 3"},
]


def case_public(c):
    return {"type": c["type"], "validator": c["validator"], "component": c.get("component")}


def impl_summary(o):
    def side(sd):
        return {k: sd.get(k) for k in ("status", "detail", "is_ref", "json", "comp_json") if sd.get(k) is not None}
    return {"kind": o["kind"], "openapi-3.0": side(o["r30"]), "openapi-3.1": side(o["r31"])}


def rule_names(v):
    return [r.partition("=")[0] for r in v.split(",")]


def tags_layer(res, rng, tier, known, replay_case):
    if replay_case is not None:
        cases = [replay_case]
    else:
        cases = [dict(c) for c in SEED_CASES]
        corpus_file = os.path.join(CORPUS, PROP + ".json")
        if os.path.exists(corpus_file):
            cases += json.load(open(corpus_file))
        cases += gen_tag_cases(rng, 1150 if tier == "quick" else 20000)
    results = run_tags(cases)

    def still_fails(c):
        return not run_tags([c], "shrink")[0]["holds"]

    failing, corr = {}, []
    for i, r in enumerate(results):
        ok_corr = r["agree30"] and r["agree31"] and r["render"] and r["render30_ok"]
        if not r["holds"]:
            failing.setdefault(tuple(r["classes"]), []).append(i)
        elif not ok_corr:
            corr.append(i)
    reported = 0
    # one KNOWN-FINDING line per listed class, with the shortest example that shows only that class if any
    best = {}
    for classes, idxs in failing.items():
        for cl in classes:
            for i in idxs:
                key = (len(classes), len(cases[i]["validator"]), i)
                if cl not in best or key < best[cl]:
                    best[cl] = key
    for classes, idxs in sorted(failing.items(), key=lambda kv: (len(kv[0]), kv[0])):
        example = min(idxs, key=lambda i: len(cases[i]["validator"]))
        if classes and all(cl in known for cl in classes):
            for cl in classes:
                ex = cases[best[cl][2]]
                res.known(known[cl], "%s (validation converters: 3.0 and 3.1 constraints differ; e.g. %s `%s`)" % (
                    cl, ex["type"], ex["validator"]))
            continue
        if reported >= 3:
            continue
        reported += 1
        small = shrink_tag_case(cases[example], still_fails)
        sr = run_tags([small], "shrink")[0]
        unlisted = [cl for cl in sr["classes"] if cl not in known]
        res.violation({
            "kind": "property-fails-on-implementation", "layer": "validation converters (implrun tags)",
            "input": case_public(small), "implementation": impl_summary(sr["impl"]),
            "classes": sr["classes"], "classes_not_in_known_findings": unlisted,
            "model_agrees": {"build30": sr["agree30"], "build31": sr["agree31"], "render31": sr["render"]},
            "claim": "prop_C11_tags: the 3.0 constraint keywords, translated to the 3.1 dialect, equal the 3.1 "
                     "keywords (format, bounds with exclusivity, lengths, items, pattern, uniqueness, enum set), "
                     "and neither converter crashes",
            "cases_in_this_class_this_run": len(idxs)})
    if corr and not res.violations and replay_case is None:
        # the model no longer describes the code: widen the search for an input that fails the oracle
        extra = gen_tag_cases(rng, 3000)
        er = run_tags(extra, "widen")
        bad = [i for i, r in enumerate(er) if not r["holds"] and not (r["classes"] and all(cl in known for cl in r["classes"]))]
        if bad:
            i = min(bad, key=lambda i: len(extra[i]["validator"]))
            small = shrink_tag_case(extra[i], still_fails)
            sr = run_tags([small], "shrink")[0]
            res.violation({"kind": "property-fails-on-implementation", "layer": "validation converters (implrun tags)",
                           "input": case_public(small), "implementation": impl_summary(sr["impl"]),
                           "classes": sr["classes"], "found_by": "widened search after a model/implementation disagreement"})
    if corr and not res.violations:
        i = corr[0]
        r = results[i]
        which = "build30" if not r["agree30"] else "build31" if not r["agree31"] else \
            "render31" if not r["render"] else "kin-openapi rendering of the 3.0 constraint fields"
        res.violation({"kind": "correspondence", "obligation": "corr:Tags.%s" % which, "input": case_public(cases[i]),
                       "implementation": impl_summary(r["impl"]), "raw_30": r["impl"]["r30"].get("raw"),
                       "raw_31": r["impl"]["r31"].get("raw"),
                       "note": "model and implementation disagree on %d case(s); the property oracle holds on the "
                               "implementation pair for all of them" % len(corr)}, no_input=True)
    # evidence
    dist_rule, dist_kind, dist_out, dist_cls = {}, {}, {}, {}
    distinct = set()
    for c, r in zip(cases, results):
        for nm in set(rule_names(c["validator"])):
            dist_rule[nm if nm in ALL_RULES else "(other)"] = dist_rule.get(nm if nm in ALL_RULES else "(other)", 0) + 1
        kd = "reference" if r["ref"] else r["impl"]["kind"]
        dist_kind[kd] = dist_kind.get(kd, 0) + 1
        oc = "%s/%s" % (r["impl"]["r30"]["status"], r["impl"]["r31"]["status"])
        dist_out[oc] = dist_out.get(oc, 0) + 1
        key = ("differs:" if not r["holds"] else "agrees:") + ("+".join(r["classes"]) or "guard-true")
        dist_cls[key] = dist_cls.get(key, 0) + 1
        j30 = only_constraints(r["impl"]["r30"].get("json") or r["impl"]["r30"].get("comp_json"))
        j31 = only_constraints(r["impl"]["r31"].get("json") or r["impl"]["r31"].get("comp_json"))
        if j30 or j31 or r["panicked"]:
            distinct.add(json.dumps(case_public(c), sort_keys=True))
    return {
        "cases": len(cases), "distinct_nontrivial": len(distinct),
        "model_agrees": sum(1 for r in results if r["agree30"] and r["agree31"] and r["render"] and r["render30_ok"]),
        "oracle_failures": sum(len(v) for v in failing.values()),
        "dist": {"by_rule_name": dist_rule, "by_kind": dist_kind, "by_outcome_30/31": dist_out,
                 "by_guard_class": dist_cls},
        "samples": [{"input": case_public(cases[i]), "implementation": impl_summary(results[i]["impl"]),
                     "classes": results[i]["classes"], "oracle_holds": results[i]["holds"]}
                    for i in (len(SEED_CASES) + 5, len(SEED_CASES) + 700) if i < len(cases)],
    }


def general_loc(loc):
    """Location with the project-specific names removed (one KNOWN-FINDING line per kind of place)."""
    loc = re.sub(r"^ops\.[A-Z]+ [^ ]*?\.(default_response|params|body|responses)", r"paths.*.*.\1", loc)
    loc = re.sub(r"^op\[[^\]]*\]\.(param|form|body|resp)(\..*)?$", r"paths.*.*.\1", loc)
    loc = re.sub(r"\.properties\.\w+", ".properties.*", loc)
    return re.sub(r"\[\d+\]", "[..]", loc)


def shrink_doc_project(p, pred):
    import speccheck
    cur = speccheck.shrink_project(p, pred)
    changed = True
    while changed:
        changed = False
        for k in range(len(cur["typelib"]["fields"])):
            cand = copy.deepcopy(cur)
            del cand["typelib"]["fields"][k]
            if pred(cand):
                cur, changed = cand, True
                break
    return cur


def analyse_projects(projects, obs, tagprefix):
    """Per project: list of (class or None, location, detail) + status."""
    cmps = [compare_docs(p, o) for p, o in zip(projects, obs)]
    # constraint pairs of all emitted documents through the Coq oracle at once
    pairs, where = [], []
    for k, c in enumerate(cmps):
        if c["status"] != "emitted":
            continue
        for loc in c["locs"]:
            pairs.append((c["c30"].get(loc), c["c31"].get(loc)))
            where.append((k, loc))
    failing = set(eval_constraint_pairs(pairs, tagprefix + "_pairs"))
    # classes of every (type, validator) applied somewhere, from the library layer
    srcs = sorted(set(tv for p in projects for tv in site_sources(p).values() if tv[1] and not is_ref_type(tv[0])))
    tag_classes = {}
    if srcs:
        rr = run_tags([{"type": t, "validator": v} for t, v in srcs], tagprefix + "_src")
        for tv, r in zip(srcs, rr):
            tag_classes[tv] = r["classes"]
    out = []
    for k, (p, c) in enumerate(zip(projects, cmps)):
        if c["status"] != "emitted":
            out.append((c, []))
            continue
        cfail = [(loc, c["c30"].get(loc) or {}, c["c31"].get(loc) or {})
                 for i, (kk, loc) in enumerate(where) if kk == k and i in failing]
        out.append((c, classify_doc_diffs(p, c["diffs"], cfail, tag_classes)))
    return out, len(pairs), sum(1 for a, b in pairs if a or b)


def doc_layer(res, rng, tier, known, replay_project):
    if replay_project is not None:
        projects = [replay_project]
    else:
        n = 22 if tier == "quick" else 220
        projects = [gen_doc_project(rng, diverge=(i % 3 == 2)) for i in range(n)]
    obs = run_projects(PROP, projects)
    analysed, npairs, npairs_nontrivial = analyse_projects(projects, obs, "doc")

    def problems_of(p):
        o = run_projects(PROP + "_shrink", [p])
        (c, items), = analyse_projects([p], o, "shrink")[0]
        return c, items, o[0]

    status_count, class_count, rejected = {}, {}, []
    reported = 0
    for k, (c, items) in enumerate(analysed):
        status_count[c["status"]] = status_count.get(c["status"], 0) + 1
        if c["status"].startswith("rejected"):
            lines = [l for l in obs[k]["3.0.0"]["out"].splitlines() + obs[k]["3.1.0"]["out"].splitlines()
                     if "[ERROR]" in l or "[FATAL]" in l or "rror:" in l]
            rejected.append({"status": c["status"], "why": [re.sub(r"^[0-9/: ]+", "", l)[:200] for l in lines[-2:]]})
        todo = []
        if c["status"] == "crash":
            todo = [("nil-deref-panic", "cli", {"versions": c["versions"]})]
        elif c["status"] == "rejected-one":
            todo = [("one-sided-rejection", "cli", {"emitted_only": c["emitted"]})]
        else:
            todo = items
        unexplained = []
        for cls, loc, detail in todo:
            class_count[str(cls)] = class_count.get(str(cls), 0) + 1
            if cls is not None and cls in known:
                where = general_loc(loc) if cls in DOC_CLASSES or cls == "ref-write-through" else \
                    "a parameter / property schema built from a validator string of this class"
                res.known(known[cls], "%s (documents: 3.0 and 3.1 differ at %s)" % (cls, where))
            else:
                unexplained.append((cls, loc, detail))
        if unexplained and reported < 2:
            reported += 1
            want = set(cls for cls, _, _ in unexplained)

            def pred(q):
                cc, it, _ = problems_of(q)
                if cc["status"] == "crash":
                    return "nil-deref-panic" in want
                if cc["status"] == "rejected-one":
                    return "one-sided-rejection" in want
                return any(cls in want and (cls is None or cls not in known) for cls, _, _ in it)
            small = shrink_doc_project(projects[k], pred)
            cc, it, o = problems_of(small)
            res.violation({
                "kind": "property-fails-on-implementation", "layer": "documents (real CLI, both versions)",
                "input": small, "status": cc["status"],
                "differences": [{"class": cls, "location": loc, "detail": d} for cls, loc, d in
                                ([("nil-deref-panic", "cli", cc.get("versions"))] if cc["status"] == "crash" else it)][:12],
                "cli": {v: {"exit": o[v]["exit"], "output": o[v]["out"][-1200:]} for v in projrun.VERSIONS},
                "claim": "the 3.0.0 and the 3.1.0 document of one project agree after the dialect translation on "
                         "paths, verbs, operationIds, tags, parameters, request bodies, responses, security and "
                         "component schemas; differences outside the classes listed in known_findings.json"})
    projrun.cleanup(PROP)
    projrun.cleanup(PROP + "_shrink")
    sample = None
    for p, (c, items) in zip(projects, analysed):
        if c["status"] == "emitted":
            sample = {"project_controllers": [cc["name"] for cc in p["controllers"]],
                      "typelib_fields": p["typelib"]["fields"],
                      "constraint_locations": len(c["locs"]),
                      "non_empty_constraint_pairs": {loc: {"3.0": c["c30"].get(loc), "3.1": c["c31"].get(loc)}
                                                     for loc in c["locs"] if c["c30"].get(loc) or c["c31"].get(loc)},
                      "differences": [{"class": cls, "location": loc} for cls, loc, _ in items]}
            break
    nontrivial = sum(1 for (c, _) in analysed if c["status"] == "emitted" and
                     any(c["c30"].get(loc) or c["c31"].get(loc) for loc in c["locs"]))
    return {"projects": len(projects), "cli_runs": 2 * len(projects), "status": status_count,
            "difference_classes": class_count, "rejected_projects": rejected[:6], "constraint_pairs": npairs,
            "constraint_pairs_nontrivial": npairs_nontrivial, "nontrivial_projects": nontrivial, "sample": sample,
            "validators_applied": sum(1 for p in projects for tv in site_sources(p).values() if tv[1]),
            "operations": sum(len(o["3.0.0"]["ops"] or []) for o in obs)}


def main():
    a, seed = args_for(PROP)
    res = Result(PROP, a.tier, seed)
    rng = random.Random(seed)
    build_coq()
    build_harness()
    proof_coverage(PROP, res)
    known = known_index()
    replay_case = replay_project = None
    if a.replay:
        rp = json.load(open(a.replay))
        if isinstance(rp.get("input"), dict) and "controllers" in rp["input"]:
            replay_project = rp["input"]
        else:
            replay_case = rp["input"]
    ta = tags_layer(res, rng, a.tier, known, replay_case) if replay_project is None else None
    db = doc_layer(res, rng, a.tier, known, replay_project) if replay_case is None else None
    res.coverage.update({
        "evaluations": (ta["cases"] if ta else 0) + (db["cli_runs"] if db else 0),
        "distinct_nontrivial": (ta["distinct_nontrivial"] if ta else 0) + (db["nontrivial_projects"] if db else 0),
        "rule": "(a) seeded (Go type, validator string) cases: every rule name both converters know x string / integer "
                "/ number / array / other kinds x well-formed, boundary and malformed values, interacting pairs, "
                "random multi-rule strings with repeats, references with and without an existing component; "
                "non-trivial = some constraint keyword is written or a converter crashes; distinct = distinct cases. "
                "(b) seeded abstract projects (project.gen_project + validator strings on path / query / header / "
                "form parameters, enum-typed parameters, a generated struct with tagged fields, embedding, enums of "
                "string and int base) through the real CLI for 3.0.0 and 3.1.0; non-trivial = both documents "
                "emitted and some schema carries a constraint keyword",
        "samples": ([] if not ta else ta["samples"]) + ([] if not db or not db["sample"] else [db["sample"]]),
        "traces_validated_against_impl": ta["model_agrees"] if ta else 0,
        "property_oracle_failures": ta["oracle_failures"] if ta else 0,
        "input_distribution": {"validation_converters": ta["dist"] if ta else None,
                               "documents": {k: v for k, v in (db or {}).items() if k != "sample"}},
        "known_finding_classes_listed": sorted(known),
    })
    res.assumptions += [
        "strconv.ParseFloat (non-integer literals and integers above 2^53) and libopenapi's printing of enum "
        "yaml nodes are oracles: the harness supplies the library's answers for the strings of each case, the "
        "theorems quantify over all oracles",
        "strings.Fields is modelled for ASCII white space (the generators do not emit U+0085 / U+00A0)",
        "kin-openapi / libopenapi rendering and validation, go/packages discovery: exercised, not modelled "
        "(the rendering of the constraint keywords is compared with the model's render31 / dialect on every case)",
        "operation-level agreement (paths, verbs, ids, tags, parameters, bodies, responses, security) has no "
        "separate theorem: both emitters are described by the one model Spec.spec_ops, tied to each by C01/C04/C06; "
        "here the implementation pair is compared directly",
    ]
    sys.exit(res.finish())


if __name__ == "__main__":
    main()
