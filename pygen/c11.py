#!/usr/bin/env python3
"""C11 - the 3.0 and 3.1 documents describe the same API (and the validation-converter part
of C14: no nil dereference on arbitrary validator tag strings).

Layer (a), library level: generated (Go type, validator string) cases go through the real
swagen30.BuildSchemaValidation / swagen31.BuildSchemaValidationV31 (implrun tags); the model
Model/Tags.v is compared with what the converters wrote and with what the real renderers
print, and the property oracle prop_C11_tags is evaluated on the rendered pair.

Layer (b), document level: generated projects (validator strings on parameters, a fixed type
library with enums / embedding / tagged fields) run through the real CLI for 3.0.0 and 3.1.0;
both documents are projected and compared after the dialect translation."""
import copy
import json
import math
import os
import random
import re
import sys

sys.path.insert(0, os.path.dirname(os.path.abspath(__file__)))
from common import *  # noqa
import project as P
import projrun
import specobs

PROP = "C11"

# class ids of Model/Tags.v [classes] (1-8) and of this driver (9-)
CLASS_NAMES = {
    1: "bounds-mix", 2: "enum-after-enum", 3: "enum-yaml-typing", 4: "length-parse",
    5: "zero-upper-length", 6: "bad-number-exclusive", 7: "bad-bool-unique", 8: "oneof-all-invalid",
    9: "nil-deref-panic", 10: "ref-write-through",
}
DOC_CLASSES = ["default-response", "enum-component-typing"]

# ------------------------------------------------------------------ Coq term printing


def coq_num(x):
    """JSON number (python int / float, or {"special": ..}) -> Tags.num term."""
    if isinstance(x, dict):
        return "(NF %s)" % coq_bytes(x.get("special", "?"))
    if isinstance(x, bool):
        return "(NF %s)" % coq_bytes("bool")
    if isinstance(x, int):
        return "(NZ (%d))" % x
    if x in ("NaN", "+Inf", "-Inf"):    # libopenapi prints the special floats as strings
        return "(NF %s)" % coq_bytes(x)
    if not isinstance(x, float):        # a renderer printed something that is not a number
        return "(NF %s)" % coq_bytes("non-number:" + json.dumps(x, sort_keys=True)[:40])
    if math.isfinite(x) and x == math.floor(x):
        return "(NZ (%d))" % int(x)
    return "(NF %s)" % coq_bytes(repr(x))


def coq_onum(x):
    return "None" if x is None else "(Some %s)" % coq_num(x)


def coq_jv(x):
    if isinstance(x, str):
        return "(JStr %s)" % coq_bytes(x)
    if isinstance(x, bool):
        return "(JBool %s)" % coq_bool(x)
    if x is None:
        return "JNull"
    if isinstance(x, (int, float)):
        return "(JNum %s)" % coq_num(x)
    return "(JBad %s)" % coq_bytes(json.dumps(x, sort_keys=True)[:40])


def coq_oN(x):
    return "None" if x is None else "(Some %d%%N)" % x


def coq_oZ(x):
    return "None" if x is None else "(Some (%d))" % x


def raw30_term(r):
    enum = []
    for e in r["enum"]:
        if "s" in e:
            enum.append("(JStr %s)" % coq_bytes(e["s"]))
        elif "i" in e:
            enum.append("(JNum (NZ (%d)))" % e["i"])
        elif "f" in e:
            enum.append("(JNum %s)" % coq_num(e["f"]))
        else:
            enum.append("(JBad %s)" % coq_bytes(str(e)))
    return "(mk30 %s %s %s %s %s %d%%N %s %s %d%%N %s %s %s)" % (
        coq_bytes(r["format"]), coq_onum(r["min"]), coq_bool(r["emin"]), coq_onum(r["max"]), coq_bool(r["emax"]),
        r["minLength"], coq_oN(r["maxLength"]), coq_bytes(r["pattern"]), r["minItems"], coq_oN(r["maxItems"]),
        coq_bool(r["uniqueItems"]), coq_list(enum))


YTAG = {"": "YNone", "!!int": "YInt", "!!float": "YFloat"}


def raw31_term(r):
    for key in ("xmin", "xmax"):
        if isinstance(r[key], dict) and "bool" in r[key]:
            raise RuntimeError("boolean exclusive bound in a 3.1 schema: %r" % (r,))
    enum = "None"
    if r["enum"] is not None:
        enum = "(Some %s)" % coq_list(["(%s, %s)" % (YTAG.get(e["tag"], "YNone"), coq_bytes(e["value"]))
                                       for e in r["enum"]])
    return "(mk31 %s %s %s %s %s %s %s %s %s %s %s %s)" % (
        coq_bytes(r["format"]), coq_onum(r["minimum"]), coq_onum(r["xmin"]), coq_onum(r["maximum"]),
        coq_onum(r["xmax"]), coq_oZ(r["minLength"]), coq_oZ(r["maxLength"]), coq_bytes(r["pattern"]),
        coq_oZ(r["minItems"]), coq_oZ(r["maxItems"]),
        "None" if r["uniqueItems"] is None else "(Some %s)" % coq_bool(r["uniqueItems"]), enum)


CONSTRAINT_KEYS = ["format", "minimum", "maximum", "exclusiveMinimum", "exclusiveMaximum", "minLength", "maxLength",
                   "pattern", "minItems", "maxItems", "uniqueItems", "enum"]


def json30_term(j):
    """constraint keywords of a schema object of the 3.0 document -> constraints30."""
    j = j or {}
    return "(mk30 %s %s %s %s %s %d%%N %s %s %d%%N %s %s %s)" % (
        coq_bytes(j.get("format", "")), coq_onum(j.get("minimum")), coq_bool(bool(j.get("exclusiveMinimum", False))),
        coq_onum(j.get("maximum")), coq_bool(bool(j.get("exclusiveMaximum", False))),
        j.get("minLength", 0), coq_oN(j.get("maxLength")), coq_bytes(j.get("pattern", "")), j.get("minItems", 0),
        coq_oN(j.get("maxItems")), coq_bool(bool(j.get("uniqueItems", False))),
        coq_list([coq_jv(x) for x in (j.get("enum") or [])]))


def json31_term(j):
    """constraint keywords of a schema object of the 3.1 document -> doc31."""
    j = j or {}
    for key in ("exclusiveMinimum", "exclusiveMaximum"):
        if isinstance(j.get(key), bool):
            raise RuntimeError("boolean %s in a 3.1 schema" % key)
    enum = "None" if "enum" not in j or j["enum"] is None else "(Some %s)" % coq_list([coq_jv(x) for x in j["enum"]])
    return "(mkDoc %s %s %s %s %s %s %s %s %s %s %s %s)" % (
        coq_bytes(j.get("format", "")), coq_onum(j.get("minimum")), coq_onum(j.get("exclusiveMinimum")),
        coq_onum(j.get("maximum")), coq_onum(j.get("exclusiveMaximum")), coq_oZ(j.get("minLength")),
        coq_oZ(j.get("maxLength")), coq_bytes(j.get("pattern", "")), coq_oZ(j.get("minItems")),
        coq_oZ(j.get("maxItems")), coq_bool(bool(j.get("uniqueItems", False))), enum)


def raw30_as_json(r):
    """What kin-openapi is expected to print for the raw constraint fields (zero values omitted)."""
    out = {}
    if r["format"]:
        out["format"] = r["format"]
    if r["min"] is not None:
        out["minimum"] = r["min"]
    if r["max"] is not None:
        out["maximum"] = r["max"]
    if r["emin"]:
        out["exclusiveMinimum"] = True
    if r["emax"]:
        out["exclusiveMaximum"] = True
    if r["minLength"]:
        out["minLength"] = r["minLength"]
    if r["maxLength"] is not None:
        out["maxLength"] = r["maxLength"]
    if r["pattern"]:
        out["pattern"] = r["pattern"]
    if r["minItems"]:
        out["minItems"] = r["minItems"]
    if r["maxItems"] is not None:
        out["maxItems"] = r["maxItems"]
    if r["uniqueItems"]:
        out["uniqueItems"] = True
    if r["enum"]:
        out["enum"] = [e.get("s", e.get("i", e.get("f"))) for e in r["enum"]]
    return out


def only_constraints(j):
    return {k: v for k, v in (j or {}).items() if k in CONSTRAINT_KEYS}


KIND = {"string": "KString", "integer": "KInteger", "number": "KNumber", "array": "KArray"}


def side_term(side, which, comp=False):
    """result term of one converter run: which = raw30 | raw31 | json30 | json31."""
    if side["status"] == "panic":
        return "Panic"
    key = ("comp_" if comp else "") + ("raw" if which.startswith("raw") else "json")
    if side["status"] == "fail":
        if which.startswith("json") or side.get(key) is None:
            return "Fail"
    val = side.get(key)
    if comp:
        if val is None:
            return "(Ok None)"
        return "(Ok (Some %s))" % {"raw30": raw30_term, "raw31": raw31_term, "json30": json30_term,
                                   "json31": json31_term}[which](val)
    return "(Ok %s)" % {"raw30": raw30_term, "raw31": raw31_term, "json30": json30_term,
                        "json31": json31_term}[which](val)


def oracle_terms(out):
    pfl = coq_list(["(%s, %s)" % (coq_bytes(k), coq_onum(v)) for k, v in sorted(out["pf"].items())])
    yl = coq_list(["((%s, %s), %s)" % (YTAG[y["tag"]], coq_bytes(y["value"]),
                                       "(JBad %s)" % coq_bytes(y["value"]) if y["bad"] else coq_jv(y["json"]))
                   for y in out["yres"]])
    return pfl, yl


# ------------------------------------------------------------------ layer (a): generator

TYPES_CORE = ["string", "int", "float64", "[]string", "bool"]
TYPES_MORE = ["int64", "uint8", "uint", "float32", "[]int", "map[string]int", "time.Time", "[]byte", "any",
              "interface{}"]
FORMAT_RULES = ["email", "uuid", "ip", "ipv4", "ipv6", "hostname", "date", "datetime"]
NUM_RULES = ["gt", "gte", "lt", "lte", "min", "max"]
LEN_RULES = ["len", "minItems", "maxItems"]
ALL_RULES = FORMAT_RULES + NUM_RULES + LEN_RULES + ["pattern", "uniqueItems", "enum", "oneof"]
OTHER_RULES = ["required", "omitempty", "foo", "", "Email", "minitems", "dive"]

NUM_GOOD = ["0", "1", "5", "10", "255", "3", "100"]
NUM_BOUNDARY = ["-3", "+7", "007", "2.5", "-0.5", "1e3", "1E-2", ".5", "5.", "-0", "9007199254740993",
                "18446744073709551615", "9223372036854775807", "-1", "+5", "00", "1_0"]
NUM_BAD = ["abc", "", "0x10", " 5", "5 ", "1e400", "18446744073709551616", "9223372036854775808", "--1", "1,5",
           "five", "1.2.3", "NaN", "Inf"]
BOOL_GOOD = ["true", "false", "1", "0", "t", "F", "True", "TRUE"]
BOOL_BAD = ["yes", "no", "", "tRUE", "2", "on"]
ENUM_VALS = ["a|b|c", "a", "red|blue", "x|y|x", "A|b", "1|2", "true|false", "null", "a b|c", "1.5|x", "0x10|a", "~|a",
             "2001-01-01", "a||b", "a|", "on|off", "007"]
ENUM_EMPTY = ["", "|a", "|"]
ONEOF_VALS = ["a b c", "a", "red blue", "a a b", "1 2 3", "10 20", "007 +5", "1.5 2.50", "1e3 2", "5", "-3 3",
              "true false", "x\ty", "  a  b ", "010", "1 x 2", "x y", "null", "~", "0o10 1", ".5 5.", "-0",
              "9223372036854775807", "1_0", "NaN 1", "yes no", "2001-01-01"]
ONEOF_EMPTY = ["", " ", "  \t "]
PATTERNS = ["^[a-z]+$", "a=b", "", "x|y", "^\\d{3}$", "[0-9]+", "a b"]


def value_pool(rule):
    """(well-formed, boundary, malformed) value pools for a rule name."""
    if rule in FORMAT_RULES or rule in OTHER_RULES:
        return [""], ["", "x"], ["x", "1"]
    if rule in NUM_RULES or rule in LEN_RULES:
        return NUM_GOOD, NUM_BOUNDARY, NUM_BAD
    if rule == "pattern":
        return PATTERNS[:2] + PATTERNS[3:], PATTERNS, [""]
    if rule == "uniqueItems":
        return BOOL_GOOD[:2], BOOL_GOOD, BOOL_BAD
    if rule == "enum":
        return ENUM_VALS[:4], ENUM_VALS, ENUM_EMPTY
    if rule == "oneof":
        return ONEOF_VALS[:6], ONEOF_VALS, ONEOF_EMPTY
    return [""], [""], [""]


def mk_rule(name, value, rng=None):
    if value == "" and (name in FORMAT_RULES or name in OTHER_RULES) and (rng is None or rng.random() < 0.9):
        return name
    return name + "=" + value


def gen_rule(rng, names=None):
    name = rng.choice(names or ALL_RULES) if rng.random() < 0.93 else rng.choice(OTHER_RULES)
    good, boundary, bad = value_pool(name)
    r = rng.random()
    pool = good if r < 0.5 else boundary if r < 0.8 else bad
    return mk_rule(name, rng.choice(pool), rng)


def gen_tag_cases(rng, n_random):
    cases = []
    # every rule name x core kinds x (well-formed, boundary, malformed, random)
    for name in ALL_RULES + OTHER_RULES[:3]:
        good, boundary, bad = value_pool(name)
        for ty in TYPES_CORE + [rng.choice(TYPES_MORE)]:
            for pool in (good, boundary, bad, good + boundary + bad):
                cases.append({"type": ty, "validator": mk_rule(name, rng.choice(pool))})
    # pairs that interact: bounds on the same side, repeated rules, enum after enum / oneof
    inter = [("gt", "gte"), ("gte", "gt"), ("gt", "min"), ("lt", "lte"), ("lte", "lt"), ("max", "lt"), ("gt", "gt"),
             ("gte", "gte"), ("min", "min"), ("max", "max"), ("len", "min"), ("len", "max"), ("min", "len"),
             ("enum", "enum"), ("oneof", "enum"), ("enum", "oneof"), ("oneof", "oneof"), ("minItems", "minItems"),
             ("maxItems", "maxItems"), ("uniqueItems", "uniqueItems"), ("email", "uuid"), ("pattern", "pattern"),
             ("gt", "lt"), ("gte", "lte"), ("min", "max"), ("minItems", "maxItems")]
    for a, b in inter:
        for ty in ("string", "int", "float64", "[]string"):
            for _ in range(2):
                cases.append({"type": ty, "validator": gen_rule(rng, [a]) + "," + gen_rule(rng, [b])})
    # random multi-rule strings
    for _ in range(n_random):
        ty = rng.choice(TYPES_CORE) if rng.random() < 0.75 else rng.choice(TYPES_MORE)
        k = rng.choice([1, 2, 2, 3, 3, 4, 5])
        if rng.random() < 0.5:
            # rules that apply to the kind
            names = {"string": FORMAT_RULES + ["min", "max", "len", "pattern", "enum", "oneof"],
                     "int": NUM_RULES + ["enum", "oneof"], "float64": NUM_RULES + ["oneof", "enum"],
                     "[]string": ["minItems", "maxItems", "uniqueItems", "oneof", "enum"]}.get(ty)
        else:
            names = None
        rules = [gen_rule(rng, names) for _ in range(k)]
        if rng.random() < 0.2:
            rules.insert(rng.randrange(len(rules) + 1), "required")
        if rng.random() < 0.05:
            rules.append("")
        cases.append({"type": ty, "validator": ",".join(rules)})
    # references to a named type, with and without an existing component
    for _ in range(max(40, n_random // 12)):
        comp = rng.choice([None, {"type": "string", "enum": ["red", "blue", "green"]},
                           {"type": "string", "enum": ["red", "blue", "green"]}])
        rules = [gen_rule(rng, ["oneof", "enum", "min", "email", "required", "gt"]) for _ in range(rng.choice([1, 1, 2]))]
        cases.append({"type": rng.choice(["Color", "Item", "pkg.Thing"]), "validator": ",".join(rules),
                      "component": comp})
    return cases


def py_kind(ty):
    """Mirror of swagtool.ToOpenApiType (only used to choose which oracle answers to ask for;
    the harness reports the real one, which is compared with Tags.kind_of_type)."""
    if ty == "string":
        return "string"
    if ty in ("int", "int8", "int16", "int32", "int64", "uint", "uint8", "uint16", "uint32", "uint64"):
        return "integer"
    if ty in ("float32", "float64"):
        return "number"
    if ty in ("bool", "[]byte", "bytes", "Time", "time.Time"):
        return "other"
    return "array" if ty.startswith("[]") else "other"


SMALL_INT = re.compile(r"^[+-]?[0-9]+$")


def oracle_inputs(ty, v):
    """The strings the model may ask ParseFloat / the YAML resolution about."""
    kind = py_kind(ty)
    pfs, ys = [], []

    def need_pf(x):
        if SMALL_INT.match(x) and abs(int(x)) <= 2 ** 53:
            return
        if x not in pfs:
            pfs.append(x)
    for rule in v.split(","):
        name, _, val = rule.partition("=")
        if name in NUM_RULES and kind in ("integer", "number"):
            need_pf(val)
        if name == "oneof":
            tag = {"integer": "!!int", "number": "!!float"}.get(kind, "")
            for pce in val.split():
                if kind == "number":
                    need_pf(pce)
                if [tag, pce] not in ys:
                    ys.append([tag, pce])
        if name == "enum":
            for pce in val.split("|"):
                if ["", pce] not in ys:
                    ys.append(["", pce])
    return pfs, ys


def is_ref_type(ty):
    prim = ["string", "int", "int8", "int16", "int32", "int64", "uint", "uint8", "uint16", "uint32", "uint64", "bool",
            "float32", "float64", "[]byte", "bytes", "Time", "time.Time", "interface{}", "any", ""]
    return ty not in prim and not ty.startswith("[]") and not ty.startswith("map[")


TAGS_HEADER = """From Gleece Require Import Base.Bytes Model.Tags.
From Coq Require Import String.
Open Scope Z_scope.
Definition FX := true.     (* the model describes the tree with patch fix-F4 *)
Definition FX9 := true.    (* ... and fix-F9 *)
Record pcase := mkP { p_id : nat; p_ty : str; p_kind : kind; p_v : str;
  p_pf : list (str * option num); p_y : list (ynode * jv);
  p_raw30 : result constraints30; p_raw31 : result constraints31;
  p_json30 : result constraints30; p_json31 : result doc31 }.
Record rcase := mkR { r_id : nat; r_ty : str; r_v : str; r_pf : list (str * option num); r_y : list (ynode * jv);
  r_pre30 : option constraints30; r_pre31 : option constraints31;
  r_raw30 : result (option constraints30); r_raw31 : result (option constraints31);
  r_json30 : result (option constraints30); r_json31 : result (option doc31) }.
Definition kind_eqb (a b : kind) : bool :=
  match a, b with KString, KString | KInteger, KInteger | KNumber, KNumber | KArray, KArray | KOther, KOther => true
  | _, _ => false end.
Definition unrenderable (d : doc31) : bool :=
  let badn o := match o with Some (NF t) => orb (str_eqb t (s "NaN")) (orb (str_eqb t (s "+Inf")) (str_eqb t (s "-Inf"))) | _ => false end in
  badn (d_minimum d) || badn (d_xmin d) || badn (d_maximum d) || badn (d_xmax d) ||
  match d_enum d with Some l => existsb (fun x => match x with JBad _ => true | _ => false end) l | None => false end.
Definition p_agree30 c := kind_eqb (kind_of_type (p_ty c)) (p_kind c) && negb (is_ref_type (p_ty c)) &&
  result_eqb c30_eqb (build30 (lookup_pf (p_pf c)) FX (p_kind c) (p_v c) (fresh30 (fresh_fmt (p_ty c)))) (p_raw30 c).
Definition p_agree31 c :=
  result_eqb c31_eqb (build31 (lookup_pf (p_pf c)) FX (p_kind c) (p_v c) (fresh31 (fresh_fmt (p_ty c)))) (p_raw31 c).
Definition p_render c := match p_raw31 c, p_json31 c with
  | Ok r, Ok d => doc31_eqb_exact (render31 (lookup_yres (p_y c)) r) d
  | Ok r, Fail => unrenderable (render31 (lookup_yres (p_y c)) r)
  | Panic, Panic => true
  | _, _ => false end.
Definition p_holds c := prop_C11_tags (p_json30 c) (p_json31 c).
Definition p_classes c := classes (lookup_pf (p_pf c)) (lookup_yres (p_y c)) (p_kind c) (p_v c).
Definition p_legacy_panic c := negb (safe_tags30 (p_kind c) (p_v c)) || negb (safe_tags31 (lookup_pf (p_pf c)) (p_kind c) (p_v c)).
Definition ropt {A} (e : A -> A -> bool) := result_eqb (opt_eqb e).
Definition r_agree30 c := is_ref_type (r_ty c) &&
  ropt c30_eqb (site30 (lookup_pf (r_pf c)) FX FX9 true (kind_of_type (r_ty c)) (r_v c) (r_pre30 c)) (r_raw30 c).
Definition r_agree31 c := ropt c31_eqb (site31 true (kind_of_type (r_ty c)) (r_v c) (r_pre31 c)) (r_raw31 c).
Definition r_render c := match r_raw31 c, r_json31 c with
  | Ok (Some r), Ok (Some d) => doc31_eqb_exact (render31 (lookup_yres (r_y c)) r) d
  | Ok None, Ok None => true | Panic, Panic => true | _, _ => false end.
Definition r_holds c := match r_json30 c, r_json31 c with
  | Ok (Some a), Ok (Some b) => prop_C11_tags (Ok a) (Ok b)
  | Ok None, Ok None => true
  | Panic, _ | _, Panic => false
  | _, _ => true end.
Definition r_writes c := writes_enum (parse_rules (r_v c)).
Definition mask (l : list nat) : nat := fold_left (fun a c => if Nat.eqb (Nat.land (Nat.shiftr a c) 1) 1 then a else a + Nat.pow 2 c)%nat l 0%nat.
Definition bit (b : bool) (k : nat) : nat := if b then Nat.pow 2 k else 0%nat.
(* per case: id, bits (0 agree30, 1 agree31, 2 render31, 3 holds, 4 legacy panic predicted / ref rule writes enum), class mask *)
Definition p_row c := [p_id c; (bit (p_agree30 c) 0 + bit (p_agree31 c) 1 + bit (p_render c) 2 + bit (p_holds c) 3 + bit (p_legacy_panic c) 4)%nat; mask (p_classes c)].
Definition r_row c := [r_id c; (bit (r_agree30 c) 0 + bit (r_agree31 c) 1 + bit (r_render c) 2 + bit (r_holds c) 3 + bit (r_writes c) 4)%nat; 0%nat].
"""


def comp_pre_terms(comp):
    if comp is None:
        return "None", "None"
    e30 = coq_list(["(JStr %s)" % coq_bytes(x) for x in comp["enum"]])
    e31 = "(Some %s)" % coq_list(["(YNone, %s)" % coq_bytes(x) for x in comp["enum"]])
    return ("(Some (mk30 [] None false None false 0%%N None [] 0%%N None false %s))" % e30,
            "(Some (mk31 [] None None None None None None [] None None None %s))" % e31)


def run_tags(cases, tag="tags"):
    """Runs implrun tags + one coqc per shard.  Returns list of per-case dicts:
    impl, agree30, agree31, render, holds, aux, classes (names), render30_ok."""
    payload = []
    for c in cases:
        pfs, ys = oracle_inputs(c["type"], c["validator"])
        for e in (c.get("component") or {}).get("enum", []):
            ys.append(["", e])
        payload.append({"type": c["type"], "validator": c["validator"], "component": c.get("component"),
                        "pf_inputs": pfs, "yres_inputs": ys})
    outs = implrun("tags", payload, timeout=900)
    rows = {}
    SH = max(40, min(150, (len(cases) + 15) // 16))
    shards = []
    for lo in range(0, len(cases), SH):
        plain, refs = [], []
        for i in range(lo, min(lo + SH, len(cases))):
            c, o = cases[i], outs[i]
            pfl, yl = oracle_terms(o)
            if is_ref_type(c["type"]):
                pre30, pre31 = comp_pre_terms(c.get("component"))
                refs.append("mkR %d %s %s %s %s %s %s\n   %s %s\n   %s %s" % (
                    i, coq_bytes(c["type"]), coq_bytes(c["validator"]), pfl, yl, pre30, pre31,
                    side_term(o["r30"], "raw30", True), side_term(o["r31"], "raw31", True),
                    side_term(o["r30"], "json30", True), side_term(o["r31"], "json31", True)))
            else:
                j30 = dict(o["r30"])
                j31 = dict(o["r31"])
                plain.append("mkP %d %s %s %s %s %s\n   %s %s\n   %s %s" % (
                    i, coq_bytes(c["type"]), KIND.get(o["kind"], "KOther"), coq_bytes(c["validator"]), pfl, yl,
                    side_term(o["r30"], "raw30"), side_term(o["r31"], "raw31"),
                    side_term(j30, "json30"), side_term(j31, "json31")))
        body = TAGS_HEADER + \
            "Definition pcases : list pcase :=\n [" + ";\n ".join(plain) + "].\n" + \
            "Definition rcases : list rcase :=\n [" + ";\n ".join(refs) + "].\n" + \
            "Definition rows := Eval vm_compute in (flat_map p_row pcases ++ flat_map r_row rcases).\nPrint rows.\n"
        shards.append(("%s_%d" % (tag, lo), body))
    import concurrent.futures
    with concurrent.futures.ThreadPoolExecutor(max_workers=16) as ex:
        for out in ex.map(lambda nb: run_coq_file(PROP, nb[0], nb[1]), shards):
            flat = parse_nat_list(out, "rows")
            for k in range(0, len(flat), 3):
                rows[flat[k]] = (flat[k + 1], flat[k + 2])
    res = []
    for i, (c, o) in enumerate(zip(cases, outs)):
        bits, cmask = rows[i]
        classes = [CLASS_NAMES[k] for k in range(1, 9) if cmask >> k & 1]
        ref = is_ref_type(c["type"])
        panicked = o["r30"]["status"] == "panic" or o["r31"]["status"] == "panic"
        if panicked:
            # a crash: nil dereference on a malformed value (F4) or through an unresolved reference
            classes.append(CLASS_NAMES[9] if (not ref and bits >> 4 & 1) else
                           CLASS_NAMES[10] if (ref and bits >> 4 & 1) else "unexplained-panic")
        elif ref and (bits >> 4 & 1):
            classes.append(CLASS_NAMES[10])
        r30ok = True
        if not ref and o["r30"]["status"] == "ok":
            r30ok = raw30_as_json(o["r30"]["raw"]) == only_constraints(o["r30"]["json"])
        res.append({"impl": o, "agree30": bool(bits & 1), "agree31": bool(bits >> 1 & 1), "render": bool(bits >> 2 & 1),
                    "holds": bool(bits >> 3 & 1), "classes": classes, "render30_ok": r30ok, "ref": ref,
                    "panicked": panicked})
    return res


def shrink_tag_case(case, pred):
    """Drop rules (then the component) while pred stays true."""
    cur = dict(case)
    rules = cur["validator"].split(",")
    changed = True
    while changed and len(rules) > 1:
        changed = False
        for k in range(len(rules)):
            cand = dict(cur, validator=",".join(rules[:k] + rules[k + 1:]))
            if pred(cand):
                rules = rules[:k] + rules[k + 1:]
                cur = cand
                changed = True
                break
    return cur


def known_index():
    """class name -> finding, from known_findings.json (development: C11_KNOWN_FILE adds proposed entries)."""
    found = list(known_for(PROP))
    extra = os.environ.get("C11_KNOWN_FILE")
    if extra and os.path.exists(extra):
        found += [f for f in json.load(open(extra)) if f.get("property") == PROP]
    idx = {}
    for f in found:
        m = f.get("match") or {}
        for cl in ([m["class"]] if isinstance(m.get("class"), str) else list(m.get("class") or [])):
            idx[cl] = f
    return idx
