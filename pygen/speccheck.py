"""Shared driver for the properties decided on the emitted OpenAPI paths (C01, C04, C06):
generate abstract projects, render, run the real CLI for both versions, compare the projected
operations with Model/Spec.v (vm_compute) and evaluate the property oracle on the
implementation's own output."""
import copy
import json
import os
import random
import sys

from common import *  # noqa
import project as P
import projrun
import specobs

HEADER = """From Gleece Require Import Base.Bytes Model.Project Model.Spec %(extra_imports)s.
From Coq Require Import String.
Definition eqb_used := %(eqb)s.
Definition agrees (c : nat * project * option (list operation)) : bool :=
  let '(_, p, o) := c in docs_agree eqb_used (spec_ops p) o.
Definition holds (c : nat * project * option (list operation)) : bool :=
  let '(_, p, o) := c in %(oracle)s p o.
Definition cid (c : nat * project * option (list operation)) : nat := fst (fst c).
"""


def evaluate(prop, spec, cases, tag="cases"):
    """cases: list of (project, observed ops or None).  Returns (disagree ids, propfail ids)."""
    disagree, propfail = [], []
    SH = 60
    for lo in range(0, len(cases), SH):
        chunk = range(lo, min(lo + SH, len(cases)))
        body = HEADER % spec + "Definition cases : list (nat * project * option (list operation)) :=\n [" + \
            ";\n ".join("(%d, %s,\n   %s)" % (i, P.coq_project(cases[i][0]), specobs.doc_term(cases[i][1]))
                        for i in chunk) + "].\n" + \
            "Definition disagree := Eval vm_compute in map cid (filter (fun c => negb (agrees c)) cases).\n" \
            "Definition propfail := Eval vm_compute in map cid (filter (fun c => negb (holds c)) cases).\n" \
            "Print disagree.\nPrint propfail.\n"
        out = run_coq_file(prop, "%s_%d" % (tag, lo), body)
        disagree += parse_nat_list(out, "disagree")
        propfail += parse_nat_list(out, "propfail")
    return disagree, propfail


def shrink_project(p, pred):
    """Greedy structural shrinking of an abstract project while pred stays true."""
    cur = copy.deepcopy(p)
    changed = True
    while changed:
        changed = False
        # drop controllers
        for i in range(len(cur["controllers"])):
            if len(cur["controllers"]) <= 1:
                break
            cand = copy.deepcopy(cur)
            del cand["controllers"][i]
            if pred(cand):
                cur, changed = cand, True
                break
        if changed:
            continue
        # drop methods
        for ci, c in enumerate(cur["controllers"]):
            for mi in range(len(c["methods"])):
                cand = copy.deepcopy(cur)
                del cand["controllers"][ci]["methods"][mi]
                if pred(cand):
                    cur, changed = cand, True
                    break
            if changed:
                break
        if changed:
            continue
        # simplify methods
        for ci, c in enumerate(cur["controllers"]):
            for mi, m in enumerate(c["methods"]):
                for field, val in (("security", []), ("errors", []), ("response", None), ("hidden", False),
                                   ("deprecated", False), ("descr", "")):
                    if m[field] != val:
                        cand = copy.deepcopy(cur)
                        cand["controllers"][ci]["methods"][mi][field] = val
                        if pred(cand):
                            cur, changed = cand, True
                            break
                if changed:
                    break
                for pi, prm in enumerate(m["params"]):
                    if prm["loc"] == "path":
                        continue
                    cand = copy.deepcopy(cur)
                    del cand["controllers"][ci]["methods"][mi]["params"][pi]
                    if pred(cand):
                        cur, changed = cand, True
                        break
                if changed:
                    break
            if changed:
                break
    return cur


def seq_spec_leg(res, prop, spec, rng, projects, a, known_matcher=None):
    """Edits of a base project generated back to back in ONE process (seqleg, `spec-and-routes`); the property oracle
    and the model are evaluated on the document of every edit, both the one a fresh process wrote and the one the
    shared process wrote (None when no document exists: the edit was refused)."""
    import seqleg
    stats = {"sequences": 0, "steps": 0, "documents": 0, "byte_differences": 0, "property_oracle_failures": 0}
    rp = json.load(open(a.replay)) if a.replay else None
    if rp and "sequence" not in rp["input"]:
        return stats
    if rp:
        seqs = [(rp.get("openapi", "3.0.0"), [(x["edit"], x["project"], x.get("extra")) for x in rp["input"]["sequence"]])]
    else:
        nb = 1 if a.tier == "quick" else 8
        bases = [p for p in projects if p["controllers"] and p["controllers"][0]["methods"]][-nb:]
        seqs = [(projrun.VERSIONS[i % 2], seqleg.edits(rng, b)) for i, b in enumerate(bases)]
    cases, meta, all_steps = [], [], []
    import concurrent.futures
    with concurrent.futures.ThreadPoolExecutor(max_workers=4) as ex:
        ran = list(ex.map(lambda x: seqleg.run_sequence(prop, "s%d" % x[0], x[1][1], openapi=x[1][0]), enumerate(seqs)))
    for bi, (v, seq) in enumerate(seqs):
        steps = ran[bi]
        all_steps.append((v, steps))
        stats["sequences"] += 1
        stats["steps"] += len(steps)
        stats["byte_differences"] += len(seqleg.differences(steps, "spec"))
        for si, st in enumerate(steps):
            for which in ("fresh", "inproc"):
                data = st[which]["spec"]
                doc = None
                if data is not None:
                    try:
                        doc = json.loads(data)
                    except ValueError:
                        doc = None
                    stats["documents"] += 1
                cases.append((st["project"], specobs.doc_obs(doc)))
                meta.append((bi, si, which))
    disagree, propfail = evaluate(prop, spec, cases, "seq")
    reported = 0
    for i in propfail:
        bi, si, which = meta[i]
        v, steps = all_steps[bi]
        st = steps[si]
        if known_matcher:
            pseudo = {"ops": cases[i][1], "exit": st["fresh"]["exit"], "out": st["fresh"]["out"], "spec": None}
            hit = known_matcher(st["project"], pseudo)
            if hit:
                res.known(hit[0], hit[1])
                continue
        stats["property_oracle_failures"] += 1
        if reported >= 2:
            continue
        reported += 1
        res.violation({"kind": "property-fails-on-implementation", "openapi": v,
                       "leg": "sequence of generations (%s)" % ("fresh process, generate spec-and-routes" if which == "fresh"
                                                                else "one process, library entry point cmd.GenerateSpecAndRoutes"),
                       "input": {"sequence": seqleg.describe_sequence(steps, si)}, "failing_step": si, "edit": st["label"],
                       "implementation_operations": cases[i][1],
                       "generation_error": st["inproc"]["error"] if which == "inproc" else st["fresh"]["out"][-400:],
                       "claim": spec["oracle"] + " evaluated on the document written for the project on disk is false "
                                "(whatever was generated earlier in the same process)"})
    return stats


def run(prop, spec, gen_opts, n_quick, n_thorough, rule, assumptions, nontrivial, extra_cases=None,
        known_matcher=None, post=None):
    a, seed = args_for(prop)
    res = Result(prop, a.tier, seed)
    rng = random.Random(seed)
    build_coq()
    proof_coverage(prop, res)
    projects = []
    corpus_file = os.path.join(CORPUS, prop + ".json")
    if a.replay:
        rin = json.load(open(a.replay))["input"]
        projects = [rin["sequence"][-1]["project"]] if "sequence" in rin else [rin]
    else:
        if os.path.exists(corpus_file):
            projects += json.load(open(corpus_file))
        if extra_cases:
            projects += extra_cases(rng)
        n = n_quick if a.tier == "quick" else n_thorough
        for _ in range(n):
            projects.append(P.gen_project(rng, gen_opts))
    obs = projrun.run_batch(prop, projects)
    cases, meta = [], []
    for k, p in enumerate(projects):
        for v in projrun.VERSIONS:
            cases.append((p, obs[k][v]["ops"]))
            meta.append((k, v))
    disagree, propfail = evaluate(prop, spec, cases)

    def observe_one(p, v):
        o = projrun.run_batch(prop + "_shrink", [p], versions=[v])
        return o[0][v]

    def mk_pred(v, which):
        def pred(p):
            o = observe_one(p, v)
            d, f = evaluate(prop, spec, [(p, o["ops"])], "shrink")
            return bool(f if which == "prop" else d)
        return pred

    reported = 0
    for i in propfail:
        k, v = meta[i]
        if known_matcher:
            hit = known_matcher(projects[k], obs[k][v])
            if hit:
                res.known(hit[0], hit[1])
                continue
        if reported >= 2:
            continue
        reported += 1
        small = shrink_project(projects[k], mk_pred(v, "prop"))
        o = observe_one(small, v)
        res.violation({"kind": "property-fails-on-implementation", "openapi": v, "input": small,
                       "implementation_operations": o["ops"], "cli_exit": o["exit"], "cli_output": o["out"][-1500:],
                       "claim": spec["oracle"] + " evaluated on the emitted document is false"})
    unexplained = []
    for i in disagree:
        if i in propfail:
            continue
        k, v = meta[i]
        hit = known_matcher(projects[k], obs[k][v]) if known_matcher else None
        if hit:
            res.known(hit[0], hit[1])
        else:
            unexplained.append(i)
    if unexplained and not res.violations:
        i = unexplained[0]
        k, v = meta[i]
        small = shrink_project(projects[k], mk_pred(v, "agree"))
        o = observe_one(small, v)
        res.violation({"kind": "correspondence", "obligation": "corr:Spec.spec_ops (%s projection)" % spec["eqb"],
                       "openapi": v, "input": small, "implementation_operations": o["ops"],
                       "cli_exit": o["exit"], "cli_output": o["out"][-1500:],
                       "note": "model and implementation disagree; the property oracle holds on all %d observed "
                               "documents of this run" % len(cases)}, no_input=True)
    if post:
        post(res, projects, obs)
    seqstats = seq_spec_leg(res, prop, spec, rng, projects, a, known_matcher)
    distinct = set()
    for (p, ops) in cases:
        if nontrivial(p, ops):
            distinct.add(json.dumps(p, sort_keys=True))
    nops = sum(len(o or []) for _, o in cases)
    res.coverage.update({
        "evaluations": len(cases), "distinct_nontrivial": len(distinct), "rule": rule,
        "samples": [{"openapi": meta[i][1], "project": cases[i][0], "observed_operations": cases[i][1]}
                    for i in range(min(2, len(cases)))],
        "traces_validated_against_impl": len(cases) - len(disagree),
        "disagreements": len(disagree), "property_oracle_failures": len(propfail),
        "generation_sequences": seqstats,
        "input_distribution": {
            "projects": len(projects), "cli_runs": len(cases),
            "controllers": sum(len(p["controllers"]) for p in projects),
            "methods": sum(len(c["methods"]) for p in projects for c in p["controllers"]),
            "hidden_methods": sum(1 for p in projects for c in p["controllers"] for m in c["methods"] if m["hidden"]),
            "observed_operations": nops,
            "spec_not_emitted": sum(1 for _, o in cases if o is None),
        },
    })
    res.assumptions += assumptions
    projrun.cleanup(prop)
    projrun.cleanup(prop + "_shrink")
    return res
