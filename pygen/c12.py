#!/usr/bin/env python3
"""C12 - the five generated routers are behaviourally interchangeable.

The relational oracle is the implementation itself: every request derived from an annotated
route is executed against the five compiled routers (servers.py); the canonicalised outcomes
(status, controller-call records, authorization-callback records, JSON body) must be equal.
The equality is decided twice: here (to classify and report) and by `prop_C12` under
vm_compute on the observed outcomes (gen/C12/cases_*.v).

Canonicalisation (documented, minimal):
  * bodies that parse as JSON are compared as parsed values (key order, trailing newline and
    HTML-escaping of the encoders do not matter); they are printed with sorted keys;
  * a response produced by the framework itself because no gleece handler ran (status
    301/307/308/404/405, no authorization record, no controller call) has its body replaced
    by "<framework>" - the text of a framework's own 404 page is not gleece's;
  * a recovered handler panic is compared by its message only (what a server does after a
    panic is the embedding application's recovery middleware, not the router's);
  * response headers are not part of the property (recorded in the replay only).
Nothing else is normalised: error texts embedded by the generated code (strconv messages,
validator messages) are compared verbatim.
"""
import copy
import json
import os
import random
import re
import sys
import urllib.parse

sys.path.insert(0, os.path.dirname(os.path.abspath(__file__)))
from common import *  # noqa
import project as P
import servers
import handlermodel

PROP = "C12"
ENGINES = servers.ALL5

VALID = {"string": "abc", "int": "42", "int64": "9000000000", "uint32": "7", "bool": "true", "float64": "1.5",
         "int8": "5", "uint": "12"}
BOUNDS = {
    "int8": ["127", "128", "-128", "-129"],
    "uint32": ["4294967295", "4294967296", "-1", "0"],
    "int": ["9223372036854775807", "9223372036854775808", "-9223372036854775808"],
    "int64": ["9223372036854775807", "9223372036854775808", "-9223372036854775809"],
    "uint": ["4294967295", "4294967296", "18446744073709551615", "-1"],
    "float64": ["1e308", "1e309", "-0", "NaN"],
}
ILL = {"bool": ["yes", "2", ""], "float64": ["abc", "1,5", ""]}
ILL_INT = ["abc", "1.5", "", " 1"]
# header values travel through an HTTP parser on a real connection, which strips optional
# white space around the value: in-process delivery must not send what the wire cannot carry
ILL_INT_HEADER = ["abc", "1.5", "", "1 x"]
STRINGS = ["héllo wörld ✓", "a b&c=d;e+f", "a b&c=d/e?f#g%h+i;j", ""]
HEADER_STRINGS = ["a b&c=d/e?f#g%h+i;j", "café", ""]
# characters Go's net/url leaves unescaped in a path (encodePath): a path parameter whose
# percent-encoding is the canonical one leaves URL.RawPath empty
PATH_SAFE = "$&+,:;=@"


# ------------------------------------------------------------------ project preparation

def collapse(t):
    return re.sub(r"/+", "/", t)


def template_class(prefix, route):
    """Class of the registered template prefix ++ route (what toXUrl receives)."""
    t = prefix + route
    if t == "" or not t.startswith("/"):
        return "no-leading-slash"
    if "///" in t:
        return "tripled-slash"
    if "//" in t:
        return "doubled-slash"
    return "clean"


def clean_project(p, mode="clean"):
    """Engine-neutral route templates: one leading slash, no slash runs, and a unique first
    segment per method so that no two routes of a project overlap (overlap and duplicate
    routes are C15/C02 matters: gin refuses to register them).  mode 'doubled' keeps one
    doubled slash per template, 'noslash' drops the leading slash of the first method."""
    p = copy.deepcopy(p)
    first = True
    for ci, c in enumerate(p["controllers"]):
        c["route"] = collapse(c["route"])
        if c["route"] and not c["route"].startswith("/"):
            c["route"] = "/" + c["route"]
        if c["route"].endswith("/"):
            c["route"] = c["route"][:-1]
        for m in c["methods"]:
            if m["verb"] == "DELETE" and any(x["loc"] == "form" for x in m["params"]) and mode != "deleteform":
                m["verb"] = "POST"     # a form body on DELETE is its own (known) class, see plan()
            r = collapse(m["route"])
            if not r.startswith("/"):
                r = "/" + r
            r = "/" + m["name"].lower() + r
            if mode == "doubled":
                if c["route"]:
                    c["route"] = c["route"].rstrip("/") + "/"      # "/c0/" ++ "/m0get/..." : one doubled slash
                else:
                    r = r.replace("/", "//", 2).replace("//", "/", 1)  # second slash doubled
            elif mode == "tripled" and first:
                r = r.replace("/", "///", 2).replace("///", "/", 1)
            elif mode == "noslash" and first:
                c["route"] = ""
                r = r[1:]
            first = False
            m["route"] = r
    p["c12_mode"] = mode
    return p


def effective_security(p, c, m):
    if m["security"]:
        return m["security"]
    if c["security"]:
        return c["security"]
    if p["config"]["default_security"]:
        return [p["config"]["default_security"]]
    return []


# ------------------------------------------------------------------ request derivation

def wire(prm):
    return prm["alias"] or prm["name"]


def valid_value(prm):
    return VALID.get(prm["type"], "abc")


def build_request(verb, tmpl, params, values, body="valid"):
    """values: param name -> None (absent) | str | list of str (slice).  Returns an engine-independent request."""
    path = tmpl
    enc_path = False
    for prm in params:
        if prm["ctx"] or prm["loc"] != "path":
            continue
        v = values.get(prm["name"]) or ""
        q = urllib.parse.quote(v, safe=PATH_SAFE)
        if q != v:
            enc_path = "canonical"
        if "/" in v:
            # an encoded slash makes the escaped form differ from Go's canonical one: RawPath is set
            q = urllib.parse.quote(v, safe="")
            enc_path = "rawpath"
        path = path.replace("{" + prm["name"] + "}", q)
    query, headers, form = [], [], None
    bodyv = None
    for prm in params:
        if prm["ctx"] or prm["loc"] == "path":
            continue
        v = values.get(prm["name"])
        if prm["loc"] == "body":
            continue
        if prm["loc"] == "form" and form is None:
            form = []
        if v is None:
            continue
        vs = v if isinstance(v, list) else [v]
        for x in vs:
            if prm["loc"] == "query":
                query.append((wire(prm), x))
            elif prm["loc"] == "header":
                headers.append((wire(prm), x))
            elif prm["loc"] == "form":
                form.append((wire(prm), x))
    has_body = any((not q["ctx"]) and q["loc"] == "body" for q in params)
    list_body = any((not q["ctx"]) and q["loc"] == "body" and q["type"].startswith("[]") for q in params)
    if has_body and list_body:
        # a list of models: the same variants, with the faulty document as the SECOND element where that makes sense
        ok = '{"name":"x","count":2}'
        bodyv = {"valid": "[%s,%s]" % (ok, ok), "missing": None, "malformed": '[%s,{"name":' % ok,
                 "illtyped": '[%s,{"name":5,"count":2}]' % ok, "norequired": '[%s,{"count":1}]' % ok,
                 "unicode": '[{"name":"héllo ✓ <&>","count":-1}]', "null": "null",
                 "trailing": '[%s] -- and more' % ok, "twodocs": '[%s] [%s]' % (ok, ok), "whitespace": " \r\n"}[body]
    elif has_body:
        bodyv = {"valid": '{"name":"x","count":2}', "missing": None, "malformed": '{"name":',
                 "illtyped": '{"name":5,"count":2}', "norequired": '{"count":1}',
                 "unicode": '{"name":"héllo ✓ <&>","count":-1}', "null": "null",
                 "trailing": '{"name":"x","count":2} -- and more', "twodocs": '{"name":"x","count":2} {"name":"y","count":3}',
                 "whitespace": " \r\n"}[body]
    return {"method": verb, "path": path if path.startswith("/") else "/" + path, "query": query,
            "headers": headers, "form": form, "body": bodyv, "encoded_path": enc_path}


def route_requests(p, c, m):
    """All abstract requests for one route: list of (label, tags, request, script)."""
    tmpl = collapse(c["route"] + m["route"])
    params = [x for x in m["params"]]
    real = [x for x in params if not x["ctx"]]
    base = {}
    for prm in real:
        if prm["loc"] == "body":
            continue
        base[prm["name"]] = [valid_value(prm), valid_value(prm)] if prm.get("slice") else valid_value(prm)
    out = []

    def add(label, values=None, body="valid", script=None, decoy=None, ctype=None, **tags):
        rq = build_request(m["verb"], tmpl, params, values if values is not None else base, body)
        if ctype:
            rq["headers"] = list(rq["headers"]) + [("Content-Type", ctype)]
            label = label + "+" + ctype.split(";")[-1].strip()
        if decoy:
            # the same wire name, carried in ANOTHER location than the declared one
            dloc, dname, dval = decoy
            if dloc == "query":
                rq["query"] = list(rq["query"]) + [(dname, dval)]
            elif dloc == "form":
                rq["form"] = list(rq["form"] or []) + [(dname, dval)]
        tags["values"] = dict(values if values is not None else base)
        out.append((label, tags, rq, script or {}))

    add("valid")
    sec = effective_security(p, c, m)
    # operation error / custom status / headers
    add("op-error", script={m["name"]: {"fail": True}})
    add("op-status", script={m["name"]: {"status": 418}})
    add("op-error-status", script={m["name"]: {"fail": True, "status": 409}})
    add("op-error-2xx-status", script={m["name"]: {"fail": True, "status": 202}})
    add("op-header", script={m["name"]: {"headers": {"X-Verif": "h1"}, "status": 201}})
    if sec:
        for i in range(len(sec)):
            add("refuse-#%d" % i, script={"refuse": {"#%d" % i: {"status": 401, "message": "no %d" % i}}})
        add("refuse-all", script={"refuse": {"*": {"status": 403, "message": "denied"}}})
        add("refuse-all-custom", script={"refuse": {"*": {"status": 401, "message": "m",
                                                          "custom": {"code": 7, "why": ["a", "b"]}}}})
        add("refuse-all-nil-context", script={"refuse": {"*": {"status": 403, "message": "denied", "nil_ctx": True}}})
        add("refuse-last-differs", script={"refuse": {"*": {"status": 401, "message": "first"},
                                                      "#%d" % (len(sec) - 1): {"status": 402, "message": "last"}}})
    for prm in real:
        n = prm["name"]
        if prm["loc"] == "body":
            for b in ("missing", "malformed", "illtyped", "norequired", "unicode", "null", "trailing", "twodocs", "whitespace"):
                add("body-" + b, body=b)
            # the same valid document, labelled with a media type that carries a parameter
            add("body-valid", body="valid", ctype="application/json; charset=utf-8")
            # two faults at once: the body AND another parameter are invalid (the first one in signature order is reported)
            for other in real:
                if other["loc"] in ("body", "path") or other["type"] == "string" or other.get("slice"):
                    continue
                v = dict(base)
                v[other["name"]] = "abc"
                add("double-fault:%s+%s" % (n, other["name"]), v, body="malformed")
            continue
        if prm["loc"] != "path":
            v = dict(base)
            v[n] = None
            add("missing:" + n, v, missing_loc=prm["loc"])
            has_body = any((not q["ctx"]) and q["loc"] == "body" for q in params)
            if prm["loc"] == "form":
                add("missing+query-decoy:" + n, v, decoy=("query", wire(prm), valid_value(prm)), missing_loc="form")
            elif prm["loc"] == "query" and m["verb"] != "GET" and not has_body and \
                    not any(q["loc"] == "form" and wire(q) == wire(prm) for q in real):
                add("missing+form-decoy:" + n, v, decoy=("form", wire(prm), valid_value(prm)), missing_loc="query")
            if sec:
                add("missing+refused:" + n, v, script={"refuse": {"*": {"status": 401, "message": "gate first"}}})
        t = prm["type"]
        vals = []
        if t == "string":
            vals = [("str", x) for x in (HEADER_STRINGS if prm["loc"] == "header" else STRINGS)]
        elif t in ILL:
            vals = [("ill", x) for x in ILL[t]]
        else:
            vals = [("ill", x) for x in (ILL_INT_HEADER if prm["loc"] == "header" else ILL_INT)]
        vals += [("bound", x) for x in BOUNDS.get(t, [])]
        if t == "bool":
            vals += [("bound", "TRUE"), ("bound", "0"), ("bound", "t")]
        for kind, x in vals:
            if prm["loc"] == "path" and x == "":
                continue          # an empty path segment addresses a different (unannotated) path
            v = dict(base)
            v[n] = [valid_value(prm), x] if prm.get("slice") else x
            add("%s:%s=%s" % (kind, n, x), v, value_loc=prm["loc"], value=x, value_type=t)
        if prm.get("slice"):
            v = dict(base)
            v[n] = []
            add("emptyslice:" + n, v)
    return out


# ------------------------------------------------------------------ outcomes

def canon_json(v):
    return json.dumps(v, sort_keys=True, ensure_ascii=False, separators=(",", ":"))


def canon_outcome(o):
    framework = (o["status"] in (301, 307, 308, 404, 405) and not o["calls"] and not o["auth"])
    if o["panic"] is not None:
        return {"status": 0, "calls": [(c["controller"], c["method"], [canon_json(a) for a in c["args"]])
                                       for c in o["calls"]],
                "auth": [(a["scheme"], list(a["scopes"]), a["verdict"]) for a in o["auth"]],
                "body": "<panic> " + o["panic"]}
    if framework:
        body = "<framework>"
    elif o["body_is_json"]:
        body = canon_json(o["body_json"])
    else:
        body = o["body_raw"]
    return {"status": o["status"],
            "calls": [(c["controller"], c["method"], [canon_json(a) for a in c["args"]]) for c in o["calls"]],
            "auth": [(a["scheme"], list(a["scopes"]), a["verdict"]) for a in o["auth"]],
            "body": body}


def okey(co):
    return json.dumps(co, sort_keys=True, ensure_ascii=False)


def partition(cos):
    """cos: engine -> canonical outcome.  Returns (groups: list of engine lists, deviating engines)."""
    groups = {}
    for e in ENGINES:
        groups.setdefault(okey(cos[e]), []).append(e)
    gl = sorted(groups.values(), key=lambda g: (-len(g), ENGINES.index(g[0])))
    ref = gl[0]
    return gl, [e for e in ENGINES if e not in ref]


# ------------------------------------------------------------------ Coq side

def coq_outcome(co):
    calls = coq_list(["(%s, %s, %s)" % (coq_bytes(c[0]), coq_bytes(c[1]), coq_list([coq_bytes(a) for a in c[2]]))
                      for c in co["calls"]])
    auth = coq_list(["(%s, %s, %s)" % (coq_bytes(a[0]), coq_list([coq_bytes(x) for x in a[1]]), coq_bytes(a[2]))
                     for a in co["auth"]])
    return "(mkOutcome %d%%N %s %s %s)" % (co["status"], calls, auth, coq_bytes(co["body"]))


COQ_ENGINE = {"gin": "Gin", "echo": "Echo", "mux": "Mux", "chi": "Chi", "fiber": "Fiber"}


def coq_evaluate(cases, tag="cases"):
    """cases: list of dict engine -> canonical outcome.  Returns the ids on which prop_C12 is false."""
    bad = []
    SH = 500
    for lo in range(0, len(cases), SH):
        idx = range(lo, min(lo + SH, len(cases)))
        table, defs = {}, []
        rows = []
        for i in idx:
            cells = []
            for e in ENGINES:
                if e not in cases[i]:
                    continue
                k = okey(cases[i][e])
                if k not in table:
                    table[k] = "o%d" % len(table)
                    defs.append("Definition %s : outcome := %s." % (table[k], coq_outcome(cases[i][e])))
                cells.append("(%s, %s)" % (COQ_ENGINE[e], table[k]))
            rows.append("(%d, %s)" % (i, coq_list(cells)))
        body = ("From Gleece Require Import Base.Bytes Model.Interchange.\nFrom Coq Require Import String List NArith.\n"
                "Import ListNotations.\nOpen Scope list_scope.\n" + "\n".join(defs) + "\n"
                "Definition cases : list (nat * list (engine * outcome)) :=\n [" + ";\n  ".join(rows) + "].\n"
                "Definition propfail := Eval vm_compute in map fst (filter (fun c => negb (prop_C12 (snd c))) cases).\n"
                "Print propfail.\n")
        out = run_coq_file(PROP, "%s_%d" % (tag, lo), body)
        bad += parse_nat_list(out, "propfail")
    return bad


# ------------------------------------------------------------------ known findings

def deviation_class(case):
    """Machine-checkable classes a diverging case belongs to; compared with `match.kind` of the
    known findings.  A class is a property of the project/request, never of the outcome,
    except for the registration panic (which is a property of the whole router)."""
    tags, rq = case["tags"], case["request"]
    cls = []
    tc = case["template_class"]
    if tc != "clean":
        cls.append(tc + "-template")
    for e in ENGINES:
        body = case["outcomes"][e]["body"]
        if body.startswith("<panic> registration:") and "must begin with '/'" in body \
                and "no-leading-slash" in case["project_template_classes"]:
            cls.append("no-leading-slash-template")
    if rq.get("encoded_path") == "canonical":
        cls.append("percent-encoded-path-param")
    if rq.get("encoded_path") == "rawpath":
        cls.append("noncanonical-path-escape")
    if tags.get("value_loc") == "header" and tags.get("value") == "":
        cls.append("empty-header-value")
    if rq["method"] in ("DELETE", "GET") and rq.get("form") is not None:
        cls.append("form-on-bodyless-verb")
    if rq.get("form") and set(k for k, _ in rq["form"]) & set(k for k, _ in rq["query"]):
        cls.append("form-query-share-wire-name")
    return sorted(set(cls))


def match_known(known, case):
    """A diverging case is explained by the known findings whose class it belongs to when the
    deviating engines are among the engines those findings name."""
    classes = deviation_class(case)
    hits = [f for f in known if f.get("match", {}).get("kind") in classes]
    if not hits:
        return None
    allowed = set()
    for f in hits:
        allowed |= set(f["match"].get("engines", ENGINES))
    if set(case["deviating"]) <= allowed:
        return hits[0]
    return None


# ------------------------------------------------------------------ main

def list_bodies(rng, p):
    """Some non-pointer body parameters take a LIST of models (element validation goes through validateDataRecursive)."""
    for c in p["controllers"]:
        for m in c["methods"]:
            for prm in m["params"]:
                if (not prm["ctx"]) and prm["loc"] == "body" and prm["type"] == "Item" and not prm["pointer"] and rng.random() < 0.5:
                    prm["type"] = "[]Item"
                    # rules before the (implicit, appended) `required`: the body is still mandatory
                    prm["validator"] = rng.choice([prm["validator"], "min=1,dive", "min=1,required"])
    return p


def plan(rng, tier, nproj):
    opts = {"security": True, "params": True, "multipkg": True}
    projects = []
    for i in range(nproj):
        projects.append(list_bodies(rng, clean_project(P.gen_project(rng, opts), "clean")))
    # deliberate instances of the known-divergent template classes
    projects.append(clean_project(P.gen_project(rng, opts), "doubled"))
    projects.append(clean_project(P.gen_project(rng, opts), "noslash"))
    projects.append(clean_project(P.gen_project(rng, opts), "tripled"))
    projects.append(clean_project(DELETE_FORM_PROJECT, "deleteform"))
    projects.append(clean_project(OPTIONAL_RULES_PROJECT, "clean"))
    return projects


DELETE_FORM_PROJECT = {
    "config": {"schemes": ["sec1"], "default_security": None, "enforce": False, "engine": "gin", "title": "API",
               "version": "1.2.3", "base_url": "https://api.example.com"},
    "types": ["Item"],
    "controllers": [{"name": "FCtl0", "pkg": "ctl", "tag": "T", "route": "/f", "security": [], "descr": "",
                     "methods": [{"name": "M0Del", "verb": "DELETE", "route": "/x", "hidden": False,
                                  "deprecated": False, "security": [], "ret": "string", "errtype": "error",
                                  "response": None, "errors": [], "descr": "", "file": 0,
                                  "params": [{"name": "q0", "ctx": False, "loc": "form", "alias": None,
                                              "type": "string", "pointer": False, "validator": None,
                                              "slice": False}]}]}],
}


def _op(name, loc, ty, validator):
    return {"name": name, "ctx": False, "loc": loc, "alias": None, "type": ty, "pointer": True, "validator": validator, "slice": False}


# optional (pointer) parameters that carry a rule but neither `required` nor `omitempty`: every engine hands the nil pointer to
# the validator when the parameter is not sent (always part of the run, whatever the seed)
OPTIONAL_RULES_PROJECT = {
    "config": {"schemes": ["sec1"], "default_security": None, "enforce": False, "engine": "gin", "title": "API",
               "version": "1.2.3", "base_url": "https://api.example.com"},
    "types": ["Item"],
    "controllers": [{"name": "OCtl0", "pkg": "ctl", "tag": "O", "route": "/o", "security": [], "descr": "",
                     "methods": [{"name": "M0Opt", "verb": "GET", "route": "/x", "hidden": False, "deprecated": False,
                                  "security": [], "ret": "string", "errtype": "error", "response": None, "errors": [],
                                  "descr": "", "file": 0,
                                  "params": [_op("limit", "query", "int", "gte=1,lte=100"), _op("tenant", "header", "string", "required"),
                                             _op("page", "query", "int64", "gte=0"), _op("tag", "header", "string", "min=2")]},
                                 {"name": "M1Opt", "verb": "POST", "route": "/y", "hidden": False, "deprecated": False,
                                  "security": [], "ret": None, "errtype": "error", "response": None, "errors": [],
                                  "descr": "", "file": 0,
                                  "params": [_op("n", "form", "uint32", "gte=1"), _op("s", "form", "string", "max=5")]}]}],
}


def run_projects(prop, projects, only=None):
    """Build, derive requests, run.  Returns (handle, cases)."""
    h = servers.build_servers(prop, projects)
    cases, reqs = [], []
    for k, p in enumerate(projects):
        ptc = sorted(set(template_class(c["route"], m["route"]) for c in p["controllers"] for m in c["methods"]))
        for c in p["controllers"]:
            for m in c["methods"]:
                for (label, tags, rq, script) in route_requests(p, c, m):
                    if only and label != only:
                        continue
                    case = {"project": k, "controller": c["name"], "method": m["name"], "label": label,
                            "tags": tags, "request": rq, "script": script,
                            "template_class": template_class(c["route"], m["route"]),
                            "project_template_classes": ptc,
                            "template": c["route"] + m["route"]}
                    cases.append(case)
                    for e in ENGINES:
                        reqs.append(dict(rq, project=k, engine=e, script=script))
    results = h.run(reqs)
    for i, case in enumerate(cases):
        raw = {e: results[i * len(ENGINES) + j] for j, e in enumerate(ENGINES)}
        for e in ENGINES:
            if not h.usable(k_ := case["project"], e):
                raw[e] = dict(raw[e], panic="not built: generation exit %s, compiles=%s" % (
                    h.generation[k_][e]["exit"], str(h.compiles[k_][e])[:200]))
        case["raw"] = raw
        case["outcomes"] = {e: canon_outcome(raw[e]) for e in ENGINES}
        case["groups"], case["deviating"] = partition(case["outcomes"])
    return h, cases


def minimal_project(p, case):
    q = copy.deepcopy(p)
    q["controllers"] = [c for c in q["controllers"] if c["name"] == case["controller"]]
    for c in q["controllers"]:
        c["methods"] = [m for m in c["methods"] if m["name"] == case["method"]]
    return q


def describe(case):
    return {"label": case["label"], "template": case["template"], "template_class": case["template_class"],
            "request": case["request"], "script": case["script"],
            "groups": [{"engines": g, "outcome": case["outcomes"][g[0]]} for g in case["groups"]],
            "headers": {e: case["raw"][e]["headers"] for e in ENGINES}}


def main():
    a, seed = args_for(PROP)
    res = Result(PROP, a.tier, seed, level="translation_validation")
    rng = random.Random(seed)
    if not os.environ.get("VERIF_SKIP_COQ_BUILD"):   # development only: compile your own files by hand
        build_coq()
    proof_coverage(PROP, res)
    known = known_for(PROP)
    if os.environ.get("VERIF_KNOWN_EXTRA"):     # development: proposed entries not yet in known_findings.json
        known += [f for f in json.load(open(os.environ["VERIF_KNOWN_EXTRA"])) if f.get("property") == PROP]
    only = None
    if a.replay:
        rp = json.load(open(a.replay))
        projects = [rp["input"]["project"]]
        only = rp["input"].get("label")
    else:
        projects = []
        corpus_file = os.path.join(CORPUS, PROP + ".json")
        if os.path.exists(corpus_file):
            projects += json.load(open(corpus_file))
        projects += plan(rng, a.tier, 6 if a.tier == "quick" else 40)
    cases, timings = [], []
    BATCH = 10 if a.tier == "quick" else 12
    for lo in range(0, len(projects), BATCH):
        h, cs = run_projects(PROP, projects[lo:lo + BATCH], only)
        for c in cs:
            c["project"] += lo
        cases += cs
        timings.append(h.timings)
        gen_fail = [(k + lo, e, h.generation[k][e]["exit"], h.compiles[k][e]) for k in h.generation for e in ENGINES
                    if not h.usable(k, e)]
        for (k, e, ex, comp) in gen_fail[:2]:
            res.violation({"kind": "router-not-built", "input": {"project": projects[k]}, "engine": e,
                           "generation_exit": ex, "compiles": comp,
                           "claim": "an accepted project must yield five routers; this one could not be generated/compiled"})
        h.cleanup()

    python_bad = [i for i, c in enumerate(cases) if c["deviating"]]
    coq_bad = coq_evaluate([c["outcomes"] for c in cases])
    if sorted(python_bad) != sorted(coq_bad):
        res.violation({"kind": "oracle-mismatch", "obligation": "prop_C12 (vm_compute) vs the driver's own comparison",
                       "python_only": sorted(set(python_bad) - set(coq_bad))[:10],
                       "coq_only": sorted(set(coq_bad) - set(python_bad))[:10]}, no_input=True)
    reported, unknown_classes = 0, {}
    known_count = {}
    for i in coq_bad:
        case = cases[i]
        f = match_known(known, case)
        if f:
            known_count[f["id"]] = known_count.get(f["id"], 0) + 1
            res.known(f, "%s template=%s engines=%s" % (f["match"]["kind"], case["template_class"],
                                                        ",".join(sorted(case["deviating"]))))
            continue
        key = (tuple(deviation_class(case)), tuple(sorted(case["deviating"])), case["label"].split(":")[0].split("=")[0])
        unknown_classes.setdefault(key, []).append(i)
    for key, ids in sorted(unknown_classes.items(), key=lambda kv: -len(kv[1])):
        if reported >= 4:
            break
        reported += 1
        case = cases[ids[0]]
        small = minimal_project(projects[case["project"]], case)
        res.violation({"kind": "engines-disagree", "input": {"project": small, "label": case["label"]},
                       "classes": list(key[0]), "deviating_engines": list(key[1]), "occurrences": len(ids),
                       "observed": describe(case),
                       "claim": "prop_C12: the five routers answer a request to an annotated route with equal "
                                "status, controller-call record, authorization record and JSON-equal body"})
    # ---- absolute leg: every engine's observation against the engine-independent handler model
    verdicts = handlermodel.judge_cases(PROP, projects, cases)
    hcodes = {}
    for v in verdicts:
        hcodes[v["code"]] = hcodes.get(v["code"], 0) + 1
    model_unexplained = {}
    model_known = 0
    coq_bad_set = set(coq_bad)
    for i, v in enumerate(verdicts):
        if v["code"] < 2:
            continue
        case = cases[i]
        if v["code"] == 3:
            res.violation({"kind": "harness", "obligation": "Handler.find_route: the route of a generated request is not in "
                           "the Coq project term", "controller": case["controller"], "method": case["method"]}, no_input=True)
            break
        classes = deviation_class(case)
        if i in coq_bad_set or any(f.get("match", {}).get("kind") in classes for f in known):
            # the engines disagree among themselves (already judged by the relational leg) or the request belongs to a
            # listed divergent class: the model can side with one group only
            model_known += 1
            continue
        key = (tuple(classes), tuple(v["deviating"]), case["label"].split(":")[0].split("=")[0])
        model_unexplained.setdefault(key, []).append(i)
    for key, ids in sorted(model_unexplained.items(), key=lambda kv: -len(kv[1]))[:3]:
        case = cases[ids[0]]
        small = minimal_project(projects[case["project"]], case)
        res.violation({"kind": "handler-model-correspondence", "obligation": "Handler.judge = 0 (every compiled router refines "
                       "Handler.handle on the request; theorem C12_judge_zero then gives pairwise agreement)",
                       "input": {"project": small, "label": case["label"]}, "engines_not_refining": list(key[1]),
                       "occurrences": len(ids), "observed": describe(case),
                       "note": "the five routers agree with each other on this request but not with the model of the "
                               "generated handler (status / authorization record / controller call with decoded arguments)"},
                      no_input=True)
    if os.environ.get("C12_DUMP"):
        with open(os.environ["C12_DUMP"], "w") as f:
            json.dump([dict(describe(cases[i]), classes=deviation_class(cases[i]), deviating=cases[i]["deviating"],
                            project=cases[i]["project"], method=cases[i]["method"]) for i in coq_bad], f, indent=1,
                      ensure_ascii=False)

    labels = {}
    for c in cases:
        lb = c["label"].split(":")[0].split("=")[0]
        labels[lb] = labels.get(lb, 0) + 1
    distinct = set()
    for c in cases:
        if any(o["calls"] or o["auth"] or o["status"] == 422 for o in c["outcomes"].values()):
            distinct.add(json.dumps([c["project"], c["method"], c["label"]]))
    sample_ids = [i for i, c in enumerate(cases) if c["label"] in ("valid", "refuse-all")][:2]
    res.coverage.update({
        "programs": len(projects) * len(ENGINES), "disagreements_checked": len(coq_bad),
        "evaluations": len(cases) * len(ENGINES), "distinct_nontrivial": len(distinct),
        "rule": "seeded abstract projects (project.gen_project, params+security on) with engine-neutral templates "
                "(clean_project), plus one project per known-divergent template class; per route: valid request, "
                "operation error / custom status / response header, each authorization check refused / all refused "
                "(plain, custom payload, differing last refusal), each non-path parameter missing (also combined with "
                "refusal), ill-typed and boundary values per numeric/bool parameter, unicode and URL-reserved strings "
                "per string parameter, six body variants; each abstract request is sent to all five routers. "
                "distinct_nontrivial counts distinct (project, method, label) requests that reached gleece's handler "
                "in at least one engine (authorization callback ran, controller ran, or a 422 was produced)",
        "samples": [describe(cases[i]) for i in sample_ids],
        "requests": len(cases), "request_labels": labels,
        "known_finding_hits": known_count, "unexplained_classes": len(unknown_classes),
        "handler_model": {"refined_by_all_engines": hcodes.get(0, 0), "outside_modelled_fragment": hcodes.get(1, 0),
                          "differs_in_known_divergent_class": model_known,
                          "differs_unexplained": sum(len(x) for x in model_unexplained.values())},
        "input_distribution": {
            "projects": len(projects), "routes": sum(len(c["methods"]) for p in projects for c in p["controllers"]),
            "template_classes": {tc: sum(1 for c in cases if c["template_class"] == tc)
                                 for tc in sorted(set(c["template_class"] for c in cases))},
            "status_histogram": {str(s): sum(1 for c in cases if c["outcomes"]["gin"]["status"] == s)
                                 for s in sorted(set(c["outcomes"]["gin"]["status"] for c in cases))},
        },
        "timings": timings,
    })
    res.assumptions += [
        "the five frameworks' route matching, path unescaping, query/header/form decoding are exercised, not modelled",
        "handler model (absolute leg): floats, enum/alias parameter types, validator rules other than required/gt/gte/lt/lte/"
        "min/max and controller scripts other than fail/status/headers are outside the modelled fragment (skipped, counted)",
        "requests are delivered in-process (httptest / fiber app.Test), not over a socket",
        "canonicalisation: JSON bodies compared as values; framework-generated 3xx/404/405 bodies replaced by a marker; "
        "panics compared by message; response headers ignored",
        "route templates of a project do not overlap (unique first segment per method); overlap is C15/C02 territory",
    ]
    return res.finish()


if __name__ == "__main__":
    sys.exit(main())
