"""Shared evaluation for C07/C08: one coqc run evaluates, for every (universe, version, observed
document) case, the model/implementation agreement and the property oracles of
coq/Model/Schema.v on the implementation's own output."""
import concurrent.futures
import re

from common import *  # noqa
import typegen as T

HEADER = """From Gleece Require Import Base.Bytes Model.Project Model.Spec Model.Schema Proofs.SchemaProofs.
From Coq Require Import String.
Definition case := (nat * dialect * universe * option doc)%type.
Definition cid (c : case) : nat := fst (fst (fst c)).
(* the model's verdict on the command, with the modelled fragment of the library validators *)
Definition model_out (v : dialect) (u : universe) : option doc :=
  match cmd lib_model_ok (lib_model_ok_v V31) v u with Wrote d => Some d | Failed => None end.
(* C07 projection: components.schemas *)
Definition agrees_comps (c : case) : bool :=
  let '(_, v, u, o) := c in
  match model_out v u, o with
  | Some m, Some d => table_eqb (doc_comps m) (doc_comps d)
  | None, None => true
  | _, _ => false
  end.
(* whole abstract document *)
Definition agrees_doc (c : case) : bool :=
  let '(_, v, u, o) := c in docs_agree_d (model_out v u) o.
Definition holds_c07 (c : case) : bool :=
  let '(_, v, u, o) := c in match o with Some d => prop_C07 u d && prop_C07_refs u d | None => true end.
Definition holds_c08 (c : case) : bool :=
  let '(_, v, u, o) := c in match o with Some d => prop_C08 (u_cfg u) d | None => true end.
Definition c07_detail (c : case) : list nat :=
  let '(_, v, u, o) := c in
  match o with Some d => c07_failed u d ++ (if prop_C07_refs u d then [] else [5]) | None => [] end.
Definition c08_detail (c : case) : list nat :=
  let '(_, v, u, o) := c in match o with Some d => failed_clauses (u_cfg u) d | None => [] end.
(* the decidable hypotheses of the C07 / C08 theorems, for the evidence *)
Definition hyp_well_linked (c : case) : bool := let '(_, v, u, o) := c in well_linked_b v u.
Definition hyp_unique_quiet (c : case) : bool := let '(_, v, u, o) := c in unique_type_names_b u.
Definition model_none (c : case) : bool :=
  let '(_, v, u, o) := c in match model_out v u with None => true | Some _ => false end.
"""


def case_term(i, v, u, spec):
    return "(%d, %s, %s,\n   %s)" % (i, T.DIALECT[v], T.coq_universe(u), T.doc_term_opt(spec))


def parse_pairs(out, name):
    """Parse `name = [(i, [a; b]); ...] : list (nat * list nat)`."""
    m = re.search(re.escape(name) + r"\s*=\s*(.*?)\s*:\s*list", out, re.S)
    if not m:
        raise RuntimeError("cannot find %s in coq output:\n%s" % (name, out[-2000:]))
    res = {}
    for mm in re.finditer(r"\((\d+),\s*\[([^\]]*)\]\)", m.group(1)):
        res[int(mm.group(1))] = [int(x) for x in re.findall(r"\d+", mm.group(2))]
    return res


def evaluate(prop, cases, tag="cases", shard=40):
    """cases: list of (version, universe, spec json or None).  Returns dict with id lists:
    disagree_comps, disagree_doc, c07_fail {id: clauses}, c08_fail {id: clauses}, model_none,
    unprojectable {id: reason}."""
    res = {"disagree_comps": [], "disagree_doc": [], "c07_fail": {}, "c08_fail": {}, "model_none": [],
           "unprojectable": {}, "well_linked": [], "unique_quiet": []}
    terms = {}
    for i, (v, u, spec) in enumerate(cases):
        try:
            terms[i] = case_term(i, v, u, spec)
        except T.Unprojectable as e:
            res["unprojectable"][i] = str(e)
    ids = sorted(terms)

    def run_shard(lo):
        chunk = ids[lo:lo + shard]
        body = HEADER + "Definition cases : list case :=\n [" + ";\n ".join(terms[i] for i in chunk) + "].\n" + \
            "Definition disagree_comps := Eval vm_compute in map cid (filter (fun c => negb (agrees_comps c)) cases).\n" \
            "Definition disagree_doc := Eval vm_compute in map cid (filter (fun c => negb (agrees_doc c)) cases).\n" \
            "Definition c07_fail := Eval vm_compute in map (fun c => (cid c, c07_detail c)) (filter (fun c => negb (holds_c07 c)) cases).\n" \
            "Definition c08_fail := Eval vm_compute in map (fun c => (cid c, c08_detail c)) (filter (fun c => negb (holds_c08 c)) cases).\n" \
            "Definition model_none_ids := Eval vm_compute in map cid (filter model_none cases).\n" \
            "Definition well_linked_ids := Eval vm_compute in map cid (filter hyp_well_linked cases).\n" \
            "Definition unique_quiet_ids := Eval vm_compute in map cid (filter hyp_unique_quiet cases).\n" \
            "Print disagree_comps.\nPrint disagree_doc.\nPrint c07_fail.\nPrint c08_fail.\nPrint model_none_ids.\n" \
            "Print well_linked_ids.\nPrint unique_quiet_ids.\n"
        return run_coq_file(prop, "%s_%d" % (tag, lo), body)

    los = list(range(0, len(ids), shard))
    if len(los) > 1:
        with concurrent.futures.ThreadPoolExecutor(max_workers=8) as ex:
            outs = list(ex.map(run_shard, los))
    else:
        outs = [run_shard(lo) for lo in los]
    for out in outs:
        res["disagree_comps"] += parse_nat_list(out, "disagree_comps")
        res["disagree_doc"] += parse_nat_list(out, "disagree_doc")
        res["model_none"] += parse_nat_list(out, "model_none_ids")
        res["well_linked"] += parse_nat_list(out, "well_linked_ids")
        res["unique_quiet"] += parse_nat_list(out, "unique_quiet_ids")
        res["c07_fail"].update(parse_pairs(out, "c07_fail"))
        res["c08_fail"].update(parse_pairs(out, "c08_fail"))
    return res


def model_components(prop, cases, tag="model"):
    """Debug helper: print the model's components for the given cases (returns coqc output)."""
    body = HEADER + "".join(
        "Eval vm_compute in (%d, match model_out %s %s with Some d => Some (doc_comps d, doc_ops d) | None => None end).\n"
        % (i, T.DIALECT[v], T.coq_universe(u)) for i, (v, u, _) in enumerate(cases))
    return run_coq_file(prop, tag, body)
