#!/usr/bin/env python3
"""C19 - re-running analysis on an unchanged project is idempotent and cache-transparent."""
import concurrent.futures
import json
import os
import random
import shutil
import subprocess
import sys

sys.path.insert(0, os.path.dirname(os.path.abspath(__file__)))
from common import *  # noqa
import project as P

PROP = "C19"


def run_pipeline(job):
    p = subprocess.run([os.path.join(BIN, "implrun"), "pipeline"], input=json.dumps(job).encode(), env=GOENV,
                       stdout=subprocess.PIPE, stderr=subprocess.PIPE, timeout=300)
    if p.returncode != 0:
        return {"crash": p.stderr.decode(errors="replace")[-2000:]}
    try:
        return json.loads(p.stdout.decode())
    except ValueError:
        return {"crash": "unparsable output: " + p.stdout.decode(errors="replace")[-500:]}


def diag_key(d):
    return (d["entity"], d["kind"], d["code"], d["severity"], d["file"], d["start_line"], d["start_col"],
            d["end_line"], d["end_col"], d["message"])


def summarize(r):
    """Observable summary of one analysis round."""
    if r is None:
        return None
    return {"graph": r["graph_hash"], "nodes": r["graph_nodes"], "lines": r["graph_lines"],
            # every GenerateIntermediate of the round (before and after Validate, repeated) gave this set of results
            "meta": sorted(set(r.get("meta_hashes") or [r["meta_hash"]])),
            "diags": sorted(map(str, map(diag_key, r["diags"]))), "errs": [r["graph_err"], r["validate_err"], r["intermediate_err"]],
            "panic": r["panic"]}


def main():
    a, seed = args_for(PROP)
    res = Result(PROP, a.tier, seed)
    rng = random.Random(seed)
    build_coq()
    build_harness()
    proof_coverage(PROP, res)
    nproj = 12 if a.tier == "quick" else 80
    rounds = 4 if a.tier == "quick" else 6
    if a.replay:
        projects = [json.load(open(a.replay))["input"]]
    else:
        projects = []
        for k in range(nproj):
            opts = {"multifile": True, "multipkg": True, "security": True, "params": True, "enums": True,
                    "local_types": True, "generics": True}
            p = P.gen_project(rng, opts)
            # several controllers per file in half of the projects
            p["shared_files"] = (k % 2 == 0)
            # a controller in a file outside the globs (same package as the package-local types) in a third of the projects
            p["ghost_controller"] = (k % 3 == 1)
            # enum constants that share a value; methods that carry only one of @Route / @Method (not endpoints)
            p["dup_enum_values"] = (k % 3 == 2)
            p["half_annotated"] = (k % 2 == 1)
            if p["dup_enum_values"]:
                for c in p["controllers"]:
                    for m in c["methods"][:1]:
                        if m["verb"] == "GET" or True:
                            m["params"].append({"name": "dupcol", "ctx": False, "loc": "query", "alias": None, "type": "Color",
                                                "pointer": False, "validator": None, "slice": False})
                            m["params"].append({"name": "duptone", "ctx": False, "loc": "header", "alias": None, "type": "Tone",
                                                "pointer": False, "validator": None, "slice": False})
            if k % 4 == 3:
                # a rejected project: analysis of it must be idempotent too (diagnostics stable)
                c = rng.choice(p["controllers"])
                if c["methods"]:
                    m = rng.choice(c["methods"])
                    m["route"] = m["route"] + "/{ghost}"
            projects.append(p)
    moddir = os.path.join(WORK, PROP, "mod")
    shutil.rmtree(moddir, ignore_errors=True)
    P.make_module(moddir)
    jobs = []
    for k, p in enumerate(projects):
        root = os.path.join(moddir, "p%d" % k)
        P.render_project(p, root, "verifproj/p%d" % k)
        cfg = P.render_config(p, root, "verifproj/p%d" % k)
        # call histories: not every session validates before it reduces, nor reduces only once
        scripts = [["GVI", "GVI", "GVI", "GVI", "GVI", "GVI"], ["GIVI", "GVII", "GIV", "GVI", "IGVI", "GVI"],
                   ["GVII", "GVI", "GIVI", "VI", "GVI", "GIIVI"]][k % 3][:rounds]
        jobs.append({"dir": root, "config": cfg, "rounds": rounds, "fresh": True, "scripts": scripts})
    with concurrent.futures.ThreadPoolExecutor(max_workers=12) as ex:
        outs = list(ex.map(run_pipeline, jobs))

    cases = []
    for k, o in enumerate(outs):
        if "crash" in o or "rounds" not in o:
            cases.append({"k": k, "broken": o})
            continue
        sums = [summarize(r) for r in o["rounds"]]
        fresh = summarize(o.get("fresh"))
        cases.append({"k": k, "rounds": sums, "fresh": fresh})

    # the property oracle, evaluated in Coq on the observed summaries (as canonical strings)
    def enc(s_):
        return coq_bytes(json.dumps(s_, sort_keys=True))
    rows = []
    for c in cases:
        if "broken" in c:
            rows.append("(%d, [], None)" % c["k"])
        else:
            rows.append("(%d, %s, %s)" % (c["k"], coq_list([enc(x) for x in c["rounds"]]),
                                         coq_option(c["fresh"], enc)))
    body = ("From Gleece Require Import Base.Bytes Model.Session.\nFrom Coq Require Import String.\n"
            "Definition cases : list (nat * list str * option str) := [\n" + ";\n".join(rows) + "].\n"
            "Definition propfail := Eval vm_compute in map (fun c => fst (fst c)) "
            "(filter (fun c => negb (prop_C19 (snd (fst c)) (snd c))) cases).\nPrint propfail.\n")
    out = run_coq_file(PROP, "cases", body)
    propfail = parse_nat_list(out, "propfail")
    for k in propfail[:2]:
        c = cases[k]
        res.violation({"kind": "property-fails-on-implementation", "input": projects[k],
                       "observed": c, "claim": "every analysis round on one pipeline and a fresh pipeline give the same "
                                               "graph, diagnostics and flattened metadata"})
    accepted = sum(1 for c in cases if "rounds" in c and not c["rounds"][0]["diags"] and not any(c["rounds"][0]["errs"]))
    res.coverage.update({
        "evaluations": len(cases) * (rounds + 1),
        "distinct_nontrivial": len(set(c["rounds"][0]["graph"] for c in cases if "rounds" in c and c["rounds"][0]["nodes"] > 5)),
        "rule": "seeded multi-file, multi-package projects (every fourth one deliberately rejected); one GleecePipeline "
                "runs GenerateGraph/Validate/GenerateIntermediate %d times, then a fresh pipeline once; compared: "
                "canonical graph dump hash, node count, flattened metadata hash (controllers, routes, models, imports "
                "with serials), diagnostics list; non-trivial = graph with more than 5 nodes, distinct by graph hash" % rounds,
        "samples": [cases[0]],
        "traces_validated_against_impl": len(cases),
        "property_oracle_failures": len(propfail),
        "input_distribution": {"projects": len(projects), "rounds_per_pipeline": rounds, "accepted_projects": accepted,
                               "graph_nodes": [c["rounds"][0]["nodes"] for c in cases if "rounds" in c]},
    })
    res.assumptions += ["the graph is observed through SymbolGraph.String() canonicalised by sorting its lines"]
    shutil.rmtree(os.path.join(WORK, PROP), ignore_errors=True)
    sys.exit(res.finish())


if __name__ == "__main__":
    main()
