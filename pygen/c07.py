#!/usr/bin/env python3
"""C07 - Component schemas mirror Go declarations, independent of how a type is used."""
import copy
import json
import os
import random
import sys

sys.path.insert(0, os.path.dirname(os.path.abspath(__file__)))
import common
from common import *  # noqa
import typegen as T
import schemacheck as S

PROP = "C07"
if os.environ.get("VERIF_KNOWN_FILE"):          # development only: try proposed entries
    common.KNOWN = os.environ["VERIF_KNOWN_FILE"]

# machine-checkable classes of known findings (the "match" field of known_findings.json entries)
CLS_SAME_NAME = "same-bare-type-name-in-two-packages"
CLS_ENUM30 = "openapi-3.0-non-string-enum-values-emitted-as-strings"
CLS_RFC = "rfc7807-component-without-a-plain-error-route"
CLS_YAML31 = "openapi-3.1-string-enum-values-retyped-by-yaml"
CLS_FORMDESCR = "openapi-3.0-form-field-description-written-through-ref"
# a declared type that is called Time is documented as {"type":"string","format":"date-time"} wherever it is used
# (swagtool.ToOpenApiType dispatches on the bare identifier) while its component is built from its declaration
CLS_TIME = "declared-type-named-Time-documented-as-date-time"
SAR = "spec-and-routes"
# The 3.0 generator writes the description of a @FormField parameter of a named type into the shared
# component (patches/fix-C07-form-field-description-through-ref.diff).  The deliberate instance runs once
# the finding is listed in known_findings.json (or VERIF_C07_FORM_DESCRIPTION=1); after the fix has landed
# make it unconditional.
FORM_DESCRIPTION_VARIANT = True   # unconditional since the fix landed in /repo

YAML_WORDS = {"true", "false", "yes", "no", "on", "off", "y", "n", "null", "nan", "inf"}


def yaml_plain_safe(v):
    """Text that YAML resolves to a string when it is written as an untagged plain scalar."""
    import re
    return bool(re.match(r"^[A-Za-z][A-Za-z0-9 _-]*$", v)) and v.lower() not in YAML_WORDS


def yaml_may_retype(v):
    """Text that YAML may resolve to something else than itself when it is written as an untagged scalar:
    the null / boolean words, the empty text, and what starts like a number or a timestamp.  Every other
    text (whatever has to be quoted for its characters included) comes out as the same string."""
    import re
    return v == "" or v.strip() != v or v.lower() in YAML_WORDS or v.startswith("~") or \
        bool(re.match(r"^[-+]?(\.?[0-9]|\.inf|\.nan)", v.lower()))


def multiset_included(small, big):
    big = list(big)
    for x in small:
        if x not in big:
            return False
        big.remove(x)
    return True


def known_by_class(prop=PROP):
    out = {}
    for f in known_for(prop):
        m = f.get("match")
        cls = m.get("class") if isinstance(m, dict) else m
        out[cls] = f
    return out


# ------------------------------------------------------------------ classes: matchers / neutralisers

def reachable_names(u):
    return [k[1] for k in T.py_reach(u)]


def has_same_named(u):
    names = reachable_names(u)
    return len(names) != len(set(names))


def direct_named(t):
    """The named type a usage refers to with a bare $ref (pointers vanish), else None."""
    while t[0] == "ptr":
        t = t[1]
    return t if t[0] == "named" else None


def escaped_enum_values(u):
    """Number of values of reachable string enums that a Go / JSON string literal has to escape."""
    reach = T.py_reach(u)
    return sum(1 for d in u["decls"] if d["kind"] == "enum" and d["base"] == "string" and (d["pkg"], d["name"]) in reach
               for c in d["consts"] if any(ch in '"\\' or ord(ch) < 32 for ch in c[2]))


def returns_plain_error(u):
    return any(r["err"] is None for r in T.all_routes(u))


def convert_enum_value(x, ty):
    if not isinstance(x, str):
        return x
    try:
        if ty == "integer":
            return int(x)
        if ty == "number":
            f = float(x)
            return int(f) if f.is_integer() else f
        if ty == "boolean" and x in ("true", "false"):
            return x == "true"
    except ValueError:
        pass
    return x


def neutralise(spec, version, u):
    """Undo the effect of the known finding classes on an emitted document.  Returns
    (document, set of classes that changed something)."""
    if spec is None:
        return None, set()
    out = copy.deepcopy(spec)
    applied = set()
    schemas = (out.get("components") or {}).get("schemas") or {}
    if version == "3.0.0":
        for name, sch in schemas.items():
            ty = sch.get("type")
            if isinstance(sch.get("enum"), list) and ty in ("integer", "number", "boolean"):
                new = [convert_enum_value(x, ty) for x in sch["enum"]]
                if new != sch["enum"]:
                    sch["enum"] = new
                    applied.add(CLS_ENUM30)
    if version == "3.1.0":
        reach = T.py_reach(u)
        for d in u["decls"]:
            if d["kind"] != "enum" or d["base"] != "string" or (d["pkg"], d["name"]) not in reach:
                continue
            declared = [c[2] for c in d["consts"]]
            sch = schemas.get(d["name"])
            if all(yaml_plain_safe(x) for x in declared) or not isinstance(sch, dict):
                continue
            # only the values YAML may read as something else are excused; the others must be there as declared
            if sch.get("type") == "string" and isinstance(sch.get("enum"), list) \
                    and len(sch["enum"]) == len(declared) and sch["enum"] != sorted(declared) \
                    and multiset_included([x for x in declared if not yaml_may_retype(x)],
                                          [x for x in sch["enum"] if isinstance(x, str)]):
                sch["enum"] = sorted(declared)
                applied.add(CLS_YAML31)
    if "Rfc7807Error" in schemas and not returns_plain_error(u):
        del schemas["Rfc7807Error"]
        applied.add(CLS_RFC)
    return out, applied


# ------------------------------------------------------------------ class CLS_TIME: a declared type called Time

TIME_RENAMED = "TimeRn"
REF = "#/components/schemas/"


def is_date_time(sch):
    t = sch.get("type") if isinstance(sch, dict) else None
    if isinstance(t, list):
        t = [x for x in t if x != "null"]
        t = t[0] if len(t) == 1 else None
    return t == "string" and sch.get("format") == "date-time" and "$ref" not in sch


def py_json_name(f):
    if f["json"] is None:
        return f["name"]
    n = f["json"].split(",")[0]
    return n or f["name"]


def neutralise_time(spec, u):
    """Undo the effect of CLS_TIME: the same project with its declaration(s) called Time called TimeRn, and the
    document with (a) the component and every $ref renamed alike and (b) the date-time strings that stand exactly
    where a struct field's declared type names that declaration (directly, behind pointers, as the element of a
    slice, as a map value, as an embedded type) replaced by references to it.  Nothing else is touched: whatever
    else is wrong with the document is still wrong with the result.  Returns (universe, document, changed)."""
    keys = [(d["pkg"], d["name"]) for d in u["decls"] if d["name"] == T.SHADOW_TIME]
    if spec is None or len(keys) != 1 or T.find_decl(u, keys[0][0], TIME_RENAMED) is not None:
        return u, spec, False
    key = keys[0]
    out = copy.deepcopy(spec)
    schemas = (out.get("components") or {}).get("schemas") or {}
    changed = [False]

    def fix(t, sch):
        """The schema at a usage of type expression t, with date-time strings at the positions of `key` replaced."""
        if not isinstance(sch, dict):
            return sch
        if t[0] == "ptr":
            return fix(t[1], sch)
        if t[0] == "named" and (t[1], t[2]) == key:
            if is_date_time(sch):
                changed[0] = True
                return {"$ref": REF + T.SHADOW_TIME}
            return sch
        if t[0] == "slice" and isinstance(sch.get("items"), dict):
            sch["items"] = fix(t[1], sch["items"])
        elif t[0] == "map" and isinstance(sch.get("additionalProperties"), dict):
            sch["additionalProperties"] = fix(t[2], sch["additionalProperties"])
        return sch

    for d in u["decls"]:
        comp = schemas.get(d["name"])
        if d["kind"] != "struct" or not isinstance(comp, dict):
            continue
        parts = comp.get("allOf") if isinstance(comp.get("allOf"), list) else None
        inline = parts[0] if parts else comp
        props = inline.get("properties") if isinstance(inline, dict) else None
        vis = [f for f in d["fields"] if not f["embedded"] and f["name"][:1].isupper() and f["json"] != "-"]
        names = [py_json_name(f) for f in vis]
        for f, n in zip(vis, names):
            if key in T.texpr_refs(f["type"]) and names.count(n) == 1 and isinstance(props, dict) and n in props:
                props[n] = fix(f["type"], props[n])
        emb = [f for f in d["fields"] if f["embedded"] and f["type"] != ["prim", "error"]]
        if parts and len(parts) == 1 + len(emb):
            for i, f in enumerate(emb):
                parts[1 + i] = fix(f["type"], parts[1 + i])
    if not changed[0]:
        return u, spec, False

    def rename(x):
        if isinstance(x, dict):
            return {k: (REF + TIME_RENAMED if k == "$ref" and v == REF + T.SHADOW_TIME else rename(v)) for k, v in x.items()}
        if isinstance(x, list):
            return [rename(v) for v in x]
        return x
    out = rename(out)
    schemas = out["components"]["schemas"]
    if T.SHADOW_TIME in schemas:
        schemas[TIME_RENAMED] = schemas.pop(T.SHADOW_TIME)
    return T.rename_type(u, key, TIME_RENAMED), out, True


def neutral_case(spec, version, u):
    """(universe, document, classes applied): the case with the effects of the known finding classes undone."""
    spec2, applied = neutralise(spec, version, u)
    u2, spec3, changed = neutralise_time(spec2, u)
    if changed:
        applied = set(applied) | {CLS_TIME}
    return u2, spec3, applied


# ------------------------------------------------------------------ metamorphic variants

def set_validate(d, fi, value):
    """Set the validate tag of a field - and of the other names of its declaration, which share the tag."""
    f = d["fields"][fi]
    for g in d["fields"]:
        if g is f or (f.get("grp") is not None and g.get("grp") == f.get("grp")):
            g["validate"] = value


def variants_of(rng, u):
    """[(kind, variant universe, names whose component may legitimately change, F9 target or None)]"""
    out = []
    reach = T.py_reach(u)
    # usage-site tags on $ref-typed struct fields
    sites = []
    for di, d in enumerate(u["decls"]):
        if d["kind"] != "struct" or (d["pkg"], d["name"]) not in reach:
            continue
        for fi, f in enumerate(d["fields"]):
            if f["embedded"] or not f["name"][:1].isupper() or f["json"] == "-":
                continue
            n = direct_named(f["type"])
            if n is not None:
                sites.append((di, fi, n))
    if sites:
        di, fi, n = rng.choice(sites)
        v = copy.deepcopy(u)
        f = v["decls"][di]["fields"][fi]
        set_validate(v["decls"][di], fi, "" if "required" in (f["validate"] or "") else "required")
        if f["type"][0] == "named" and f["type"][1:] == [u["decls"][di]["pkg"], u["decls"][di]["name"]]:
            pass
        else:
            out.append(("field-tag", v, {u["decls"][di]["name"]}, None))
    enum_sites = [(di, fi, n) for (di, fi, n) in sites
                  if (T.find_decl(u, n[1], n[2]) or {}).get("kind") == "enum"
                  and T.find_decl(u, n[1], n[2])["base"] == "string"
                  and T.tag_safe(T.find_decl(u, n[1], n[2])["consts"][0][2].split(" ")[0])]
    if enum_sites:
        di, fi, n = rng.choice(enum_sites)
        e = T.find_decl(u, n[1], n[2])
        v = copy.deepcopy(u)
        set_validate(v["decls"][di], fi, "oneof=" + e["consts"][0][2].split(" ")[0])
        out.append(("field-oneof", v, {u["decls"][di]["name"]}, e["name"]))
    # `dive,oneof=` on a collection of a named enum: the base gets the field without a tag
    enums = [d for d in u["decls"] if d["kind"] == "enum" and T.dive_tag(rng, d)]
    hosts = [di for di, d in enumerate(u["decls"]) if d["kind"] == "struct" and (d["pkg"], d["name"]) in reach
             and d["pkg"] != "other"]
    if enums and hosts:
        e = rng.choice(enums)
        if e["pkg"] != "other" or True:
            di = rng.choice(hosts)
            ty = rng.choice([["slice", T.named(e["pkg"], e["name"])], ["map", T.prim("string"), T.named(e["pkg"], e["name"])]])
            base2, v = copy.deepcopy(u), copy.deepcopy(u)
            for w, tag in ((base2, ""), (v, T.dive_tag(rng, e))):
                w["decls"][di]["fields"].append({"name": "DiveProbe", "embedded": False, "json": "diveProbe",
                                                 "validate": tag, "type": ty})
            out.append(("field-dive", v, {u["decls"][di]["name"]}, e["name"], base2))
    # usage-site tag on a $ref-typed route parameter
    psites = []
    for ci, c in enumerate(u["ctrls"]):
        for ri, r in enumerate(c["routes"]):
            for pi, p in enumerate(r["params"]):
                if p["loc"] in ("query", "header") and direct_named(p["type"]) is not None:
                    psites.append((ci, ri, pi))
    if psites:
        ci, ri, pi = rng.choice(psites)
        v = copy.deepcopy(u)
        p = v["ctrls"][ci]["routes"][ri]["params"][pi]
        p["validate"] = None if p["validate"] else "required"
        out.append(("param-tag", v, set(), None))
    # one extra route using a declared type (reached before or not)
    cand = [d for d in u["decls"] if d["pkg"] != "ctl" and T.exported_name(d["name"])]
    if cand:
        d = rng.choice(cand)
        v = copy.deepcopy(u)
        t = T.named(d["pkg"], d["name"])
        if d["kind"] == "struct" and rng.random() < 0.5:
            t = ["slice", t]
        route = {"name": "MExtra", "verb": "GET", "path": "/extra/route", "hidden": False, "params": [],
                 "ret": t, "err": None if returns_plain_error(u) else T.all_routes(u)[0]["err"], "errors": [],
                 "security": []}
        if d["kind"] != "struct" and rng.random() < 0.5:
            route["params"].append({"name": "qx", "loc": "query", "alias": None, "type": T.named(d["pkg"], d["name"]),
                                    "validate": None})
        v["ctrls"][0]["routes"].append(route)
        out.append(("extra-route", v, set(), None))
    # a described @FormField parameter of a named type (the description must stay at the usage site)
    if FORM_DESCRIPTION_VARIANT:
        cand = [d for d in u["decls"] if d["kind"] in ("enum", "alias") and d["pkg"] != "ctl"]
        if cand:
            d = rng.choice(cand)
            v = copy.deepcopy(u)
            v["ctrls"][0]["routes"].append(
                {"name": "MForm", "verb": "POST", "path": "/form/route", "hidden": False,
                 "params": [{"name": "fx", "loc": "form", "alias": None, "type": T.named(d["pkg"], d["name"]),
                             "validate": None, "descr": "the form field's own words"}],
                 "ret": None, "err": None if returns_plain_error(u) else T.all_routes(u)[0]["err"], "errors": [],
                 "security": []})
            out.append(("form-param-described", v, set(), d["name"]))
    return out


def components_of(spec):
    return ((spec or {}).get("components") or {}).get("schemas") or {}


# ------------------------------------------------------------------ deliberate instances

def same_named_universe():
    P = T.prim
    return {"cfg": {"title": "API", "version": "1.0.0", "base_url": "https://api.example.com",
                    "schemes": [{"name": "sec1", "type": "apiKey", "in": "header", "field": "x-sec1", "flows": []}], "default": None},
            "decls": [{"pkg": "types", "name": "User", "kind": "struct",
                       "fields": [{"name": "A", "embedded": False, "json": "a", "validate": "", "type": P("string")}]},
                      {"pkg": "other", "name": "User", "kind": "struct",
                       "fields": [{"name": "B", "embedded": False, "json": "b", "validate": "", "type": P("int")}]}],
            "ctrls": [{"name": "Ctl", "prefix": "/c", "security": [], "routes": [
                {"name": "M0", "verb": "GET", "path": "/a", "hidden": False, "params": [],
                 "ret": T.named("types", "User"), "err": None, "errors": [], "security": []},
                {"name": "M1", "verb": "GET", "path": "/b", "hidden": False, "params": [],
                 "ret": T.named("other", "User"), "err": None, "errors": [], "security": []}]}]}


def custom_error_universe(rng):
    while True:
        u = T.gen_universe(rng, {})
        if not has_same_named(u):
            break
    T.add_custom_error(rng, u, all_routes=True)
    return u


OAUTH_SCHEME = {"name": "oauthy", "type": "oauth2", "in": "", "field": "", "flows": [
    {"kind": "implicit", "auth": "https://auth.example.com/authorize", "token": "", "scopes": [["read", "Read access"]]},
    {"kind": "clientCredentials", "auth": "", "token": "https://auth.example.com/token",
     "scopes": [["write", "Write access"], ["admin", "Admin access"]]}]}


def tricky_universe():
    """Unexported / json:"-" / nameless-json fields, YAML-sensitive enum values, a string enum that declares
    the empty string among other constants, a @Security annotation without scopes, enum values that string
    literals must escape, enum constants in a second file (both packages), multi-name declarations of mixed
    visibility, dive tags on collections of an enum, validator tags holding the word `required` without the
    rule, a context.Context parameter in front of path / query / header parameters and an oauth2 scheme with
    different scopes per flow, in one small universe (they are in the random stream too)."""
    P = T.prim
    N = T.named

    def fld(name, ty, json=None, validate="", grp=None):
        f = {"name": name, "embedded": False, "json": json, "validate": validate, "type": ty}
        if grp:
            f["grp"] = grp
        return f
    return {"cfg": {"title": "API", "version": "1.0.0", "base_url": "https://api.example.com",
                    "schemes": [{"name": "sec1", "type": "apiKey", "in": "header", "field": "x-sec1", "flows": []},
                                copy.deepcopy(OAUTH_SCHEME)], "default": None},
            "decls": [{"pkg": "types", "name": "Ver", "kind": "enum", "base": "string", "split": None,
                       "consts": [["VerA", '"1"', "1"], ["VerB", '"true"', "true"], ["VerC", '"x"', "x"]]},
                      {"pkg": "types", "name": "Status", "kind": "enum", "base": "string", "split": 2,
                       "consts": [["StatusNew", '"new"', "new"], ["StatusPaid", '"paid"', "paid"],
                                  ["StatusHeld", '"on-hold"', "on-hold"], ["StatusBack", '"refunded"', "refunded"]]},
                      {"pkg": "other", "name": "Prio", "kind": "enum", "base": "int", "split": 1,
                       "consts": [["PrioLow", "1", "1"], ["PrioHigh", "5", "5"], ["PrioUrgent", "9", "9"]]},
                      # the usual "unset" member: a declared constant whose value is the empty string
                      {"pkg": "types", "name": "Tier", "kind": "enum", "base": "string", "split": None,
                       "consts": [["TierUnset", '""', ""], ["TierStandard", '"standard"', "standard"],
                                  ["TierExpress", '"express"', "express"]]},
                      {"pkg": "types", "name": "Hidden", "kind": "struct", "fields": [fld("Z", P("int"))]},
                      {"pkg": "types", "name": "Dim", "kind": "struct", "fields": [fld("N", P("int"), "n")]},
                      {"pkg": "types", "name": "Unit", "kind": "alias", "assigned": False, "rhs": P("string")},
                      # values a Go / JSON / YAML string literal has to escape
                      {"pkg": "types", "name": "Sep", "kind": "enum", "base": "string", "split": None,
                       "consts": [["SepComma", '","', ","], ["SepQuote", '"\\""', '"'], ["SepBackslash", '"\\\\"', "\\"],
                                  ["SepTab", '"\\t"', "\t"]]},
                      {"pkg": "types", "name": "Box", "kind": "struct", "fields": [
                          fld("Sep", N("types", "Sep"), "sep"),
                          fld("Tier", N("types", "Tier"), "tier"),
                          # the word `required` as the parameter of another rule is not the rule
                          fld("Presence", P("string"), "presence", "omitempty,oneof=required optional forbidden"),
                          fld("Mode", P("string"), "mode", "eq=required"),
                          fld("Fallback", P("string"), "fallback,omitempty", "required_if=Presence optional"),
                          fld("Name", P("string"), "name", "min=1,required"),
                          fld("raw", N("types", "Hidden")),
                          fld("Skip", P("string"), "-"),
                          fld("Opt", P("int"), ",omitempty", "required"),
                          fld("V", N("types", "Ver"), "v"),
                          fld("Width", P("float64"), grp="g1"), fld("Height", P("float64"), grp="g1"),
                          fld("area", P("float64"), grp="g1"),
                          fld("min", N("types", "Dim"), grp="g2"), fld("Max", N("types", "Dim"), grp="g2"),
                          fld("unitA", N("types", "Unit"), grp="g3"), fld("UnitB", N("types", "Unit"), grp="g3"),
                          fld("St", N("types", "Status"), "st"),
                          fld("Sts", ["slice", N("types", "Status")], "sts", "dive,oneof=new"),
                          fld("ByPrio", ["map", P("string"), N("other", "Prio")], "byPrio", "dive,oneof=5")]}],
            "ctrls": [{"name": "Ctl", "prefix": "", "security": [{"name": "oauthy", "scopes": ["read"]}], "routes": [
                {"name": "M0", "verb": "GET", "path": "/a", "hidden": False, "params": [],
                 "ret": N("types", "Box"), "err": None, "errors": [], "security": []},
                # a context parameter in front of the annotated ones
                {"name": "M1", "verb": "GET", "path": "/items/{id}", "hidden": False,
                 "params": [T.ctx_param(),
                            {"name": "id", "loc": "path", "alias": None, "type": P("string"), "validate": None},
                            {"name": "verbose", "loc": "query", "alias": None, "type": P("bool"), "validate": None},
                            {"name": "sep", "loc": "query", "alias": None, "type": ["ptr", N("types", "Sep")],
                             "validate": None},
                            {"name": "mode", "loc": "header", "alias": None, "type": ["ptr", P("string")],
                             "validate": "oneof=required optional"}],
                 # @Security without the optional scopes property
                 "ret": P("string"), "err": None, "errors": [], "security": [{"name": "sec1", "scopes": []}]}]}]}



def mixin_universe():
    """Structs that embed structs whose type NAME is unexported (the package-private mixin), by value and by
    pointer, one and two levels deep, across packages; types that are reachable only through the embedded struct."""
    P = T.prim
    N = T.named

    def fld(name, ty, json=None, validate="", emb=False):
        return {"name": name, "embedded": emb, "json": json, "validate": validate, "type": ty}
    decls = []
    decls += [
        {"pkg": "types", "name": "Carrier", "kind": "enum", "base": "string", "split": None,
         "consts": [["CarrierPost", '"post"', "post"], ["CarrierBike", '"bike"', "bike"]]},
        {"pkg": "types", "name": "Depot", "kind": "struct", "fields": [fld("City", P("string"), "city")]},
        {"pkg": "types", "name": "tracking", "kind": "struct", "fields": [
            fld("TrackingCode", P("string"), "trackingCode", "required"),
            fld("Carrier", N("types", "Carrier"), "carrier", "required"),
            fld("Depots", ["slice", N("types", "Depot")], "depots")]},
        {"pkg": "types", "name": "audit", "kind": "struct", "fields": [fld("CreatedBy", P("string"), "createdBy")]},
        {"pkg": "types", "name": "stamp", "kind": "struct", "fields": [fld("audit", ["ptr", N("types", "audit")], emb=True),
                                                                    fld("Rev", P("int"), "rev")]},
        {"pkg": "types", "name": "Parcel", "kind": "struct", "fields": [
            fld("tracking", N("types", "tracking"), emb=True), fld("audit", ["ptr", N("types", "audit")], emb=True),
            fld("Id", P("string"), "id", "required"), fld("Weight", P("float64"), "weight", "gte=0"),
            fld("Last", N("types", "stamp"), "last"), fld("hidden", N("types", "audit"))]},
        {"pkg": "other", "name": "omix", "kind": "struct", "fields": [fld("Note", P("string"), "note")]},
        {"pkg": "other", "name": "Crate", "kind": "struct", "fields": [fld("omix", N("other", "omix"), emb=True),
                                                                      fld("N", P("int"), "n")]},
        {"pkg": "types", "name": "Pallet", "kind": "struct", "fields": [
            fld("Crate", N("other", "Crate"), emb=True), fld("stamp", N("types", "stamp"), emb=True)]}]
    routes = [{"name": "MParcel", "verb": "GET", "path": "/parcel", "hidden": False, "params": [],
               "ret": ["slice", N("types", "Parcel")], "err": None, "errors": [], "security": []},
              {"name": "MPallet", "verb": "GET", "path": "/pallet", "hidden": False, "params": [],
               "ret": N("types", "Pallet"), "err": None, "errors": [], "security": []}]
    return {"cfg": {"title": "API", "version": "1.0.0", "base_url": "https://api.example.com",
                    "schemes": [{"name": "sec1", "type": "apiKey", "in": "header", "field": "x-sec1", "flows": []}],
                    "default": None},
            "decls": decls, "ctrls": [{"name": "Ctl", "prefix": "", "security": [], "routes": routes}]}


def naming_universe(names, off=0):
    """Type NAMES: declared structs, enums and aliases that are called like something the emitters know
    (names: a selection of T.SHADOW_NAMES / T.SHADOW_TIME; off rotates which name is a struct, an enum, an
    alias), each used directly, behind a pointer, in a slice and as a map value by a struct, and by
    routes as result / body / query parameter."""
    P = T.prim
    N = T.named

    def fld(name, ty, json=None, validate="", emb=False):
        return {"name": name, "embedded": emb, "json": json, "validate": validate, "type": ty}
    names = list(names)
    decls, host, host2 = [], [], []
    for i, n in enumerate(names):
        pkg = "other" if i % 4 == 3 else "types"
        if (i + off) % 3 == 0:
            decls.append({"pkg": pkg, "name": n, "kind": "struct",
                          "fields": [fld("Amount", P("int"), "amount", "required,gte=1"), fld("Unit", P("string"), "unit")]})
        elif (i + off) % 3 == 1:
            base = ["string", "int", "int64"][(i // 3) % 3]
            consts = [[n + "A", '"a%d"' % i, "a%d" % i], [n + "B", '"b%d"' % i, "b%d" % i]] if base == "string" else \
                [[n + "A", str(i), str(i)], [n + "B", str(i + 100), str(i + 100)]]
            decls.append({"pkg": pkg, "name": n, "kind": "enum", "base": base, "split": None, "consts": consts})
        else:
            decls.append({"pkg": pkg, "name": n, "kind": "alias", "assigned": i % 2 == 0,
                          "rhs": P(["string", "int64", "float64", "bool"][(i // 3) % 4])})
        t = N(pkg, n)
        (host if i % 2 == 0 else host2).extend([
            fld("D" + n, t, "d" + n, "required" if i % 5 == 0 else ""), fld("P" + n, ["ptr", t]),
            fld("S" + n, ["slice", t], "s" + n), fld("M" + n, ["map", P("string"), t], "m" + n + ",omitempty")])
    decls.append({"pkg": "types", "name": "Host", "kind": "struct", "fields": host})
    decls.append({"pkg": "types", "name": "Host2", "kind": "struct", "fields": host2})
    routes = [{"name": "MHost", "verb": "GET", "path": "/host", "hidden": False, "params": [],
               "ret": N("types", "Host"), "err": None, "errors": [], "security": []},
              {"name": "MHost2", "verb": "POST", "path": "/host2", "hidden": False,
               "params": [{"name": "body", "loc": "body", "alias": None, "type": N("types", "Host2"), "validate": "required"}],
               "ret": None, "err": None, "errors": [], "security": []}]
    for i, d in enumerate(decls[:len(names)]):
        t = N(d["pkg"], d["name"])
        r = {"name": "MN%d" % i, "verb": "GET", "path": "/n%d" % i, "hidden": False, "params": [],
             "ret": t if i % 2 == 0 else ["slice", t], "err": None, "errors": [], "security": []}
        if d["kind"] != "struct":
            r["params"].append({"name": "q", "loc": "query", "alias": None, "type": t, "validate": None})
        elif i % 2:
            r["verb"] = "POST"
            r["params"].append({"name": "body", "loc": "body", "alias": None, "type": t, "validate": "required"})
        routes.append(r)
    return {"cfg": {"title": "API", "version": "1.0.0", "base_url": "https://api.example.com",
                    "schemes": [{"name": "sec1", "type": "apiKey", "in": "header", "field": "x-sec1", "flows": []}],
                    "default": None},
            "decls": decls, "ctrls": [{"name": "Ctl", "prefix": "", "security": [], "routes": routes}]}


# ------------------------------------------------------------------ generations in ONE process

SEQ_MOD = "verifproj/live"
GENSEQ = "genseq (library entry point cmd.GenerateSpec, several generations in one process)"


def later_revision(rng, u):
    """A later revision of the project: one to three reachable types renamed or removed (with the fields that
    used them).  Returns (universe, [names the later project no longer has]) or None."""
    reach = sorted(k for k in T.py_reach(u) if k[0] != "ctl")
    if not reach:
        return None
    v, gone = u, []
    for key in rng.sample(reach, min(len(reach), rng.choice([1, 2, 2, 3]))):
        if T.find_decl(v, *key) is None:
            continue
        w = T.remove_type(v, key) if rng.random() < 0.4 else None
        if w is None:
            w = T.rename_type(v, key, key[1] + "Rv")
        v = w
        gone.append(key[1])
    return (v, gone) if gone else None


def run_type_sequence(tag, seq, versions=T.VERSIONS):
    """seq: [(label, universe)].  Every universe is rendered as a stage of ONE live directory (same module
    path, same file names); all generations - for each step one per version, in order - run in ONE process
    through cmd.GenerateSpec.  Returns per step {version: {"spec", "error", "panic"}}."""
    import base64
    import shutil
    moddir = os.path.join(WORK, PROP, "seq_" + tag)
    shutil.rmtree(moddir, ignore_errors=True)
    T.P.make_module(moddir)
    live = os.path.join(moddir, "live")
    jobs, index = [], []
    for i, (label, u) in enumerate(seq):
        st = os.path.join(moddir, "stage%d" % i)
        T.render_universe(u, st, SEQ_MOD)
        for v in versions:
            T.render_config(u, st, SEQ_MOD, v)
        for v in versions:
            jobs.append({"live": live, "stage": st, "config": "gleece-%s.json" % v, "mode": "spec",
                         "outputs": ["dist/spec-%s.json" % v]})
            index.append((i, v))
    results = implrun("genseq", jobs, timeout=900)
    out = [dict() for _ in seq]
    for (i, v), r in zip(index, results):
        data = (r.get("files_b64") or {}).get("dist/spec-%s.json" % v)
        spec = None
        if data is not None:
            try:
                spec = json.loads(base64.b64decode(data).decode(errors="replace"))
            except ValueError:
                spec = None
        out[i][v] = {"spec": spec, "error": r.get("error") or "", "panic": r.get("panic") or "",
                     "exit": 0 if not (r.get("error") or r.get("panic")) else 1,
                     "out": (r.get("error") or "") + (r.get("panic") or ""), "unparsable": data is not None and spec is None}
    shutil.rmtree(moddir, ignore_errors=True)
    return out


def build_sequences(rng, singles, obs, nseq):
    """[(label, universe, fresh) ...] per sequence; fresh = index into singles of the same universe, or None
    (the caller runs it through a fresh CLI process).  A sequence is: a project, a later revision of it
    (types renamed / removed), an unrelated project, the first project again."""
    cand = [i for i, (l, u) in enumerate(singles) if l in ("random", "tricky")
            and obs[i]["3.0.0"]["spec"] is not None and len(T.py_reach(u)) >= 3]
    rng.shuffle(cand)
    # the tricky universe holds every declaration shape: always the base of the first sequence
    cand.sort(key=lambda i: singles[i][0] != "tricky")
    seqs = []
    for n, i in enumerate(cand):
        if len(seqs) >= nseq:
            break
        rev = later_revision(rng, singles[i][1])
        if rev is None:
            continue
        others = [j for j in cand if j != i]
        seq = [("project", singles[i][1], i, []),
               ("later-revision:" + "+".join(rev[1]), rev[0], None, rev[1])]
        if others:
            j = others[n % len(others)]
            seq.append(("unrelated-project", singles[j][1], j, [k[1] for k in T.py_reach(rev[0])]))
        seq.append(("first-project-again", singles[i][1], i, []))
        seqs.append(seq)
    return seqs

# ------------------------------------------------------------------ main

def universe_stats(us):
    st = {"declarations": 0, "structs": 0, "enums": 0, "aliases": 0, "fields": 0, "embedded_fields": 0,
          "unexported_fields": 0, "json_dash": 0, "json_nameless": 0, "json_omitempty": 0, "validated_fields": 0,
          "self_recursive_structs": 0, "uses_second_package": 0, "reachable": 0, "unreachable": 0,
          "enum_bases": {}, "field_shapes": {}, "routes": 0, "hidden_routes": 0, "custom_error_universes": 0,
          "routes_with_context_param": 0, "routes_with_context_before_url_param": 0,
          "string_enum_values_needing_escapes": 0, "tags_with_required_as_a_word_only": 0,
          "struct_types_with_unexported_names": 0, "embedded_fields_of_unexported_struct_types": 0,
          "embedded_by_pointer": 0, "declarations_named_like_a_name_the_emitters_know": 0,
          "usages_of_declarations_named_like_a_name_the_emitters_know": 0}
    import re
    shadow = set(T.SHADOW_NAMES) | {T.SHADOW_TIME}

    def word_only(tag):
        return bool(tag) and bool(re.search(r"\brequired\b", tag)) and "required" not in tag.split(",")
    for u in us:
        reach = T.py_reach(u)
        for r in T.all_routes(u):
            locs = [p["loc"] for p in r["params"]]
            if "ctx" in locs:
                st["routes_with_context_param"] += 1
                st["routes_with_context_before_url_param"] += int(any(
                    l in ("path", "query", "header") for l in locs[locs.index("ctx") + 1:]))
            st["tags_with_required_as_a_word_only"] += sum(1 for p in r["params"] if word_only(p["validate"]))
        st["custom_error_universes"] += int(any(r["err"] for r in T.all_routes(u)))
        st["routes"] += len(T.all_routes(u))
        st["hidden_routes"] += sum(1 for r in T.all_routes(u) if r["hidden"])
        if any(k[0] == "other" for k in reach):
            st["uses_second_package"] += 1
        for d in u["decls"]:
            st["declarations"] += 1
            st["declarations_named_like_a_name_the_emitters_know"] += int(d["name"] in shadow)
            st["struct_types_with_unexported_names"] += int(d["kind"] == "struct" and not T.exported_name(d["name"]))
            st["reachable" if (d["pkg"], d["name"]) in reach else "unreachable"] += 1
            if d["kind"] == "enum":
                st["enums"] += 1
                st["enum_bases"][d["base"]] = st["enum_bases"].get(d["base"], 0) + 1
                if d["base"] == "string":
                    st["string_enum_values_needing_escapes"] += sum(
                        1 for c in d["consts"] if any(ch in '"\\' or ord(ch) < 32 for ch in c[2]))
            elif d["kind"] == "alias":
                st["aliases"] += 1
            else:
                st["structs"] += 1
                selfrec = False
                for f in d["fields"]:
                    st["fields"] += 1
                    st["embedded_fields"] += int(f["embedded"])
                    st["embedded_by_pointer"] += int(f["embedded"] and f["type"][0] == "ptr")
                    st["embedded_fields_of_unexported_struct_types"] += int(
                        f["embedded"] and f["type"] != ["prim", "error"] and not T.exported_name(f["name"]))
                    st["usages_of_declarations_named_like_a_name_the_emitters_know"] += sum(
                        1 for k2 in T.texpr_refs(f["type"]) if k2[1] in shadow)
                    st["unexported_fields"] += int(not f["embedded"] and not f["name"][:1].isupper())
                    st["json_dash"] += int(f["json"] == "-")
                    st["json_nameless"] += int(f["json"] == ",omitempty")
                    st["json_omitempty"] += int(bool(f["json"]) and "omitempty" in f["json"])
                    st["validated_fields"] += int(bool(f["validate"]))
                    st["tags_with_required_as_a_word_only"] += int(word_only(f["validate"]))
                    shape = f["type"][0] if f["type"][0] in ("ptr", "slice", "map") else "direct"
                    st["field_shapes"][shape] = st["field_shapes"].get(shape, 0) + 1
                    if (d["pkg"], d["name"]) in T.texpr_refs(f["type"]):
                        selfrec = True
                st["self_recursive_structs"] += int(selfrec)
    return st


def main():
    a, seed = args_for(PROP)
    import time
    t_start = time.time()

    def phase(name):
        if os.environ.get("VERIF_C07_TIMING"):
            log("C07 timing: %6.1fs  %s" % (time.time() - t_start, name))
    res = Result(PROP, a.tier, seed)
    rng = random.Random(seed)
    build_coq()
    proof_coverage(PROP, res)
    known = known_by_class()
    quick = a.tier == "quick"

    singles = []          # (label, universe)
    pairs = []            # (kind, base universe, variant, allowed names, f9 target)
    sar_of = []           # indices into singles: also run through `generate spec-and-routes`
    if a.replay:
        rp = json.load(open(a.replay))
        if rp.get("command") == SAR:
            singles.append(("replay", rp["input"]))
            sar_of.append(0)
        elif rp.get("variant") is not None:
            pairs.append((rp.get("variant_kind", "replay"), rp["input"], rp["variant"], set(rp.get("allowed", [])),
                          rp.get("oneof_target")))
        else:
            singles.append(("replay", rp["input"]))
    else:
        corpus_file = os.path.join(CORPUS, PROP + ".json")
        if os.path.exists(corpus_file):
            singles += [("corpus", u) for u in json.load(open(corpus_file))]
        singles.append(("tricky", tricky_universe()))
        # quick: Duration and five more of the names, another selection for every seed; thorough: all of them
        nrng = random.Random(seed * 7919 + 11)
        rest = [x for x in T.SHADOW_NAMES if x != "Duration"]
        if quick:
            singles.append(("naming", naming_universe(["Duration"] + nrng.sample(rest, 5), nrng.randrange(3))))
        else:
            singles.append(("naming", naming_universe(T.SHADOW_NAMES)))
        singles.append(("mixin", mixin_universe()))
        if CLS_TIME in known or os.environ.get("VERIF_C07_SHADOW_TIME") == "1":
            singles.append(("naming-time", naming_universe([T.SHADOW_TIME] + nrng.sample(rest, 2), nrng.randrange(3)) if quick
                            else naming_universe(T.SHADOW_NAMES + [T.SHADOW_TIME])))
        singles.append(("same-named", same_named_universe()))
        singles.append(("custom-error", custom_error_universe(rng)))
        n = 26 if quick else 300
        k = 0
        while k < n:
            u = T.gen_universe(rng, {"tricky_enum_values": True, "literal_unsafe_enum_values": 0.25,
                                     "custom_error": 0.08, "empty_enum_value": 0.2,
                                     "unexported_structs": 0.4, "shadow_names": 0.3})
            if has_same_named(u):
                continue
            singles.append(("random", u))
            k += 1
        # the second command that writes a specification: the deliberate universes and a part of the stream
        nsar = 3 if quick else 60
        stream = [i for i, (l, _) in enumerate(singles) if l == "random"]
        # first the universes whose reachable string enums hold values that literals must escape
        stream = [i for i in stream if escaped_enum_values(singles[i][1])] + \
                 [i for i in stream if not escaped_enum_values(singles[i][1])]
        sar_of = [i for i, (l, _) in enumerate(singles)
                  if l in (("tricky", "naming", "mixin") if quick else ("tricky", "custom-error", "naming", "mixin"))] + \
            sorted(stream[:nsar])
        nb = 6 if quick else 50
        quota = {"field-tag": nb, "field-oneof": max(2, nb // 3), "field-dive": max(3, nb // 2), "param-tag": nb,
                 "extra-route": nb, "form-param-described": 1 if quick else 4}
        wanted = [k2 for k2 in quota if k2 != "form-param-described" or FORM_DESCRIPTION_VARIANT]
        tries = 0
        got = {}
        while tries < 20 * nb:
            tries += 1
            u = T.gen_universe(rng, {})
            if has_same_named(u):
                continue
            for var in variants_of(rng, u):
                kind, v, allowed, tgt = var[:4]
                base = var[4] if len(var) > 4 else u
                if got.get(kind, 0) >= quota[kind]:
                    continue
                got[kind] = got.get(kind, 0) + 1
                pairs.append((kind, base, v, allowed, tgt))
            if all(got.get(k2, 0) >= quota[k2] for k2 in wanted):
                break

    # ---- run the real CLI on everything
    universes = [u for _, u in singles]
    for _, u, v, _, _ in pairs:
        universes += [u, v]
    phase("coq built, inputs generated (%d universes)" % len(universes))
    obs = T.run_universes(PROP, universes)
    phase("generate spec")
    nsingle = len(singles)
    # `generate spec-and-routes` renders the routes file first and the specification after it, from the
    # same metadata: its documents are further observations of the same universes (same oracle, same model)
    sar_base = len(universes)
    origin = {}           # index of a spec-and-routes observation -> index of the `generate spec` one
    if sar_of:
        obs += T.run_universes(PROP, [universes[i] for i in sar_of], tag="sar", command=SAR)
        for j, i in enumerate(sar_of):
            origin[sar_base + j] = i
            universes.append(universes[i])

    # ---- sequences of generations in ONE process (a project, a later revision without some of its types, an
    # unrelated project, the first project again; each step for 3.0.0 and 3.1.0): every in-process document is a
    # further observation of its universe - same oracle, same model - and is compared with the document a
    # fresh process writes for the same universe
    seq_of = {}           # index of an in-process observation -> (sequence, step)
    seq_fresh = {}        # index of an in-process observation -> index of the fresh-process observation
    seqs = []
    if a.replay:
        if rp.get("sequence"):
            seqs = [[(st["label"], st["universe"], None, []) for st in rp["sequence"]]]
    elif os.environ.get("VERIF_C07_SEQUENCES", "1") != "0":
        seqs = build_sequences(rng, singles, obs, 2 if quick else 12)
    if seqs:
        import concurrent.futures
        build_harness()
        need = [(si, ti) for si, seq in enumerate(seqs) for ti, st in enumerate(seq) if st[2] is None]
        fresh_base = len(universes)
        obs += T.run_universes(PROP, [seqs[si][ti][1] for si, ti in need], tag="seqfresh")
        fresh_idx = {}
        for n2, (si, ti) in enumerate(need):
            universes.append(seqs[si][ti][1])
            fresh_idx[(si, ti)] = fresh_base + n2
        with concurrent.futures.ThreadPoolExecutor(max_workers=4) as ex:
            seq_obs = list(ex.map(lambda x: run_type_sequence("s%d" % x[0], [(st[0], st[1]) for st in x[1]]),
                                  enumerate(seqs)))
        for si, seq in enumerate(seqs):
            for ti, st in enumerate(seq):
                seq_of[len(universes)] = (si, ti)
                seq_fresh[len(universes)] = st[2] if st[2] is not None else fresh_idx[(si, ti)]
                universes.append(st[1])
                obs.append(seq_obs[si][ti])

    phase("spec-and-routes + sequences")

    def command_of(k):
        return SAR if k in origin else GENSEQ if k in seq_of else "spec"

    # ---- Coq evaluation: raw and neutralised documents
    cases, meta = [], []       # meta: (universe index, version, "raw"/"neutral", classes applied)
    for k, u in enumerate(universes):
        for v in T.VERSIONS:
            spec = obs[k][v]["spec"]
            cases.append((v, u, spec))
            meta.append((k, v, "raw", set()))
            u2, spec2, applied = neutral_case(spec, v, u)
            if applied:
                cases.append((v, u2, spec2))
                meta.append((k, v, "neutral", applied))
    ev = S.evaluate(PROP, cases)
    phase("coq evaluation of %d cases" % len(cases))
    neutral_of = {}
    for i, (k, v, kind, applied) in enumerate(meta):
        if kind == "neutral":
            neutral_of[(k, v)] = i

    def explain(k, v, raw_id):
        """Known-finding classes that explain the oracle failure of a raw case, or None."""
        u = universes[k]
        if has_same_named(u):
            # (5: the declaration that lost the shared component name has its fields read against the other one)
            return {CLS_SAME_NAME} if set(ev["c07_fail"].get(raw_id, [])) <= {1, 2, 3, 5} else None
        j = neutral_of.get((k, v))
        if j is not None and j not in ev["c07_fail"] and j not in ev["unprojectable"]:
            return set(meta[j][3])
        return None

    def report_known_or_violation(classes, what, replay):
        missing = [c for c in classes if c not in known]
        if missing:
            replay = dict(replay)
            replay["unlisted_finding_classes"] = missing
            res.violation(replay)
            return False
        for c in classes:
            res.known(known[c], what)
        return True

    def observe(u, v, command="spec"):
        o = T.run_universes(PROP + "_shrink", [u], versions=[v], command=command)[0][v]
        return o

    def still_fails(v, command="spec"):
        def pred(u):
            if has_same_named(u):
                return False
            o = observe(u, v, command)
            u2, spec2, _ = neutral_case(o["spec"], v, u)
            e = S.evaluate(PROP, [(v, u2, spec2)], "shrink")
            return bool(e["c07_fail"]) or bool(e["unprojectable"])
        return pred

    class_hits = {}
    unexplained = []
    for i, (k, v, kind, applied) in enumerate(meta):
        if kind != "raw":
            continue
        if i in ev["unprojectable"]:
            unexplained.append((i, "unprojectable: " + ev["unprojectable"][i]))
            continue
        if i in ev["c07_fail"]:
            cl = explain(k, v, i)
            if cl is None:
                unexplained.append((i, "prop_C07 sub-claims %s fail" % ev["c07_fail"][i]))
            else:
                for c in cl:
                    class_hits[c] = class_hits.get(c, 0) + 1
                report_known_or_violation(
                    cl, "components.schemas of the %s document: %s" % (v, ", ".join(sorted(cl))),
                    {"kind": "property-fails-on-implementation", "openapi": v, "command": command_of(k),
                     "input": universes[k],
                     "implementation_components": components_of(obs[k][v]["spec"]),
                     "failed_subclaims": ev["c07_fail"][i]})
    def seq_case_fails(u, v, spec):
        e = S.evaluate(PROP, [(v,) + neutral_case(spec, v, u)[:2]], "shrink")
        return bool(e["c07_fail"]) or bool(e["unprojectable"])

    def report_sequence(i, why):
        """The failing generation with the shortest prefix of its sequence that still makes it fail."""
        k, v, _, _ = meta[i]
        si, ti = seq_of[k]
        seq = [(st[0], st[1]) for st in seqs[si]]
        u = seq[ti][1]
        best, bad, vs_used = seq[:ti + 1], obs[k][v]["spec"], T.VERSIONS
        if not a.replay:
            found = False
            for vs in ([v], T.VERSIONS):
                for tj in range(ti - 1, -1, -1):
                    o = run_type_sequence("shrink", [seq[tj], seq[ti]], versions=vs)[1][v]
                    if o["spec"] is not None and seq_case_fails(u, v, o["spec"]):
                        best, bad, vs_used, found = [seq[tj], seq[ti]], o["spec"], vs, True
                        break
                if found:
                    break
        fresh = components_of(obs[seq_fresh[k]][v]["spec"])
        res.violation({"kind": "property-fails-on-implementation", "openapi": v, "command": GENSEQ, "input": u,
                       "sequence": [{"step": n2, "label": l, "universe": x} for n2, (l, x) in enumerate(best)],
                       "versions_generated_per_step": list(vs_used),
                       "implementation_components": components_of(bad),
                       "fresh_process_components": fresh,
                       "components_only_in_the_in_process_document": sorted(set(components_of(bad)) - set(fresh)),
                       "components_missing_in_the_in_process_document": sorted(set(fresh) - set(components_of(bad))),
                       "why": why,
                       "subclaims": "1 a reachable declaration has no / a wrong / several schemas, 2 two reachable "
                                    "declarations share a name, 3 a schema without declaration, 4 Rfc7807Error missing, "
                                    "5 a field / embedded field of a declared type is not documented by a $ref to that type",
                       "claim": "prop_C07 is false on the document of the LAST step when the steps are generated one "
                                "after the other in one process (input = the universe of that step); a fresh process "
                                "writes fresh_process_components for it"})

    reported = 0
    seq_reported = 0
    # the smallest failing projects are the ones that get shrunk and reported
    unexplained.sort(key=lambda x: len(json.dumps(universes[meta[x[0]][0]])))
    fails_fresh = set((meta[i][0], meta[i][1]) for i, _ in unexplained if meta[i][0] not in seq_of)
    for i, why in unexplained:
        if meta[i][0] in seq_of:
            if (seq_fresh[meta[i][0]], meta[i][1]) in fails_fresh:
                continue            # not a matter of the process: a fresh process writes a failing document too
            if not seq_reported:
                seq_reported += 1
                report_sequence(i, why)
            continue
        if reported >= 2:
            continue
        reported += 1
        k, v, _, _ = meta[i]
        cmdk = command_of(k)
        small = T.shrink_universe(universes[k], still_fails(v, cmdk)) if not a.replay else universes[k]
        o = observe(small, v, cmdk)
        e2 = S.evaluate(PROP, [(v,) + neutral_case(o["spec"], v, small)[:2]], "shrink")
        after = ("unprojectable: " + e2["unprojectable"][0]) if e2["unprojectable"] else \
            "prop_C07 sub-claims %s fail" % e2["c07_fail"].get(0, [])
        res.violation({"kind": "property-fails-on-implementation", "openapi": v, "command": cmdk, "input": small,
                       "implementation_components": components_of(o["spec"]), "cli_exit": o["exit"],
                       "cli_output": o["out"][-1200:], "why": why, "after_shrinking": after,
                       "subclaims": "1 a reachable declaration has no / a wrong / several schemas, 2 two reachable "
                                    "declarations share a name, 3 a schema without declaration, 4 Rfc7807Error missing, "
                                    "5 a field / embedded field of a declared type is not documented by a $ref to that type",
                       "claim": "prop_C07 (one schema per reachable declaration matching the declaration, no others "
                                "apart from Rfc7807Error when a route returns a plain error) is false on the emitted document"})

    # ---- correspondence model = implementation (components projection)
    unexplained_ids = set(i for i, _ in unexplained)
    retyped = set((m[0], m[1]) for m in meta if m[2] == "neutral" and CLS_YAML31 in m[3])
    # the routes generator is not modelled: a spec-and-routes run that failed says nothing about the model
    routes_failed = set((k, v) for k in origin for v in T.VERSIONS
                        if obs[k][v]["spec"] is None and obs[origin[k]][v]["spec"] is not None)
    disagree = [i for i in ev["disagree_comps"] if meta[i][2] == "raw" and not has_same_named(universes[meta[i][0]])
                and (meta[i][0], meta[i][1]) not in retyped and (meta[i][0], meta[i][1]) not in routes_failed]
    if disagree and not res.violations:
        # the model no longer describes the code: look harder for an input that fails the oracle
        extra = []
        while len(extra) < (60 if quick else 300):
            u = T.gen_universe(rng, {"tricky_enum_values": True})
            if not has_same_named(u):
                extra.append(u)
        obs2 = T.run_universes(PROP + "_widen", extra)
        cases2 = []
        for k2, u in enumerate(extra):
            for v in T.VERSIONS:
                cases2.append((v,) + neutral_case(obs2[k2][v]["spec"], v, u)[:2])
        ev2 = S.evaluate(PROP, cases2, "widen")
        if ev2["c07_fail"]:
            j = sorted(ev2["c07_fail"])[0]
            v, u, _ = cases2[j]
            small = T.shrink_universe(u, still_fails(v))
            o = observe(small, v)
            res.violation({"kind": "property-fails-on-implementation", "openapi": v, "input": small,
                           "implementation_components": components_of(o["spec"]), "cli_output": o["out"][-1200:]})
        else:
            i = disagree[0]
            k, v, _, _ = meta[i]
            res.violation({"kind": "correspondence", "obligation": "corr:Schema.components (components.schemas projection)",
                           "openapi": v, "command": command_of(k), "input": universes[k],
                           "implementation_components": components_of(obs[k][v]["spec"]),
                           "cli_exit": obs[k][v]["exit"], "cli_output": obs[k][v]["out"][-1200:],
                           "note": "model and implementation disagree on %d of %d documents; the property oracle holds "
                                   "on every observed document of this run and of %d more" % (len(disagree), len(cases), len(cases2))},
                          no_input=True)

    # ---- metamorphic relation on the implementation alone
    pair_stats = {}
    for pi, (kind, u, v2, allowed, tgt) in enumerate(pairs):
        kb, kv = nsingle + 2 * pi, nsingle + 2 * pi + 1
        for ver in T.VERSIONS:
            a_doc, b_doc = obs[kb][ver]["spec"], obs[kv][ver]["spec"]
            key = "%s/%s" % (kind, ver)
            st = pair_stats.setdefault(key, {"pairs": 0, "both_written": 0, "components_compared": 0, "differences": 0})
            st["pairs"] += 1
            if a_doc is None or b_doc is None:
                continue
            st["both_written"] += 1
            ca, cb = components_of(a_doc), components_of(b_doc)
            diff = []
            for name in sorted(set(ca) & set(cb)):
                if name in allowed:
                    continue
                st["components_compared"] += 1
                if ca[name] != cb[name]:
                    diff.append(name)
            missing = sorted(set(ca) - set(cb))        # a variant never removes a usage
            if not diff and not missing:
                continue
            st["differences"] += 1
            replay = {"kind": "metamorphic-pair", "variant_kind": kind, "openapi": ver, "input": u, "variant": v2,
                      "allowed": sorted(allowed), "oneof_target": tgt, "changed_components": diff,
                      "missing_components": missing,
                      "before": {n: ca[n] for n in diff}, "after": {n: cb.get(n) for n in diff},
                      "claim": "a type's schema is a function of its declaration alone: adding a validator at one "
                               "usage site or one more route must not change the shared component"}
            if kind == "form-param-described" and ver == "3.0.0" and diff == [tgt] and not missing:
                class_hits[CLS_FORMDESCR] = class_hits.get(CLS_FORMDESCR, 0) + 1
                report_known_or_violation({CLS_FORMDESCR}, "the description of component %s is replaced by the "
                                          "description of a @FormField parameter of that type (3.0.0 only)" % tgt, replay)
            else:
                res.violation(replay)

    # ---- the two commands that write a specification agree on components.schemas
    cmd_stats = {"pairs": 0, "both_written": 0, "components_compared": 0, "differences": 0,
                 "spec_and_routes_failed_alone": len(routes_failed)}
    cmd_reported = 0
    for k2 in sorted(origin):
        k1 = origin[k2]
        for ver in T.VERSIONS:
            cmd_stats["pairs"] += 1
            a_doc, b_doc = obs[k1][ver]["spec"], obs[k2][ver]["spec"]
            if a_doc is None or b_doc is None:
                continue
            cmd_stats["both_written"] += 1
            ca, cb = components_of(a_doc), components_of(b_doc)
            cmd_stats["components_compared"] += len(set(ca) | set(cb))
            if ca == cb:
                continue
            cmd_stats["differences"] += 1
            if cmd_reported or has_same_named(universes[k1]):
                continue
            cmd_reported += 1

            def differs(u, ver=ver):
                x = T.run_universes(PROP + "_shrink", [u], versions=[ver])[0][ver]["spec"]
                y = T.run_universes(PROP + "_shrink", [u], versions=[ver], tag="sar", command=SAR)[0][ver]["spec"]
                return x is not None and y is not None and components_of(x) != components_of(y)
            small = universes[k1] if a.replay else T.shrink_universe(universes[k1], differs, budget=16)
            x = T.run_universes(PROP + "_shrink", [small], versions=[ver])[0][ver]["spec"]
            y = T.run_universes(PROP + "_shrink", [small], versions=[ver], tag="sar", command=SAR)[0][ver]["spec"]
            names = sorted(n for n in set(components_of(x)) | set(components_of(y))
                           if components_of(x).get(n) != components_of(y).get(n))
            res.violation({"kind": "metamorphic-command-pair", "openapi": ver, "command": SAR, "input": small,
                           "changed_components": names,
                           "generate_spec": {n: components_of(x).get(n) for n in names},
                           "generate_spec_and_routes": {n: components_of(y).get(n) for n in names},
                           "claim": "a type's schema is a function of its declaration alone: `generate spec` and "
                                    "`generate spec-and-routes` write the same components.schemas for one project"})

    # ---- a generation that follows others in its process writes what a fresh process writes
    seq_stats = {"sequences": len(seqs), "generations_in_one_process": 0, "documents_written": 0,
                 "compared_with_a_fresh_process": 0, "differences": 0, "outcome_differs": 0,
                 "steps": sorted(set(st[0].split(":")[0] for seq in seqs for st in seq)),
                 "type_names_gone_in_a_later_step": sum(len(st[3]) for seq in seqs for st in seq)}
    for k in sorted(seq_of):
        for ver in T.VERSIONS:
            seq_stats["generations_in_one_process"] += 1
            x, y = obs[k][ver]["spec"], obs[seq_fresh[k]][ver]["spec"]
            seq_stats["documents_written"] += int(x is not None)
            si, ti = seq_of[k]
            if (x is None) != (y is None):
                seq_stats["outcome_differs"] += 1
            elif x is not None:
                seq_stats["compared_with_a_fresh_process"] += 1
                if components_of(x) == components_of(y):
                    continue
                seq_stats["differences"] += 1
            else:
                continue
            if seq_reported:
                continue
            seq_reported += 1
            names = sorted(n2 for n2 in set(components_of(x)) | set(components_of(y))
                           if components_of(x).get(n2) != components_of(y).get(n2))
            res.violation({"kind": "metamorphic-process-pair", "openapi": ver, "command": GENSEQ, "input": universes[k],
                           "sequence": [{"step": n2, "label": st[0], "universe": st[1]}
                                        for n2, st in enumerate(seqs[si][:ti + 1])],
                           "changed_components": names,
                           "in_process": {"error": obs[k][ver]["out"][-600:], "components": {n2: components_of(x).get(n2) for n2 in names}},
                           "fresh_process": {"exit": obs[seq_fresh[k]][ver]["exit"],
                                             "components": {n2: components_of(y).get(n2) for n2 in names}},
                           "claim": "a type's schema is a function of its declaration alone: the document of the last "
                                    "step, generated after the earlier steps in one process, has the components.schemas "
                                    "a fresh process writes for the same project"})

    # ---- evidence
    raw = [i for i, m in enumerate(meta) if m[2] == "raw"]
    accepted = [i for i in raw if cases[i][2] is not None]
    distinct = set()
    for i in accepted:
        if any("properties" in c or "allOf" in c for c in components_of(cases[i][2]).values()):
            distinct.add(json.dumps(cases[i][1], sort_keys=True))
    res.coverage.update({
        "evaluations": len(raw), "distinct_nontrivial": len(distinct),
        "rule": "seeded type universes (2 packages, structs with 0-6 fields of primitive / time.Time / []byte / enum / "
                "alias / struct types under pointers, slices, maps; embedded structs by value and pointer; "
                "self-recursion; exported and unexported fields; json tags name / name,omitempty / - / ,omitempty / -, ; "
                "validate tags; enums of string, int*, uint*, float*, bool kinds; typedef and assigned aliases; unused "
                "declarations) with 1-2 controllers whose routes use the types as body, result, query/header "
                "parameters, rendered to Go and run through the real CLI for 3.0.0 and 3.1.0; plus metamorphic pairs "
                "(same universe +- one usage-site tag - required, or oneof=... on an enum-typed field, the former F9 - on "
                "a $ref-typed field or parameter, + one route) compared on "
                "the implementation's components; the deliberate universes and part of the stream also run through "
                "`generate spec-and-routes` (same oracle and model on its documents, components compared with those of "
                "`generate spec`); string enum values include texts a Go / JSON / YAML literal must escape (quote, "
                "backslash, tab, control character), validate tags include the word `required` as the parameter of "
                "another rule and the required_* family, methods may take a context.Context parameter at any position; "
                "string enums may declare the empty string among other constants; sequences of generations in ONE process "
                "(harness genseq, cmd.GenerateSpec: a project, a later revision in which reachable types are renamed or "
                "removed, an unrelated project, the first project again - 3.0.0 and 3.1.0 at every step, all in one live "
                "directory): same oracle and model on every in-process document, components compared with those a fresh "
                "process writes for the same universe; "
                "struct types with unexported names embedded by value and by pointer by structs of their package (the "
                "package-private mixin; random stream and the deliberate `mixin` universe); declarations called like a "
                "name the emitters know (random stream and the deliberate `naming` universe: every name as struct / enum "
                "/ alias, used directly, behind a pointer, in a slice, as a map value, as result / body / query "
                "parameter); oracle sub-claim 5 (prop_C07_refs): a field of a declared type is a $ref to its component; "
                "non-trivial = document written and it has a struct component; "
                "distinct = distinct universes",
        "samples": [{"openapi": cases[i][0], "universe": cases[i][1],
                     "observed_components": components_of(cases[i][2])} for i in accepted[3:5]],
        "traces_validated_against_impl": len(raw) - len([i for i in ev["disagree_comps"] if meta[i][2] == "raw"]),
        "disagreements": len(disagree), "property_oracle_failures_raw": len([i for i in raw if i in ev["c07_fail"]]),
        "property_oracle_failures_unexplained": len(unexplained),
        "known_finding_class_hits": class_hits,
        "input_distribution": dict(universe_stats(universes[:nsingle]), **{
            "single_universes": nsingle, "labels": {l: sum(1 for x, _ in singles if x == l) for l in set(x for x, _ in singles)},
            "cli_runs": 2 * len(universes), "documents_written": len(accepted),
            "documents_not_written": len(raw) - len(accepted),
            "model_predicts_failure": len([i for i in ev["model_none"] if meta[i][2] == "raw"]),
            "runs_satisfying_theorem_hypotheses": {
                "unique_type_names (C07_closure, C07_lookup, C07_noninterference)":
                    len([i for i in ev["unique_quiet"] if meta[i][2] == "raw"]),
                "well_linked (C08_wf_partial)": len([i for i in ev["well_linked"] if meta[i][2] == "raw"])},
            "metamorphic_pairs": pair_stats,
            "spec_and_routes_observations": len(origin), "command_pairs": cmd_stats,
            "string_enums_with_an_empty_string_member": sum(
                1 for u in universes[:nsingle] for d in u["decls"]
                if d["kind"] == "enum" and d["base"] == "string" and len(d["consts"]) >= 2
                and any(c[2] == "" for c in d["consts"]) and (d["pkg"], d["name"]) in T.py_reach(u)),
            "one_process_sequences": seq_stats}),
    })
    res.assumptions += [
        "3.1.0: the values of a string enum are assumed to be text that YAML resolves to a string (letters, digits, "
        "blank, dash, underscore, not a YAML keyword); other values are the known-finding class " + CLS_YAML31 +
        " and are excluded from the correspondence",
        "go/packages loading, go/types constant discovery (types.Identical) and the kin-openapi / libopenapi "
        "renderers and validators are exercised, not modelled; the library rules the generator can trigger are a "
        "modelled fragment (Schema.lib_model_ok_v)",
        "struct tags carry only json and validate keys; map keys are primitives; declared types are called like "
        "names the emitters know or could know (typegen.SHADOW_NAMES: Duration, Int, String, Any, Error, Bytes, ...) "
        "but not `Time` (a declared type of that name is documented as a date-time string at every usage: class " +
        CLS_TIME + ", generated once it is listed or with VERIF_C07_SHADOW_TIME=1) nor the lower-case predeclared "
        "names (bytes, any, string, ...)",
        "descriptions, titles and deprecation flags of components are outside the projection (they are compared by "
        "the metamorphic pairs, which use full JSON equality)",
    ]
    phase("reports and evidence")
    T.cleanup(PROP)
    T.cleanup(PROP + "_shrink")
    T.cleanup(PROP + "_widen")
    sys.exit(res.finish())


if __name__ == "__main__":
    main()
