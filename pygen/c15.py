#!/usr/bin/env python3
"""C15 - route-conflict detection flags exactly the overlapping same-verb routes."""
import json
import os
import random
import sys

sys.path.insert(0, os.path.dirname(os.path.abspath(__file__)))
from common import *  # noqa

PROP = "C15"
LITS = ["a", "b", "c"]
PARAMS = ["{x}", "{y}"]
ODD = ["{x", "x}", "{}", "{", "}", "a{x}", "{x}a", "ab"]
VERBS = ["GET", "POST", "PUT"]


def render_path(rng, segs):
    """Concrete spelling of a template: optional leading slash, doubled slashes, trailing slash."""
    if not segs:
        return rng.choice(["", "/", "//"])
    sep = lambda: "/" if rng.random() < 0.85 else rng.choice(["//", "///"])
    out = "" if rng.random() < 0.2 else sep()
    out += segs[0]
    for sg in segs[1:]:
        out += sep() + sg
    if rng.random() < 0.15:
        out += sep()
    return out


def gen_segs(rng):
    depth = rng.choice([0, 1, 1, 2, 2, 2, 3, 3, 4])
    out = []
    for _ in range(depth):
        r = rng.random()
        if r < 0.5:
            out.append(rng.choice(LITS))
        elif r < 0.92:
            out.append(rng.choice(PARAMS))
        else:
            out.append(rng.choice(ODD))
    return out


def gen_case(rng):
    n = rng.randint(1, 8)
    entries = []
    while len(entries) < n:
        r = rng.random()
        if entries and r < 0.30:        # duplicate an earlier entry (same or other verb, same or other spelling)
            base = rng.choice(entries)
            segs = base["_segs"]
            verb = base["verb"] if rng.random() < 0.7 else rng.choice(VERBS)
            path = base["path"] if rng.random() < 0.6 else render_path(rng, segs)
        elif entries and r < 0.45:      # mutate one segment of an earlier entry
            base = rng.choice(entries)
            segs = list(base["_segs"])
            if segs:
                k = rng.randrange(len(segs))
                segs[k] = rng.choice(LITS + PARAMS)
            verb = base["verb"]
            path = render_path(rng, segs)
        else:
            segs = gen_segs(rng)
            verb = rng.choice(VERBS[:2]) if rng.random() < 0.85 else VERBS[2]
            path = render_path(rng, segs)
        entries.append({"path": path, "verb": verb, "_segs": segs})
    return entries


def strip(entries):
    return [{"path": e["path"], "verb": e["verb"]} for e in entries]


def coq_case(cid, entries, impl):
    es = coq_list(["E %s %s" % (coq_bytes(e["verb"]), coq_bytes(e["path"])) for e in entries])
    obs = coq_list(["(%d, %d, %s)" % (o["a"], o["b"], coq_bytes(o["reason"])) for o in impl])
    return "(%d, %s, %s)" % (cid, es, obs)


HEADER = """From Gleece Require Import Base.Bytes Model.Conflicts.
From Coq Require Import String.
Definition E v p := {| e_path := p; e_verb := v |}.
Definition agrees (c : nat * list entry * list obs) : bool :=
  let '(_, es, o) := c in mset_eqb obs_eqb (find_conflicts_obs es) o.
Definition holds (c : nat * list entry * list obs) : bool :=
  let '(_, es, o) := c in prop_C15 es (map fst o).
Definition cid (c : nat * list entry * list obs) : nat := fst (fst c).
"""


def evaluate(cases, tag="cases"):
    """cases: list of entry lists.  Returns (impl outputs, ids where model<>impl, ids where the
    property oracle fails on the implementation's output, ids where impl output is not sorted)."""
    impl = implrun("conflicts", [strip(c) for c in cases])
    disagree, propfail = [], []
    SH = 400
    for lo in range(0, len(cases), SH):
        chunk = range(lo, min(lo + SH, len(cases)))
        body = HEADER + "Definition cases : list (nat * list entry * list obs) :=\n " + \
            coq_list([coq_case(i, cases[i], impl[i]) for i in chunk]).replace("; (", ";\n (") + ".\n" + \
            "Definition disagree := Eval vm_compute in map cid (filter (fun c => negb (agrees c)) cases).\n" \
            "Definition propfail := Eval vm_compute in map cid (filter (fun c => negb (holds c)) cases).\n" \
            "Print disagree.\nPrint propfail.\n"
        out = run_coq_file(PROP, "%s_%d" % (tag, lo), body)
        disagree += parse_nat_list(out, "disagree")
        propfail += parse_nat_list(out, "propfail")
    unsorted = []
    for i, o in enumerate(impl):
        keys = [(x["a_path"].encode(), x["b_path"].encode(), x["reason"].encode()) for x in o]
        if keys != sorted(keys):
            unsorted.append(i)
    return impl, disagree, propfail, unsorted


def shrink(case, pred):
    """Greedy removal of entries while pred(case) stays true."""
    cur = list(case)
    changed = True
    while changed and len(cur) > 1:
        changed = False
        for k in range(len(cur)):
            cand = cur[:k] + cur[k + 1:]
            if pred(cand):
                cur = cand
                changed = True
                break
    return cur


def permutations_of(rng, case, k):
    out = []
    for _ in range(k):
        p = list(case)
        rng.shuffle(p)
        out.append(p)
    return out


def nontrivial(case, impl):
    return len(impl) > 0


def main():
    a, seed = args_for(PROP)
    res = Result(PROP, a.tier, seed)
    rng = random.Random(seed)
    build_coq()
    build_harness()
    proof_coverage(PROP, res)

    cases = []
    corpus_file = os.path.join(CORPUS, "C15.json")
    if os.path.exists(corpus_file):
        cases += [[dict(e, _segs=[]) for e in c] for c in json.load(open(corpus_file))]
    if a.replay:
        rp = json.load(open(a.replay))
        cases = [[dict(e, _segs=[]) for e in rp["input"]]]
        n = 0
    else:
        n = 300 if a.tier == "quick" else 6000
    ncorpus = len(cases)
    for _ in range(n):
        c = gen_case(rng)
        cases.append(c)
        cases += permutations_of(rng, c, 1 if a.tier == "quick" else 3)

    impl, disagree, propfail, unsorted = evaluate(cases)

    def fails_prop(c):
        return bool(evaluate([c], "shrink")[2])

    def fails_agree(c):
        return bool(evaluate([c], "shrink")[1])

    for i in propfail[:3]:
        small = shrink(cases[i], fails_prop)
        o = implrun("conflicts", [strip(small)])[0]
        res.violation({"kind": "property-fails-on-implementation", "input": strip(small),
                       "implementation_output": o,
                       "claim": "prop_C15: every reported pair is two distinct same-verb overlapping entries, "
                                "and every offending entry is named by some conflict"})
    if not propfail and disagree:
        # the model no longer describes the code: look harder for a failing input
        extra = [gen_case(rng) for _ in range(3000)]
        _, _, pf2, _ = evaluate(extra, "widen")
        if pf2:
            small = shrink(extra[pf2[0]], fails_prop)
            res.violation({"kind": "property-fails-on-implementation", "input": strip(small),
                           "implementation_output": implrun("conflicts", [strip(small)])[0]})
        else:
            small = shrink(cases[disagree[0]], fails_agree)
            res.violation({"kind": "correspondence", "obligation": "corr:Conflicts.find_conflicts_obs",
                           "input": strip(small),
                           "implementation_output": implrun("conflicts", [strip(small)])[0],
                           "note": "model and implementation disagree; property oracle found no failing input "
                                   "in %d + 3000 cases" % len(cases)}, no_input=True)
    if unsorted and not res.violations:
        res.violation({"kind": "correspondence", "obligation": "corr:inPlaceSortConflicts",
                       "input": strip(cases[unsorted[0]]), "implementation_output": impl[unsorted[0]]},
                      no_input=True)

    distinct = set()
    for c, o in zip(cases, impl):
        if nontrivial(c, o):
            distinct.add(json.dumps(strip(c), sort_keys=True))
    sizes = {}
    for c in cases:
        sizes[len(c)] = sizes.get(len(c), 0) + 1
    kinds = {"Dup": 0, "ParVsLit": 0, "ParVsPar": 0, "LitVsPar": 0}
    for o in impl:
        for x in o:
            r = x["reason"]
            k = "Dup" if r.startswith("dup") else "LitVsPar" if r.startswith("literal") else \
                "ParVsLit" if "with literal" in r else "ParVsPar"
            kinds[k] += 1
    res.coverage.update({
        "evaluations": len(cases), "distinct_nontrivial": len(distinct),
        "rule": "seeded route lists (1-8 entries, depth<=4, 3 literals + 2 parameter names + odd brace "
                "segments, 3 verbs, slash spellings, duplicates over-represented), each also under "
                "random permutations; non-trivial = the implementation reports at least one conflict; "
                "distinct = distinct (path, verb) lists",
        "samples": [{"input": strip(cases[i]), "implementation": impl[i]} for i in range(ncorpus, min(len(cases), ncorpus + 3))],
        "traces_validated_against_impl": len(cases) - len(disagree),
        "disagreements": len(disagree), "property_oracle_failures": len(propfail),
        "input_distribution": {"entries_per_list": sizes, "conflict_kinds_reported": kinds,
                               "corpus_cases": ncorpus},
    })
    res.assumptions += [
        "fmt %q is modelled for strings without quote, backslash and non-printable bytes (the generator's alphabet)",
        "order among conflicts with equal sort keys follows Go map iteration; conflicts are compared as multisets",
    ]
    sys.exit(res.finish())


if __name__ == "__main__":
    main()
