#!/usr/bin/env python3
"""C15 - route-conflict detection flags exactly the overlapping same-verb routes."""
import concurrent.futures
import json
import os
import random
import sys

sys.path.insert(0, os.path.dirname(os.path.abspath(__file__)))
from common import *  # noqa
import c15pipe as PL

PROP = "C15"
LITS = ["a", "b", "c"]
PARAMS = ["{x}", "{y}"]
ODD = ["{x", "x}", "{}", "{", "}", "a{x}", "{x}a", "ab"]
VERBS = ["GET", "POST", "PUT"]
# literals for star-shaped lists (one route that overlaps with many same-verb routes)
WORDS = ["health", "version", "metrics", "status", "ping", "ready", "live", "info", "config", "docs",
         "items", "users", "posts", "d", "e", "f", "g", "h", "i", "j", "k", "l", "m", "n", "o", "p",
         "q", "r", "t", "u", "v", "w", "z", "aa", "bb", "cc", "dd", "ee", "ff", "gg", "hh", "ii"]


def render_path(rng, segs):
    """Concrete spelling of a template: optional leading slash, doubled slashes, trailing slash."""
    if not segs:
        return rng.choice(["", "/", "//"])
    sep = lambda: "/" if rng.random() < 0.85 else rng.choice(["//", "///"])
    out = "" if rng.random() < 0.2 else sep()
    out += segs[0]
    for sg in segs[1:]:
        out += sep() + sg
    if rng.random() < 0.15:
        out += sep()
    return out


def gen_segs(rng):
    depth = rng.choice([0, 1, 1, 2, 2, 2, 3, 3, 4])
    out = []
    for _ in range(depth):
        r = rng.random()
        if r < 0.5:
            out.append(rng.choice(LITS))
        elif r < 0.92:
            out.append(rng.choice(PARAMS))
        else:
            out.append(rng.choice(ODD))
    return out


def gen_star(rng):
    """One route (the centre: a parameter at one position) that overlaps with MANY same-verb routes
    (the leaves: distinct literals at that position), in a context of shared segments; the centre is
    usually discovered after its leaves.  A conflict is only ever reported by the entry inserted
    second, so this is the shape on which per-route limits of any kind show."""
    verb = rng.choice(VERBS[:2])
    depth = rng.choice([1, 1, 1, 2, 2, 3])
    pos = rng.randrange(depth)
    base = [rng.choice(LITS + PARAMS) for _ in range(depth)]
    centre = list(base)
    centre[pos] = rng.choice(PARAMS)
    r = rng.random()
    k = rng.randint(9, 13) if r < 0.75 else rng.randint(17, 24) if r < 0.96 else rng.randint(33, 40)
    entries = []
    for lit in rng.sample(WORDS, k):
        sg = list(base)
        sg[pos] = lit
        for q in range(depth):
            if q != pos and rng.random() < 0.2:
                sg[q] = rng.choice(PARAMS)
        entries.append({"path": render_path(rng, sg), "verb": verb, "_segs": sg})
    for _ in range(rng.choice([0, 0, 1, 2, 3])):       # bystanders: other verb, other depth, anything
        if rng.random() < 0.5:
            sg = list(centre)
            v = rng.choice([x for x in VERBS if x != verb])
        else:
            sg = gen_segs(rng)
            v = rng.choice(VERBS)
        entries.insert(rng.randint(0, len(entries)), {"path": render_path(rng, sg), "verb": v, "_segs": sg})
    c = {"path": render_path(rng, centre), "verb": verb, "_segs": centre}
    r = rng.random()
    entries.insert(len(entries) if r < 0.55 else 0 if r < 0.7 else rng.randint(0, len(entries)), c)
    return entries


def gen_case(rng):
    if rng.random() < 0.12:
        return gen_star(rng)
    n = rng.randint(1, 8)
    entries = []
    while len(entries) < n:
        r = rng.random()
        if entries and r < 0.30:        # duplicate an earlier entry (same or other verb, same or other spelling)
            base = rng.choice(entries)
            segs = base["_segs"]
            verb = base["verb"] if rng.random() < 0.7 else rng.choice(VERBS)
            path = base["path"] if rng.random() < 0.6 else render_path(rng, segs)
        elif entries and r < 0.45:      # mutate one segment of an earlier entry
            base = rng.choice(entries)
            segs = list(base["_segs"])
            if segs:
                k = rng.randrange(len(segs))
                segs[k] = rng.choice(LITS + PARAMS)
            verb = base["verb"]
            path = render_path(rng, segs)
        else:
            segs = gen_segs(rng)
            verb = rng.choice(VERBS[:2]) if rng.random() < 0.85 else VERBS[2]
            path = render_path(rng, segs)
        entries.append({"path": path, "verb": verb, "_segs": segs})
    return entries


def strip(entries):
    return [{"path": e["path"], "verb": e["verb"]} for e in entries]


def coq_case(cid, entries, impl):
    es = coq_list(["E %s %s" % (coq_bytes(e["verb"]), coq_bytes(e["path"])) for e in entries])
    obs = coq_list(["(%d, %d, %s)" % (o["a"], o["b"], coq_bytes(o["reason"])) for o in impl])
    return "(%d, %s, %s)" % (cid, es, obs)


HEADER = """From Gleece Require Import Base.Bytes Model.Conflicts.
From Coq Require Import String.
Definition E v p := {| e_path := p; e_verb := v |}.
Definition agrees (c : nat * list entry * list obs) : bool :=
  let '(_, es, o) := c in mset_eqb obs_eqb (find_conflicts_obs es) o.
Definition holds (c : nat * list entry * list obs) : bool :=
  let '(_, es, o) := c in prop_C15 es (map fst o).
Definition cid (c : nat * list entry * list obs) : nat := fst (fst c).
"""


def evaluate(cases, tag="cases"):
    """cases: list of entry lists.  Returns (impl outputs, ids where model<>impl, ids where the
    property oracle fails on the implementation's output, ids where impl output is not sorted)."""
    impl = implrun("conflicts", [strip(c) for c in cases])
    disagree, propfail = [], []
    SH = 400

    def one_chunk(lo):
        chunk = range(lo, min(lo + SH, len(cases)))
        body = HEADER + "Definition cases : list (nat * list entry * list obs) :=\n " + \
            coq_list([coq_case(i, cases[i], impl[i]) for i in chunk]).replace("; (", ";\n (") + ".\n" + \
            "Definition disagree := Eval vm_compute in map cid (filter (fun c => negb (agrees c)) cases).\n" \
            "Definition propfail := Eval vm_compute in map cid (filter (fun c => negb (holds c)) cases).\n" \
            "Print disagree.\nPrint propfail.\n"
        out = run_coq_file(PROP, "%s_%d" % (tag, lo), body)
        return parse_nat_list(out, "disagree"), parse_nat_list(out, "propfail")

    los = list(range(0, len(cases), SH))
    with concurrent.futures.ThreadPoolExecutor(max_workers=4 if len(los) > 8 else 2) as ex:
        for d, pf in ex.map(one_chunk, los):
            disagree += d
            propfail += pf
    unsorted = []
    for i, o in enumerate(impl):
        keys = [(x["a_path"].encode(), x["b_path"].encode(), x["reason"].encode()) for x in o]
        if keys != sorted(keys):
            unsorted.append(i)
    return impl, disagree, propfail, unsorted


def shrink(case, pred):
    """Greedy removal of entries while pred(case) stays true."""
    cur = list(case)
    changed = True
    while changed and len(cur) > 1:
        changed = False
        for k in range(len(cur)):
            cand = cur[:k] + cur[k + 1:]
            if pred(cand):
                cur = cand
                changed = True
                break
    return cur


def permutations_of(rng, case, k):
    out = []
    for _ in range(k):
        p = list(case)
        rng.shuffle(p)
        out.append(p)
    return out


def nontrivial(case, impl):
    return len(impl) > 0


def pipeline_leg(a, seed, res, replay_project=None):
    """The warnings pipeline.Validate() attaches (api.validator.go), see c15pipe.py."""
    rng = random.Random(seed * 7919 + 15)
    if replay_project is not None:
        projects = [replay_project]
    else:
        projects = PL.gen_projects(rng, 24 if a.tier == "quick" else 240)
    work = os.path.join(WORK, "c15pipe")
    results = PL.evaluate(projects, work)

    def wrong(r):
        return bool(r["ob"]["stray"]) or not r["holds"]

    def still_wrong(cands):
        rs = PL.evaluate(cands, os.path.join(WORK, "c15pipe_shrink"), "pipe_shrink")
        return [("failed" not in r["ob"]) and wrong(r) for r in rs]

    nviol = 0
    corr = None
    for pr, r in zip(projects, results):
        ob = r["ob"]
        if "failed" in ob:
            if nviol < 2:
                res.violation({"kind": "pipeline-fails-on-valid-project", "input": {"pipeline_project": pr},
                               "implementation_output": ob["failed"]})
            nviol += 1
        elif wrong(r):
            if nviol < 2:
                small = PL.shrink(pr, still_wrong) if nviol == 0 else pr          # the first one is minimised
                sr = PL.evaluate([small], work + "_final", "pipe_final")[0]
                res.violation({"kind": "pipeline-property-fails-on-implementation", "input": {"pipeline_project": small},
                               "implementation_output": PL.describe(small, sr),
                               "claim": "prop_C15_pipeline: a method carries a route-conflict warning exactly when its mounted "
                                        "route (controller prefix + method route) overlaps with the mounted route of another "
                                        "same-verb method (each offending method receives a warning)"})
            nviol += 1
        elif not r["agrees_warn"] and corr is None:
            corr = ("corr:Conflicts.warned_methods (one warning for either end of every conflict)", pr, r)
        elif not r["agrees_conf"] and corr is None:
            corr = ("corr:Conflicts.find_conflicts_obs (entries of the pipeline)", pr, r)
    if corr is not None and not res.violations:
        res.violation({"kind": "correspondence", "obligation": corr[0], "input": {"pipeline_project": corr[1]},
                       "implementation_output": PL.describe(corr[1], corr[2]),
                       "note": "model and implementation disagree on the warnings; the property oracle accepts the "
                               "implementation's warnings on all %d projects" % len(projects)}, no_input=True)

    kinds, nmeth, nwarn, coinc, warned_projects, maxfan, multi = {}, 0, 0, 0, 0, 0, 0
    nhidden, hidden_warned, deep_ctl = 0, 0, 0
    other = sum(1 for r in results if "failed" not in r["ob"] and r["ob"]["other_diags"] and r["ob"]["warned"])
    for pr, r in zip(projects, results):
        kinds[pr["kind"]] = kinds.get(pr["kind"], 0) + 1
        ob = r["ob"]
        if "failed" in ob:
            continue
        nmeth += len(ob["methods"])
        nwarn += len(ob["warned"])
        coinc += ob["coincident_positions"]
        warned_projects += 1 if ob["warned"] else 0
        multi += 1 if len(set(m["prefix"] for m in ob["methods"])) > 1 else 0
        for k in set(ob["warned"]):
            maxfan = max(maxfan, ob["warned"].count(k))
            hidden_warned += 1 if ob["methods"][k]["hidden"] else 0
        nhidden += sum(1 for m in ob["methods"] if m["hidden"])
        for c in pr["controllers"]:
            d = len([x for x in c["prefix"].split("/") if x])
            ones = sum(1 for m in c["methods"] if len([x for x in m["route"].split("/") if x]) == 1)
            deep_ctl += 1 if d >= 3 and ones >= 2 else 0
    return {
        "projects": len(projects), "project_kinds": kinds, "methods": nmeth, "route_conflict_warnings": nwarn,
        "projects_with_warnings": warned_projects, "projects_with_different_controller_prefixes": multi,
        "route_value_positions_shared_by_methods_of_different_files": coinc,
        "max_warnings_on_one_method": maxfan,
        "hidden_methods": nhidden, "hidden_methods_warned": hidden_warned,
        "controllers_mounted_3_or_more_segments_deep_with_2_or_more_one_segment_methods": deep_ctl,
        "projects_with_conflict_warnings_and_other_diagnostics": other,
        "warnings_agree_with_model": sum(1 for r in results if r["agrees_warn"]),
        "sample": [{"project": projects[i], "observed": PL.describe(projects[i], results[i])} for i in range(min(1, len(projects)))],
    }


def main():
    a, seed = args_for(PROP)
    res = Result(PROP, a.tier, seed)
    rng = random.Random(seed)
    build_coq()
    build_harness()
    proof_coverage(PROP, res)

    cases = []
    corpus_file = os.path.join(CORPUS, "C15.json")
    if os.path.exists(corpus_file):
        cases += [[dict(e, _segs=[]) for e in c] for c in json.load(open(corpus_file))]
    replay_project = None
    if a.replay:
        rp = json.load(open(a.replay))
        if isinstance(rp["input"], dict):          # a replay of the pipeline leg
            replay_project = rp["input"]["pipeline_project"]
            cases = []
        else:
            cases = [[dict(e, _segs=[]) for e in rp["input"]]]
        n = 0
    else:
        n = 300 if a.tier == "quick" else 6000
    ncorpus = len(cases)
    for _ in range(n):
        c = gen_case(rng)
        cases.append(c)
        # thorough: three permutations of the short lists, one of the star-shaped ones (their cost in Coq is quadratic)
        cases += permutations_of(rng, c, 1 if a.tier == "quick" or len(c) > 8 else 3)

    impl, disagree, propfail, unsorted = evaluate(cases)

    def fails_prop(c):
        return bool(evaluate([c], "shrink")[2])

    def fails_agree(c):
        return bool(evaluate([c], "shrink")[1])

    for i in propfail[:3]:
        small = shrink(cases[i], fails_prop)
        o = implrun("conflicts", [strip(small)])[0]
        res.violation({"kind": "property-fails-on-implementation", "input": strip(small),
                       "implementation_output": o,
                       "claim": "prop_C15: every reported pair is two distinct same-verb overlapping entries, "
                                "and every offending entry is named by some conflict"})
    if not propfail and disagree:
        # the model no longer describes the code: look harder for a failing input
        extra = [gen_case(rng) for _ in range(3000)]
        _, _, pf2, _ = evaluate(extra, "widen")
        if pf2:
            small = shrink(extra[pf2[0]], fails_prop)
            res.violation({"kind": "property-fails-on-implementation", "input": strip(small),
                           "implementation_output": implrun("conflicts", [strip(small)])[0]})
        else:
            small = shrink(cases[disagree[0]], fails_agree)
            res.violation({"kind": "correspondence", "obligation": "corr:Conflicts.find_conflicts_obs",
                           "input": strip(small),
                           "implementation_output": implrun("conflicts", [strip(small)])[0],
                           "note": "model and implementation disagree; property oracle found no failing input "
                                   "in %d + 3000 cases" % len(cases)}, no_input=True)
    if unsorted and not res.violations:
        res.violation({"kind": "correspondence", "obligation": "corr:inPlaceSortConflicts",
                       "input": strip(cases[unsorted[0]]), "implementation_output": impl[unsorted[0]]},
                      no_input=True)

    pipe_cov = {}
    if replay_project is not None or not a.replay:
        pipe_cov = pipeline_leg(a, seed, res, replay_project)

    distinct = set()
    for c, o in zip(cases, impl):
        if nontrivial(c, o):
            distinct.add(json.dumps(strip(c), sort_keys=True))
    sizes = {}
    for c in cases:
        sizes[len(c)] = sizes.get(len(c), 0) + 1
    kinds = {"Dup": 0, "ParVsLit": 0, "ParVsPar": 0, "LitVsPar": 0}
    maxfan = 0
    for o in impl:
        cnt = {}
        for x in o:
            for k in (x["a"], x["b"]):
                cnt[k] = cnt.get(k, 0) + 1
        maxfan = max([maxfan] + list(cnt.values()))
    for o in impl:
        for x in o:
            r = x["reason"]
            k = "Dup" if r.startswith("dup") else "LitVsPar" if r.startswith("literal") else \
                "ParVsLit" if "with literal" in r else "ParVsPar"
            kinds[k] += 1
    res.coverage.update({
        "evaluations": len(cases), "distinct_nontrivial": len(distinct),
        "rule": "seeded route lists (1-8 entries, depth<=4, 3 literals + 2 parameter names + odd brace "
                "segments, 3 verbs, slash spellings, duplicates over-represented; 12% star-shaped lists: one "
                "route overlapping 9-40 same-verb routes, usually discovered after them), each also under "
                "random permutations; non-trivial = the implementation reports at least one conflict; "
                "distinct = distinct (path, verb) lists.  Pipeline leg: rendered projects (controllers written "
                "from one skeleton one per file, same-file controls, files / packages, stars, controllers mounted 2-7 "
                "segments deep with several one-segment methods and an overlapping route under a shorter mount "
                "point, @Hidden methods on one or both ends of an overlap) through "
                "pipeline.Validate(), warned methods vs model and vs the mounted-route oracle",
        "samples": [{"input": strip(cases[i]), "implementation": impl[i]} for i in range(ncorpus, min(len(cases), ncorpus + 3))],
        "traces_validated_against_impl": len(cases) - len(disagree),
        "disagreements": len(disagree), "property_oracle_failures": len(propfail),
        "input_distribution": {"entries_per_list": sizes, "conflict_kinds_reported": kinds,
                               "corpus_cases": ncorpus, "star_lists_max_conflicts_on_one_entry": maxfan},
        "pipeline_leg": pipe_cov,
    })
    res.assumptions += [
        "fmt %q is modelled for strings without quote, backslash and non-printable bytes (the generator's alphabet)",
        "order among conflicts with equal sort keys follows Go map iteration; conflicts are compared as multisets",
        "pipeline leg: a warning is attributed to the method named by its (controller entity, receiver entity, file); "
        "projects keep controller names distinct across packages (same-named controllers receive each other's methods: "
        "finding F13)",
    ]
    sys.exit(res.finish())


if __name__ == "__main__":
    main()
