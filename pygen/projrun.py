"""Render a batch of abstract projects, run the real CLI on each (both OpenAPI versions),
collect observations."""
import os
import shutil

from common import *  # noqa
import project as P
import specobs

VERSIONS = ["3.0.0", "3.1.0"]


def run_batch(prop, projects, versions=VERSIONS, cmd="spec", engine=None, keep=False):
    """Returns list (per project) of dict version -> {exit, out, spec (parsed json or None), ops, dir}."""
    build_cli()
    moddir = os.path.join(WORK, prop, "mod")
    shutil.rmtree(moddir, ignore_errors=True)
    P.make_module(moddir)
    jobs, index = [], []
    for k, p in enumerate(projects):
        root = os.path.join(moddir, "p%d" % k)
        modpath = "verifproj/p%d" % k
        P.render_project(p, root, modpath)
        for v in versions:
            cfgname = P.render_config(p, root, modpath, openapi=v, engine=engine)
            jobs.append({"dir": root, "args": ["generate", cmd, "-c", cfgname]})
            index.append((k, v))
    results = P.run_cli_many(jobs)
    out = [dict() for _ in projects]
    for (k, v), r in zip(index, results):
        root = os.path.join(moddir, "p%d" % k)
        spec = P.load_json(os.path.join(root, "dist", "spec-%s.json" % v))
        r = dict(r)
        r["spec"] = spec
        r["ops"] = specobs.doc_obs(spec)
        r["dir"] = root
        out[k][v] = r
    if not keep:
        pass  # caller removes WORK/prop when done (replay files copy what they need)
    return out


def cleanup(prop):
    shutil.rmtree(os.path.join(WORK, prop), ignore_errors=True)
