#!/usr/bin/env python3
"""C01 - OpenAPI operations are exactly the non-hidden annotated routes."""
import os
import sys
sys.path.insert(0, os.path.dirname(os.path.abspath(__file__)))
import speccheck

SPEC = {"eqb": "op_eqb_c01", "extra_imports": "",
        "oracle": "(fun p o => match o with Some d => prop_C01 p d | None => true end)"}

if __name__ == "__main__":
    res = speccheck.run(
        "C01", SPEC, {"security": True, "params": True, "multipkg": True}, 24, 200,
        rule="seeded abstract projects (1-4 controllers in 1-2 packages, 0-4 methods each, five verbs, route "
             "templates with/without leading, trailing and doubled slashes and {params}, hidden/deprecated "
             "mixes), rendered to Go sources and run through the real CLI for OpenAPI 3.0.0 and 3.1.0; "
             "non-trivial = at least one operation emitted; distinct = distinct abstract projects",
        assumptions=["go/packages discovery and kin-openapi/libopenapi rendering are exercised, not modelled",
                     "controller struct names are unique within a generated project (see F13)"],
        nontrivial=lambda p, ops: bool(ops))
    sys.exit(res.finish())
