#!/usr/bin/env python3
"""C01 - OpenAPI operations are exactly the non-hidden annotated routes."""
import os
import re
import sys
sys.path.insert(0, os.path.dirname(os.path.abspath(__file__)))
import speccheck

SPEC = {"eqb": "op_eqb_c01", "extra_imports": "",
        "oracle": "(fun p o => match o with Some d => prop_C01 p d | None => true end)"}

def meth(name, verb, route, hidden=False, deprecated=False):
    return {"name": name, "verb": verb, "route": route, "hidden": hidden, "deprecated": deprecated, "security": [],
            "params": [], "ret": None, "errtype": "error", "response": None, "errors": [], "descr": "", "file": 0}


def same_named_controllers(rng):
    """F13 (known finding): two controllers with the same struct name in two packages."""
    return [{
        "config": {"schemes": ["sec1"], "default_security": None, "enforce": False, "engine": "gin", "title": "API",
                   "version": "1", "base_url": "https://a.example.com"},
        "controllers": [
            {"name": "ItemsCtl", "pkg": "ctl", "tag": "Items", "route": "/items", "security": [], "descr": "",
             "methods": [meth("ListItems", "GET", "/list")]},
            {"name": "ItemsCtl", "pkg": "ctlb", "tag": "Other", "route": "/other", "security": [], "descr": "",
             "methods": [meth("DeepOther", "GET", "/deep")]}],
        "types": ["Item"]}]


def slash_joints(rng):
    """Every way a controller prefix and a method route can meet: prefix with / without a trailing slash x method route
    with / without a leading slash (a relative method route continues the prefix's last segment when the prefix does
    not end in a slash), with literals and with a path parameter at the joint."""
    pid = {"name": "id", "ctx": False, "loc": "path", "alias": None, "type": "string", "pointer": False, "validator": None,
           "slice": False}
    ctrls = []
    for i, prefix in enumerate(["/users/", "/orders", "/api/v1/", ""]):
        ms = [meth("L%dList" % i, "GET", "list"), meth("L%dAll" % i, "GET", "/all"), meth("L%dRoot" % i, "POST", "/")]
        byid = meth("L%dById" % i, "GET", "{id}" if prefix.endswith("/") else "/{id}")
        byid["params"] = [dict(pid)]
        ms.append(byid)
        if prefix == "":
            ms = [m for m in ms if m["route"].startswith("/")]
        ctrls.append({"name": "JCtl%d" % i, "pkg": "ctl", "tag": "J%d" % i, "route": prefix, "security": [], "descr": "",
                      "methods": ms})
    return [{"config": {"schemes": ["sec1"], "default_security": None, "enforce": False, "engine": "gin", "title": "API",
                        "version": "1", "base_url": "https://a.example.com"}, "controllers": ctrls, "types": ["Item"]}]


def controller_shapes(rng):
    """One controller of every declaration shape the renderer knows, each with a visible, a hidden and a deprecated method."""
    ctrls = []
    for i, shape in enumerate(["deprecated_doc", "fields_before_embed", "grouped_decl", "bare", "plain"]):
        bare = shape == "bare"
        ctrls.append({"name": "SCtl%d" % i, "pkg": "ctl" if i % 2 == 0 else "ctlb", "tag": None if bare else "S%d" % i,
                      "route": "" if bare else "/s%d" % i, "security": [], "descr": "" if bare else "Shape %s" % shape,
                      "shape": shape,
                      "methods": [meth("S%dVis" % i, "GET", "/s%dvis" % i), meth("S%dHid" % i, "POST", "/s%dhid" % i, hidden=True),
                                  meth("S%dDep" % i, "DELETE", "/s%ddep" % i, deprecated=True)]})
    return [{"config": {"schemes": ["sec1"], "default_security": None, "enforce": False, "engine": "gin", "title": "API",
                        "version": "1", "base_url": "https://a.example.com"}, "controllers": ctrls, "types": ["Item"]}]


def known_f13(project, obs):
    import common
    names = [c["name"] for c in project["controllers"]]
    if len(set(names)) == len(names):
        return None
    for f in common.known_for("C01"):
        if f.get("match", {}).get("kind") == "same-named-controllers-in-two-packages":
            leak = re.findall(r'operations "([^"]+)" and "([^"]+)" have the same operation id', obs["out"])
            return (f, "controllers %s share a struct name: each receives the other's methods (%s)" % (
                sorted(set(n for n in names if names.count(n) > 1)),
                ("spec refused: %s and %s carry one operationId" % leak[0]) if leak else
                sorted(set((o["path"], o["tags"][0] if o["tags"] else "") for o in (obs["ops"] or [])))))
    return None


if __name__ == "__main__":
    res = speccheck.run(
        "C01", SPEC, {"security": True, "params": True, "multipkg": True, "nested_pkg": True, "broken_pkg": True}, 24, 200,
        rule="seeded abstract projects (1-4 controllers in 1-2 packages, 0-4 methods each, five verbs, route "
             "templates with/without leading, trailing and doubled slashes and {params}, hidden/deprecated "
             "mixes), rendered to Go sources and run through the real CLI for OpenAPI 3.0.0 and 3.1.0; "
             "non-trivial = at least one operation emitted; distinct = distinct abstract projects",
        assumptions=["go/packages discovery and kin-openapi/libopenapi rendering are exercised, not modelled",
                     "controller struct names are unique within a generated project (see F13)"],
        nontrivial=lambda p, ops: bool(ops), extra_cases=lambda rng: same_named_controllers(rng) + slash_joints(rng) + controller_shapes(rng),
        known_matcher=known_f13)
    sys.exit(res.finish())
