"""Absolute leg for the compiled routers: every engine's observation of a request is compared
with the engine-independent handler model `Handler.handle` (coq/Model/Handler.v) evaluated by
vm_compute on the same abstract project, request and script.

    verdicts = judge_cases(prop, projects, cases)     # one dict per case

A case is what c12.run_projects builds (project index, controller, method, request, script,
tags["values"], raw outcomes per engine).  Returned per case:
    {"code": 0 all observed engines refine the model | 1 not modelled | 2 some engine differs |
             3 route not found (harness bug),
     "deviating": [engines that do not refine the model]}
"""
import json

from common import *  # noqa
import project as P

ENGINES = ["gin", "echo", "mux", "chi", "fiber"]
INT_TYPES = {"int", "int8", "int16", "int32", "int64"}
UINT_TYPES = {"uint", "uint8", "uint16", "uint32", "uint64"}

BODY_STATE = {"valid": "good", "unicode": "good", "missing": "empty", "malformed": "bad", "illtyped": "bad",
              "norequired": "bad", "null": "bad", "trailing": "bad", "twodocs": "bad", "whitespace": "bad"}


def canon_json(v):
    return json.dumps(v, sort_keys=True, ensure_ascii=False, separators=(",", ":"))


def wire(prm):
    return prm["alias"] or prm["name"]


def coq_value(ty, a):
    if ty == "string" and isinstance(a, str):
        return "(VStr %s)" % coq_bytes(a)
    if ty in INT_TYPES and isinstance(a, int) and not isinstance(a, bool):
        return "(VInt (%d)%%Z)" % a
    if ty in UINT_TYPES and isinstance(a, int) and not isinstance(a, bool) and a >= 0:
        return "(VUint %d%%N)" % a
    if ty == "bool" and isinstance(a, bool):
        return "(VBool %s)" % coq_bool(a)
    return "(VStr %s)" % coq_bytes("<undecodable:%s>" % canon_json(a))


def coq_arg(prm, a):
    if prm["ctx"]:
        n = a.get("ctx") if isinstance(a, dict) else "?"
        if n is None:
            return "(ACtx None)"
        if isinstance(n, int):
            return "(ACtx (Some %d%%N))" % n
        return "(AVal (Some (VStr %s)))" % coq_bytes("<undecodable-ctx:%s>" % canon_json(a))
    if prm["loc"] == "body":
        return "(ABody None)" if a is None else "(ABody (Some %s))" % coq_bytes(canon_json(a))
    if prm.get("slice"):
        if a is None:
            return "(AList [])"
        if isinstance(a, list):
            return "(AList %s)" % coq_list([coq_value(prm["type"], x) for x in a])
        return "(AVal (Some (VStr %s)))" % coq_bytes("<undecodable-list:%s>" % canon_json(a))
    if a is None:
        return "(AVal None)"
    return "(AVal (Some %s))" % coq_value(prm["type"], a)


def coq_observation(method, raw):
    if raw.get("panic") is not None:
        return "(mkObs 0%N [] [] None)"
    auth = []
    for x in raw["auth"]:
        v = x["verdict"]
        st = "None" if v == "approve" else "(Some %d%%N)" % int(v.split(":")[1])
        auth.append("(mkCheck %s %s, %s)" % (coq_bytes(x["scheme"]), coq_list([coq_bytes(z) for z in x["scopes"]]), st))
    calls = []
    for c in raw["calls"]:
        params = method["params"]
        if c["method"] == method["name"] and len(c["args"]) == len(params):
            args = [coq_arg(p, a) for p, a in zip(params, c["args"])]
        else:
            args = ["(AVal (Some (VStr %s)))" % coq_bytes("<foreign:%s>" % canon_json(a)) for a in c["args"]]
        calls.append("(%s, %s, %s)" % (coq_bytes(c["controller"]), coq_bytes(c["method"]), coq_list(args)))
    rejected = "None"
    if raw["status"] == 422 and raw.get("body_is_json") and isinstance(raw.get("body_json"), dict):
        import re
        mo = re.search(r"parameter '([^']*)'", str(raw["body_json"].get("detail", "")))
        if mo:
            rejected = "(Some %s)" % coq_bytes(mo.group(1))
    return "(mkObs %d%%N %s %s %s)" % (raw["status"], coq_list(auth), coq_list(calls), rejected)


def coq_table(script):
    rows = []
    for k, r in (script.get("refuse") or {}).items():
        if k == "*":
            key = "KAll"
        elif k.startswith("#"):
            key = "(KNth %d)" % int(k[1:])
        elif "#" in k:
            sc, n = k.rsplit("#", 1)
            key = "(KSchemeNth %s %d)" % (coq_bytes(sc), int(n))
        else:
            key = "(KScheme %s)" % coq_bytes(k)
        rows.append("(%s, mkRefusal %d%%N %s)" % (key, r.get("status") or 401, coq_bytes(r.get("message", ""))))
    return coq_list(rows)


def coq_opscript(script, mname):
    ms = script.get(mname) or {}
    st = ms.get("status")
    return "(mkOp %s %s)" % (coq_bool(bool(ms.get("fail"))), "None" if not st else "(Some %d%%N)" % st)


def script_modelled(script, mname):
    for k, v in script.items():
        if k == "refuse":
            continue
        if k != mname or any(x not in ("fail", "status", "headers") for x in v):
            return False
    return True


def coq_request(method, case):
    rq, values = case["request"], case["tags"].get("values") or {}
    fields = []
    for prm in method["params"]:
        if not prm["ctx"] and prm["loc"] == "path":
            v = values.get(prm["name"])
            if isinstance(v, list):
                v = v[0] if v else ""
            fields.append(("LPath", wire(prm), [v or ""]))
    for locname, key in (("LQuery", "query"), ("LHeader", "headers"), ("LForm", "form")):
        grouped, order = {}, []
        for (k, v) in (rq.get(key) or []):
            if k not in grouped:
                grouped[k] = []
                order.append(k)
            grouped[k].append(v)
        for k in order:
            fields.append((locname, k, grouped[k]))
    st = "BEmpty"
    if any((not p["ctx"]) and p["loc"] == "body" for p in method["params"]):
        label = case["label"]
        kind = label[5:].split("+")[0] if label.startswith("body-") else ("malformed" if label.startswith("double-fault:") else "valid")
        cls = BODY_STATE.get(kind, "unknown")
        if kind == "null" and any((not p["ctx"]) and p["loc"] == "body" and p["type"].startswith("[]") for p in method["params"]):
            cls = "unknown"      # JSON null decodes to a nil slice: whether that passes is the validator's business
        if rq.get("body") is None:
            st = "BEmpty"
        elif cls == "good":
            st = "(BGood %s)" % coq_bytes(canon_json(json.loads(rq["body"])))
        elif cls == "bad":
            st = "BBad"
        else:
            st = "BUnknown"
    return "(mkReq %s %s)" % (
        coq_list(["(%s, %s, %s)" % (l, coq_bytes(n), coq_list([coq_bytes(x) for x in vs])) for (l, n, vs) in fields]), st)


def judge_cases(prop, projects, cases, tag="handler", shard=300):
    """Returns one verdict dict per case (see module docstring)."""
    verdicts = [None] * len(cases)
    todo = []
    for i, case in enumerate(cases):
        p = projects[case["project"]]
        ctl = [c for c in p["controllers"] if c["name"] == case["controller"]]
        meth = [m for c in ctl for m in c["methods"] if m["name"] == case["method"]]
        if len(ctl) != 1 or len(meth) != 1 or not script_modelled(case["script"], case["method"]):
            verdicts[i] = {"code": 1, "deviating": [], "why": "script or addressing outside the model"}
            continue
        todo.append((i, ctl[0], meth[0]))
    import concurrent.futures

    def run_shard(lo):
        part = todo[lo:lo + shard]
        used = sorted(set(cases[i]["project"] for (i, _, _) in part))
        defs = ["Definition p%d : project := %s." % (k, P.coq_project(projects[k])) for k in used]
        rows = []
        for (i, c, m) in part:
            case = cases[i]
            engines = [e for e in ENGINES if e in case["raw"]]
            rows.append("(%d%%nat, judge_detail p%d %s %s %s %s %s %s\n    %s)" % (
                i, case["project"], coq_bytes(c["pkg"]), coq_bytes(c["name"]), coq_bytes(m["name"]),
                coq_table(case["script"]), coq_opscript(case["script"], m["name"]), coq_request(m, case),
                coq_list([coq_observation(m, case["raw"][e]) for e in engines])))
        body = ("From Gleece Require Import Base.Bytes Model.Project Model.Spec Model.Security Model.Bind Model.Handler.\n"
                "From Coq Require Import String List NArith ZArith.\nImport ListNotations.\nOpen Scope list_scope.\n" +
                "\n".join(defs) + "\n"
                "Definition verdicts : list (nat * (nat * list bool)) := Eval vm_compute in [\n" + ";\n".join(rows) + "].\n"
                "Definition notfine := Eval vm_compute in filter (fun v => negb (Nat.eqb (fst (snd v)) 0)) verdicts.\n"
                "Print notfine.\n")
        out = run_coq_file(prop, "%s_%d" % (tag, lo), body, timeout=1200)
        parsed = parse_notfine(out)
        if parsed is None:
            raise RuntimeError("handler model evaluation failed:\n" + out[-2000:])
        return part, parsed

    with concurrent.futures.ThreadPoolExecutor(max_workers=8) as ex:
        for part, parsed in ex.map(run_shard, range(0, len(todo), shard)):
            for (i, c, m) in part:
                engines = [e for e in ENGINES if e in cases[i]["raw"]]
                if i in parsed:
                    code, flags = parsed[i]
                    verdicts[i] = {"code": code, "deviating": [e for e, ok in zip(engines, flags) if not ok]}
                else:
                    verdicts[i] = {"code": 0, "deviating": []}
    return verdicts


def parse_notfine(out):
    """Parses `notfine = [(12, (2, [true; false; ...])); ...] : list ...`."""
    import re
    m = re.search(r"notfine\s*=\s*(.*?)\s*:\s*list", out, re.S)
    if not m:
        return None
    text = m.group(1)
    res = {}
    for mm in re.finditer(r"\((\d+)(?:%nat)?,\s*\((\d+)(?:%nat)?,\s*\[([^\]]*)\]\)\)", text):
        flags = [x.strip() == "true" for x in mm.group(3).split(";") if x.strip()]
        res[int(mm.group(1))] = (int(mm.group(2)), flags)
    return res


def handler_leg(res, prop, projects, rows, describe_extra=None):
    """Shared absolute leg for checks that drive the compiled routers request by request (c03, c05).
    rows: list of dict(key, project, controller, method, label, tags, request, script, engine, raw).
    Groups the rows per abstract request, evaluates Handler.judge, and reports every request on which
    the observed routers do not refine the model (outside C12's listed divergent classes) as a broken
    correspondence.  Returns a statistics dict for the evidence."""
    import c12 as C12
    cases, index = [], {}
    for r in rows:
        k = json.dumps(r["key"], sort_keys=True, default=str)
        if k not in index:
            index[k] = len(cases)
            cases.append({"project": r["project"], "controller": r["controller"], "method": r["method"],
                          "label": r["label"], "tags": r["tags"], "request": r["request"], "script": r["script"],
                          "raw": {}, "template_class": "clean", "project_template_classes": ["clean"]})
        cases[index[k]]["raw"][r["engine"]] = r["raw"]
    verdicts = judge_cases(prop, projects, cases, tag="handler")
    c12_kinds = set(f.get("match", {}).get("kind") for f in known_for("C12"))
    stats = {"requests": len(cases), "refined_by_all_engines": 0, "outside_modelled_fragment": 0,
             "differs_in_listed_divergent_class": 0, "differs_unexplained": 0}
    reported = 0
    for case, v in zip(cases, verdicts):
        if v["code"] == 0:
            stats["refined_by_all_engines"] += 1
            continue
        if v["code"] == 1:
            stats["outside_modelled_fragment"] += 1
            continue
        case["outcomes"] = {e: C12.canon_outcome(case["raw"][e]) if e in case["raw"] else {"body": ""} for e in ENGINES}
        classes = C12.deviation_class(case)
        if any(c in c12_kinds for c in classes):
            stats["differs_in_listed_divergent_class"] += 1
            continue
        stats["differs_unexplained"] += 1
        if reported < 2:
            reported += 1
            p = projects[case["project"]]
            small = C12.minimal_project(p, case)
            res.violation({"kind": "handler-model-correspondence",
                           "obligation": "Handler.judge = 0: every compiled router refines Handler.handle on the request",
                           "input": {"project": small, "label": case["label"]}, "request": case["request"],
                           "script": case["script"], "engines_not_refining": v["deviating"],
                           "observed": {e: {"status": o["status"], "calls": o["calls"], "auth": o["auth"]}
                                        for e, o in case["raw"].items()},
                           "note": "status / authorization record / controller call with decoded arguments differ from the "
                                   "model of the generated handler"}, no_input=True)
    return stats
