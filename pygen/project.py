"""Abstract gleece projects: generator, renderer to Go sources + gleece.config.json,
Coq term printer, and a parallel runner for the real CLI (DESIGN.md section 2)."""
import concurrent.futures
import json
import re
import os
import shutil
import signal
import subprocess
import tempfile
import time

from common import *  # noqa

VERBS = ["GET", "POST", "PUT", "DELETE", "PATCH"]
PRIMS = ["string", "int", "int64", "uint32", "bool", "float64", "int8", "uint"]
LOCS = ["path", "query", "header", "form", "body"]
ANN = {"path": "Path", "query": "Query", "header": "Header", "form": "FormField", "body": "Body"}


# ------------------------------------------------------------------ generator

def gen_security(rng, schemes, allow_undeclared=False):
    k = rng.choice([0, 0, 1, 1, 2, 3])
    out = []
    for _ in range(k):
        if allow_undeclared and rng.random() < 0.15:
            base = rng.choice(schemes)
            name = rng.choice(["ghost", base.upper(), base.capitalize(), base + "x", base[:-1]])
        else:
            name = rng.choice(schemes)
        if out and rng.random() < 0.3:          # repeat an earlier alternative, same or look-alike scopes
            prev = rng.choice(out)
            name = prev["name"]
            scopes = rng.choice([list(prev["scopes"]), [" ".join(prev["scopes"])] if prev["scopes"] else [],
                                 list(reversed(prev["scopes"]))])
        else:
            scopes = rng.choice([[], [], ["read"], ["read", "write"], ["b", "a"], ["read", "read"],
                                 ["support agent"], ["support", "agent"], ["orders:read&write"], ["amount<1000", "x>y"],
                                 ["tenant's"]])
        out.append({"name": name, "scopes": list(scopes)})
    return out


def gen_route_template(rng, nparams_max=2, allow_empty=False):
    """Returns (template text, list of parameter names in it)."""
    segs, params = [], []
    depth = rng.choice([1, 1, 2, 2, 3])
    pool = ["a", "b", "c", "items", "x1", "v-2", "u_s"]
    for _ in range(depth):
        if len(params) < nparams_max and rng.random() < 0.35:
            name = "p%d" % len(params) if rng.random() < 0.8 else rng.choice(["id", "key"]) + str(len(params))
            params.append(name)
            segs.append("{" + name + "}")
        else:
            segs.append(rng.choice(pool))
    sep = lambda: "/" if rng.random() < 0.85 else "//"
    if allow_empty and rng.random() < 0.12:
        return "/", []
    t = sep() if rng.random() < 0.9 else ""
    t += segs[0]
    for sg in segs[1:]:
        t += sep() + sg
    if rng.random() < 0.15:
        t += sep()
    return t, params


def gen_method(rng, idx, cfg, opts):
    schemes = cfg["schemes"]
    verb = rng.choice(VERBS)
    route, pnames = gen_route_template(rng, 2 if opts.get("params", True) else 0, allow_empty=opts.get("root_routes", False))
    params = []
    if opts.get("params", True):
        if rng.random() < 0.3:
            params.append({"name": "ctx", "ctx": True, "loc": None, "alias": None, "type": "context.Context",
                           "pointer": False, "validator": None, "slice": False})
        for pn in pnames:
            alias = None
            params.append({"name": pn, "ctx": False, "loc": "path", "alias": alias,
                           "type": rng.choice(["string", "int", "int64", "uint32"]), "pointer": False,
                           "validator": rng.choice([None, None, "required", "gt=1"]) , "slice": False})
        nextra = rng.choice([0, 0, 1, 1, 2, 3])
        has_body = False
        has_form = False
        for k in range(nextra):
            loc = rng.choice(["query", "query", "header", "form", "body"])
            if loc == "body" and (has_body or has_form or verb == "GET"):
                loc = "query"
            if loc == "form" and (has_body or verb == "GET"):
                loc = "header"
            name = "q%d" % k
            p = {"name": name, "ctx": False, "loc": loc, "alias": None, "pointer": rng.random() < 0.4,
                 "validator": None, "slice": False}
            if loc == "body":
                has_body = True
                p["type"] = "Item"
                p["validator"] = rng.choice([None, "required"])
                if opts.get("elem_pointers") and rng.random() < 0.5:
                    # the body is one JSON array: []Item, []*Item, *[]Item, *[]*Item (requiredness is the PARAMETER's)
                    p["slice"] = True
                    p["elem_pointer"] = rng.random() < 0.6
            else:
                if loc == "form":
                    has_form = True
                p["type"] = rng.choice(PRIMS) if rng.random() < 0.5 else "string"
                if opts.get("enums") and rng.random() < 0.35:
                    p["type"] = rng.choice(ENUMS)
                    p["validator"] = None
                if opts.get("local_types") and loc == "query" and rng.random() < 0.3:
                    p["type"] = "LocalPrio"          # an enum declared in the controller's own file
                    p["validator"] = None
                if rng.random() < 0.4:
                    p["alias"] = rng.choice(["X-" + name, name + "_w", name.upper()])
                p["validator"] = rng.choice([None, None, "required", "gte=0"]) if p["type"] not in ("string", "bool") \
                    else rng.choice([None, None, "required"])
                if opts.get("reserved_headers") and loc == "header" and rng.random() < 0.5:
                    # header names the OpenAPI text singles out; a declared @Header parameter is documented all the same
                    p["alias"] = rng.choice(["Authorization", "Accept", "content-type", "AUTHORIZATION"])
                if opts.get("dive_validators") and loc == "query" and rng.random() < 0.3:
                    # a slice whose ELEMENTS are validated: the rules after `dive` are the elements', requiredness is the slice's
                    p["slice"] = True
                    p["pointer"] = False
                    p["validator"] = rng.choice(["dive,gte=1", "unique,dive,gte=0", "min=1,dive"]) if p["type"] not in ("string", "bool") \
                        else ("unique,dive,alphanum" if p["type"] == "string" else "min=1,dive")
                if opts.get("blank_validators") and p["type"] == "string" and rng.random() < 0.4:
                    # a rule whose parameter contains blanks (the valid value "abc" is one of the options)
                    p["validator"] = rng.choice(["oneof=abc xyz", "required,oneof=abc def ghi", "oneof='abc' 'x y'"])
                if loc == "query" and rng.random() < 0.15:
                    p["slice"] = True
                    p["pointer"] = False
                if opts.get("elem_pointers") and loc == "query":
                    if not p["slice"] and rng.random() < 0.2:
                        p["slice"] = True
                        p["pointer"] = False
                    if p["slice"] and rng.random() < 0.6:
                        p["elem_pointer"] = True          # []*T: elements by address, the parameter itself by value
            if loc != "body" and params and rng.random() < 0.2:
                other = rng.choice(params)
                if not other["ctx"] and other["loc"] != loc and other["loc"] != "body":
                    p["alias"] = other["alias"] or other["name"]
            params.append(p)
    ret = rng.choice([None, "string", "int", "Item", "*Item"]) if opts.get("types", True) else rng.choice([None, "string"])
    if opts.get("generics") and ret is not None and rng.random() < 0.3:
        ret = rng.choice(["Page[string]", "Page[int]", "*Page[string]"])
    if opts.get("local_types"):
        if ret in ("Item", "*Item") and rng.random() < 0.5:
            ret = ret.replace("Item", "LocalDto")
        for prm in params:
            if prm["loc"] == "body" and rng.random() < 0.5:
                prm["type"] = "LocalDto"
    errors = []
    for code in rng.sample([400, 404, 409, 500, 503, 304, 205], rng.choice([0, 0, 1, 2])):
        errors.append({"code": code, "descr": rng.choice(["", "bad", "not found here"])})
    if errors and rng.random() < 0.2:
        errors.append({"code": errors[0]["code"], "descr": "again"})
    response = None
    if rng.random() < 0.25:
        response = {"code": rng.choice([200, 201, 202, 204, 205] if ret else [204, 202, 200]),
                    "descr": rng.choice(["", "all good"])}
    return {
        "name": "M%d%s" % (idx, rng.choice(["Get", "Put", "Do", "List"])),
        "verb": verb, "route": route, "hidden": rng.random() < 0.2, "deprecated": rng.random() < 0.2,
        "security": gen_security(rng, schemes, opts.get("undeclared", False)) if opts.get("security", True) else [],
        "params": params, "ret": ret, "errtype": "error", "response": response, "errors": errors,
        "descr": rng.choice(["", "Does a thing", "Multi word description here"]), "file": 0,
        "grouped": rng.random() < 0.4,
        "hidden_form": rng.choice(["", "", "(internal)", " not for the public", "(ops-only) text"]),
        "deprecated_form": rng.choice(["", "", " use the other one"]),
        "template_context": rng.sample(["DEBUG", "MODE", "AUDIT", "TRACEID", "LIMITS"], rng.choice([0, 0, 0, 2, 3, 4]))
        if opts.get("template_context", True) else [],
    }


def gen_project(rng, opts=None):
    opts = opts or {}
    schemes = ["sec1", "sec2", "oauthy"][: rng.choice([1, 2, 3])]
    cfg = {
        "schemes": schemes,
        "default_security": rng.choice([None, {"name": rng.choice(schemes), "scopes": rng.choice([[], ["d"]])}])
        if opts.get("security", True) else None,
        "enforce": (rng.random() < 0.3) if opts.get("enforce", False) else False,
        "engine": rng.choice(["gin", "echo", "mux", "chi", "fiber"]),
        "title": rng.choice(["API", "My Title"]), "version": "1.2.3", "base_url": "https://api.example.com",
    }
    if opts.get("undeclared", False) and cfg["default_security"] and rng.random() < 0.1:
        cfg["default_security"]["name"] = "ghost"
    nctl = rng.choice([1, 1, 2, 2, 3, 4])
    controllers = []
    midx = 0
    for ci in range(nctl):
        nm = rng.choice([0, 1, 2, 2, 3, 4]) if ci else rng.choice([1, 2, 3, 4])
        nfiles = rng.choice([1, 1, 2, 3]) if opts.get("multifile", True) else 1
        methods = []
        for _ in range(nm):
            m = gen_method(rng, midx, cfg, opts)
            if methods and rng.random() < 0.3:
                # REST style: same template as a sibling, another verb (same path parameters)
                sib = rng.choice(methods)
                others = [v for v in VERBS if v != sib["verb"]]
                m["route"] = sib["route"]
                m["verb"] = rng.choice(others)
                m["params"] = [dict(x) for x in sib["params"] if x["loc"] == "path"] + \
                              [x for x in m["params"] if x["loc"] not in ("path",) and
                               not (m["verb"] == "GET" and x["loc"] in ("body", "form"))]
                names = set()
                uniq = []
                for x in m["params"]:
                    if x["name"] not in names:
                        names.add(x["name"])
                        uniq.append(x)
                m["params"] = uniq
            m["file"] = rng.randrange(nfiles)
            midx += 1
            methods.append(m)
        prefix = rng.choice(["", "/c%d" % ci, "/c%d/" % ci, "/api//c%d" % ci, "/shared"])
        if controllers and rng.random() < 0.3:
            # a read / write pair of controllers on one resource: same prefix, same method route, other verbs
            prev = rng.choice(controllers)
            prefix = prev["route"]
            for m in methods:
                if prev["methods"] and rng.random() < 0.6:
                    sib = rng.choice(prev["methods"])
                    taken = [x["verb"] for x in prev["methods"] + methods if x["route"] == sib["route"] and x is not m]
                    free = [v for v in VERBS if v not in taken]
                    if free:
                        m["route"] = sib["route"]
                        m["verb"] = rng.choice(free)
                        m["params"] = [dict(x) for x in sib["params"] if x["loc"] == "path"] + \
                                      [x for x in m["params"] if x["loc"] != "path" and
                                       not (m["verb"] == "GET" and x["loc"] in ("body", "form"))]
                        seen = set()
                        m["params"] = [x for x in m["params"] if not (x["name"] in seen or seen.add(x["name"]))]
        shape = "plain"
        if opts.get("ctl_shapes", True) and rng.random() < 0.4:
            shape = rng.choice(["deprecated_doc", "fields_before_embed", "grouped_decl", "bare"])
        controllers.append({
            "shape": shape,
            "name": "%sCtl%d" % (rng.choice(["B", "A", "Z"]), ci),
            # packages: ctl, its sibling ctlb and (option nested_pkg) ctl/inner, a package directory nested in another one
            "pkg": "ctl" if (ci % 2 == 0 or not opts.get("multipkg", True)) else
                   ("ctl/inner" if (opts.get("nested_pkg") and ci % 4 == 3) else "ctlb"),
            "tag": rng.choice(["Tag%d" % ci, "Shared Tag", "T"]), "route": prefix,
            "security": gen_security(rng, schemes, opts.get("undeclared", False)) if opts.get("security", True) else [],
            "descr": rng.choice(["", "Controller description"]), "methods": methods,
        })
    for c in controllers:
        if c["shape"] == "bare":
            # a controller struct without any comment: no tag, no route prefix, no security, no description
            c.update({"tag": None, "route": "", "security": [], "descr": ""})
        if c["shape"] == "grouped_decl" and c["tag"] is None:
            c["tag"] = "T"
    # package-local types get a per-package name (same-named types in two packages are finding F16)
    for c in controllers:
        local = "Local%sDto" % pkg_ident(c["pkg"])
        for m in c["methods"]:
            if m["ret"] and "LocalDto" in m["ret"]:
                m["ret"] = m["ret"].replace("LocalDto", local)
            for prm in m["params"]:
                if prm["type"] == "LocalDto":
                    prm["type"] = local
                if prm["type"] == "LocalPrio":
                    prm["type"] = "Local%sPrio" % pkg_ident(c["pkg"])
    if opts.get("custom_errors"):
        # methods returning a CUSTOM error (a struct embedding `error`, declared in the controller's package: one of
        # another package is refused, finding C10-error-type-of-another-package), by value or by address - one way per
        # error type and project; the routes of one controller mix `error` and the custom types
        style = {}
        for c in controllers:
            for m in c["methods"]:
                if rng.random() < 0.55:
                    m["errtype"] = custom_error_name(rng.choice(CUSTOM_ERRORS), c["pkg"])
                    m["custom_error"] = style.setdefault(m["errtype"], rng.choice(["value", "pointer"]))
                    if not m["errors"] and rng.random() < 0.6:
                        m["errors"] = [{"code": rng.choice([400, 404, 409, 500]), "descr": rng.choice(["", "bad"])}]
    out = {"config": cfg, "controllers": controllers, "types": ["Item"]}
    if opts.get("broken_pkg") and rng.random() < 0.2:
        # a file OUTSIDE the globs in the first controller package that does not type-check, with
        # commonConfig.allowPackageLoadFailures on: gleece warns and goes on; every annotated route is still there
        out["broken_pkg"] = True
    return out


def pkg_ident(pkg):
    """Identifier fragment for a package path (ctl/inner -> Ctlinner)."""
    return pkg.replace("/", "").capitalize()


# ------------------------------------------------------------------ renderer

def go_str(sv):
    return json.dumps(sv, ensure_ascii=False)


def sec_annotation(sc):
    if sc["scopes"]:
        return "// @Security(%s, {scopes:[%s]})" % (sc["name"], ", ".join(go_str(x) for x in sc["scopes"]))
    return "// @Security(%s)" % sc["name"]


def go_type(p):
    t = p["type"]
    if p.get("slice"):
        # "elem_pointer": a slice of POINTERS ([]*T), still a parameter passed by value
        t = ("[]*" if p.get("elem_pointer") else "[]") + t
    if p.get("pointer"):
        t = "*" + t
    return t


def zero_value(ret):
    if ret is None:
        return None
    if ret.startswith("*"):
        return "nil"
    return {"string": '""', "int": "0", "bool": "false"}.get(ret, ret + "{}")


ENUMS = ["Color", "Shade", "Tone", "Level"]
# custom error types (opt-in, method keys "errtype": <name> and "custom_error": "value" | "pointer"), declared in the
# controller's package under a per-package name (custom_error_name), in a file the globs do not match
CUSTOM_ERRORS = ["Failure", "Problem"]


def custom_error_name(kind, pkg):
    return "%s%s" % (kind, pkg_ident(pkg))


CUSTOM_ERROR_DECL = """
// A custom error: embeds error
type %s struct {
\terror
\t// A machine readable code
\tCode%s int `json:"code%s"`
}
"""
ENUM_DECLS = """
// Colours
type Color string

const (
	ColorRed  Color = "red"
	ColorBlue Color = "blue"
)

type Shade string

const (
	ShadeDark  Shade = "dark"
	ShadeLight Shade = "light"
)

type Tone string

const (
	ToneWarm Tone = "warm"
	ToneCold Tone = "cold"
)

type Level int

const (
	LevelLow  Level = 1
	LevelHigh Level = 2
)
"""


def render_method(c, m, types_pkg, method_body=None):
    lines = []
    if m["descr"]:
        lines.append("// " + m["descr"])
    lines.append("// @Method(%s)" % m["verb"])
    lines.append("// @Route(%s)" % m["route"])
    for p in m["params"]:
        if p["ctx"]:
            continue
        props = []
        if p["alias"]:
            props.append("name:%s" % go_str(p["alias"]))
        if p["validator"]:
            props.append("validate:%s" % go_str(p["validator"]))
        if props:
            lines.append("// @%s(%s, {%s})" % (ANN[p["loc"]], p["name"], ", ".join(props)))
        else:
            lines.append("// @%s(%s)" % (ANN[p["loc"]], p["name"]))
    if m["hidden"]:
        lines.append("// @Hidden" + m.get("hidden_form", ""))
    if m["deprecated"]:
        lines.append("// @Deprecated" + m.get("deprecated_form", ""))
    for sc in m["security"]:
        lines.append(sec_annotation(sc))
    for key in m.get("template_context", []):
        lines.append("// @TemplateContext(%s, {enabled: true, level: \"%s\"}) per-route template context" % (key, key.lower()))
    if m["response"]:
        lines.append(("// @Response(%d) %s" % (m["response"]["code"], m["response"]["descr"])).rstrip())
    for e in m["errors"]:
        lines.append(("// @ErrorResponse(%d) %s" % (e["code"], e["descr"])).rstrip())

    def qual(t):
        if not types_pkg:
            return t
        # every identifier that names a type of the types package, also inside Page[Item]
        # (checks declare further types named Item<Something> in the types package: ItemKind, ItemFull, ...)
        return re.sub(r"\b(Item\w*|Page|%s)\b" % "|".join(ENUMS), lambda mo: types_pkg + "." + mo.group(1), t)
    if m.get("groups"):
        # explicit field grouping: [[0, 1, 2], [3]] renders `a, b, c T, d T`
        ps = m["params"]
        sig = ", ".join("%s %s" % (", ".join(ps[i]["name"] for i in g), qual(go_type(ps[g[0]]))) for g in m["groups"])
    elif m.get("grouped"):
        parts, k = [], 0
        ps = m["params"]
        while k < len(ps):
            j = k
            while j + 1 < len(ps) and go_type(ps[j + 1]) == go_type(ps[k]):
                j += 1
            parts.append("%s %s" % (", ".join(x["name"] for x in ps[k:j + 1]), qual(go_type(ps[k]))))
            k = j + 1
        sig = ", ".join(parts)
    else:
        sig = ", ".join("%s %s" % (p["name"], qual(go_type(p))) for p in m["params"])
    et, ez = "error", "nil"
    if m.get("custom_error"):
        # a custom error type of the types package, returned by value or by address
        et = ("*" if m["custom_error"] == "pointer" else "") + m["errtype"]
        ez = "nil" if m["custom_error"] == "pointer" else m["errtype"] + "{}"
    if m["ret"]:
        rets = "(%s, %s)" % (qual(m["ret"]), et)
        z = zero_value(m["ret"])
        if z.endswith("{}"):
            z = qual(z)
        body = "return %s, %s" % (z, ez)
    else:
        rets = et
        body = "return " + ez
    lines.append("func (c *%s) %s(%s) %s {" % (c["name"], m["name"], sig, rets))
    if method_body:
        lines += ["\t" + l for l in method_body(c, m, qual)]
    else:
        lines.append("\t" + body)
    lines.append("}")
    return "\n".join(lines)


def render_project(p, root, modpath, method_body=None, extra_imports=None):
    """Writes the Go sources of the abstract project under root (a package directory tree inside the
    scratch module whose import path for root is modpath).  Returns nothing."""
    shutil.rmtree(root, ignore_errors=True)
    pkgs = sorted(set(c["pkg"] for c in p["controllers"]))
    os.makedirs(os.path.join(root, "types"), exist_ok=True)
    with open(os.path.join(root, "types", "types.go"), "w") as f:
        f.write("package types\n\n%s// An item\ntype Item struct {\n\t// The name\n\tName string `json:\"name\" validate:\"required\"`\n"
                "\tCount int `json:\"count\"`\n}\n" % ("import \"github.com/gopher-fleece/runtime\"\n\n" if p.get("ghost_controller") else ""))
        if any("Page[" in (m["ret"] or "") for c in p["controllers"] for m in c["methods"]):
            f.write("\n// A page of things\ntype Page[T any] struct {\n\tItems []T `json:\"items\"`\n\tTotal int `json:\"total\"`\n}\n")
        if p.get("ghost_controller"):
            # a controller (with a route) in a package the globs do NOT match (it is only loaded on demand, for its types):
            # never part of the API, whatever the analysis has loaded by the time it runs again
            f.write("\n// @Tag(Ghost)\n// @Route(/ghosttypes)\ntype GhostTypesCtl struct {\n\truntime.GleeceController\n}\n\n"
                    "// @Method(GET)\n// @Route(/boo)\nfunc (c *GhostTypesCtl) Boo() (string, error) {\n\treturn \"\", nil\n}\n")
        if any(prm["type"] in ENUMS for c in p["controllers"] for m in c["methods"] for prm in m["params"]):
            f.write(ENUM_DECLS)
            if p.get("dup_enum_values"):
                # two constants of one enum share a value (legal Go)
                f.write("\nconst ColorCrimson Color = \"red\"\n\nconst ToneMild, ToneBalmy Tone = \"warm\", \"warm\"\n")
            if p.get("split_enums"):
                # further constants of the same enums in ANOTHER file of the package
                with open(os.path.join(root, "types", "enums_more.go"), "w") as g:
                    g.write("package types\n\nconst (\n\tColorGreen Color = \"green\"\n\tColorAmber Color = \"amber\"\n)\n\n"
                            "const ShadeMid Shade = \"mid\"\n\nconst (\n\tToneNeutral Tone = \"neutral\"\n\tLevelMid Level = 3\n)\n")
                with open(os.path.join(root, "types", "a_enums_first.go"), "w") as g:
                    g.write("package types\n\nconst ColorAzure Color = \"azure\"\n\nconst LevelZero Level = 0\n")
    for pkg in pkgs:
        d = os.path.join(root, pkg)
        os.makedirs(d, exist_ok=True)
        files = {}
        for c in p["controllers"]:
            if c["pkg"] != pkg:
                continue
            stem = "all" if p.get("shared_files") else c["name"].lower()
            key = "%s_0.go" % stem
            lines = []
            shape = c.get("shape", "plain")
            if c["descr"]:
                lines.append("// " + c["descr"])
            if c["tag"] is not None:
                lines.append("// @Tag(%s)" % c["tag"])
            if c["route"]:
                lines.append("// @Route(%s)" % c["route"])
            for sc in c["security"]:
                lines.append(sec_annotation(sc))
            if shape == "deprecated_doc":
                lines.append("// @Deprecated the whole controller is on its way out")
            body = "struct {\n\truntime.GleeceController\n}"
            if shape == "fields_before_embed":
                body = "struct {\n\tlabel      string\n\tmaxResults int\n\truntime.GleeceController\n\tafter bool\n}"
            if shape == "grouped_decl":
                # a documented `type ( ... )` block: the block's comment belongs to the block, not to the member
                lines = ["// Declarations of this resource", "// @Tag(BlockTag)", "// @Route(/blockroute)",
                         "// @Security(%s, {scopes:[\"block\"]})" % p["config"]["schemes"][-1], "type ("] + \
                        ["\t" + l for l in lines] + ["\t%s %s" % (c["name"], body.replace("\n", "\n\t")), ")"]
            else:
                lines.append("type %s %s" % (c["name"], body))
            files.setdefault(key, []).append("\n".join(lines))
            for m in c["methods"]:
                mk = "%s_%d.go" % (stem, m["file"])
                files.setdefault(mk, []).append(render_method(c, m, "types", method_body))
            if p.get("half_annotated"):
                # methods that are NOT endpoints: only one of @Route / @Method
                files.setdefault(key, []).append(
                    "// @Route(/half-annotated)\nfunc (c *%s) HalfRouteOnly() error {\n\treturn nil\n}\n\n"
                    "// @Method(GET)\nfunc (c *%s) HalfMethodOnly() error {\n\treturn nil\n}" % (c["name"], c["name"]))
        local = "Local%sDto" % pkg_ident(pkg)
        if p.get("local_same") and any("LocalSameDto" in (m["ret"] or "") for c in p["controllers"] if c["pkg"] == pkg
                                        for m in c["methods"]):
            # the SAME type name declared in several packages, with different fields (a known collision, F16):
            # whatever gleece makes of it, it has to make the same thing of it on every run
            with open(os.path.join(d, "same.go"), "w") as f:
                f.write("package %s\n\n// Declared under the same name in another package too\ntype LocalSameDto struct {\n"
                        "\tOwner%s string `json:\"owner%s\"`\n\tRank int `json:\"rank\"`\n}\n"
                        % (os.path.basename(pkg), pkg_ident(pkg), pkg_ident(pkg).lower()))
        if any(local in (x.get("type") or "") for c in p["controllers"] if c["pkg"] == pkg for m in c["methods"]
               for x in m["params"]) or any(local in (m["ret"] or "") for c in p["controllers"] if c["pkg"] == pkg
                                            for m in c["methods"]):
            with open(os.path.join(d, "models.go"), "w") as f:
                ghost = ""
                if p.get("ghost_controller"):
                    # a controller (with a route) in a file the globs do NOT match: never part of the API, whatever
                    # the analysis has loaded on demand by the time it runs again
                    ghost = ("\n// @Tag(Ghost)\n// @Route(/ghost%s)\ntype Ghost%sCtl struct {\n\truntime.GleeceController\n}\n\n"
                             "// @Method(GET)\n// @Route(/boo)\nfunc (c *Ghost%sCtl) Boo() (string, error) {\n\treturn \"\", nil\n}\n"
                             % (pkg_ident(pkg).lower(), pkg_ident(pkg), pkg_ident(pkg)))
                f.write("package %s\n\n%s// A type declared next to the controllers, in a file the globs do not match\n"
                        "type %s struct {\n\tLabel string `json:\"label\"`\n\tRank int `json:\"rank\"`\n}\n%s"
                        % (os.path.basename(pkg), "import \"github.com/gopher-fleece/runtime\"\n\n" if ghost else "", local, ghost))
        cerrs = sorted(set(m["errtype"] for c in p["controllers"] if c["pkg"] == pkg for m in c["methods"] if m.get("custom_error")))
        if cerrs:
            with open(os.path.join(d, "errors.go"), "w") as f:
                f.write("package %s\n%s" % (os.path.basename(pkg), "".join(CUSTOM_ERROR_DECL % (en, en, en.lower()) for en in cerrs)))
        prio = "Local%sPrio" % pkg_ident(pkg)
        if files and any(prio == x.get("type") for c in p["controllers"] if c["pkg"] == pkg for m in c["methods"]
                         for x in m["params"]):
            first = sorted(k for k in files if k.endswith("_0.go"))[0]
            files[first].append("// A priority, declared next to the controllers\ntype %s string\n\nconst (\n\t%sHigh %s = \"high\"\n"
                                "\t%sLow  %s = \"low\"\n)" % (prio, prio, prio, prio, prio))
        if p.get("broken_pkg") and pkg == pkgs[0]:
            with open(os.path.join(d, "broken.go"), "w") as f:
                f.write("package %s\n\n// refers to generated code that is not there yet\nvar verifBuildInfo = verifUndefinedSymbol\n"
                        % os.path.basename(pkg))
        for fn, chunks in files.items():
            src = "\n\n".join(chunks)
            imports = []
            if "runtime." in src:
                imports.append('"github.com/gopher-fleece/runtime"')
            if "context." in src:
                imports.append('"context"')
            if "types." in src:
                imports.append('"%s/types"' % modpath)
            for imp, marker in (extra_imports or []):
                if marker in src:
                    imports.append(imp)
            with open(os.path.join(d, fn), "w") as f:
                f.write("package %s\n\nimport (\n%s\n)\n\n%s\n" % (os.path.basename(pkg), "\n".join("\t" + i for i in imports), src))


OAUTHY_FLOWS = {
    "authorizationCode": {"authorizationUrl": "https://auth.example.com/authorize", "tokenUrl": "https://auth.example.com/token",
                          "scopes": {"read": "read things", "write": "write things"}},
    "clientCredentials": {"tokenUrl": "https://auth.example.com/token", "scopes": {"admin": "administer"}},
}


def render_config(p, root, modpath, openapi="3.0.0", engine=None, extra=None):
    cfg = p["config"]
    schemes = [{"description": "scheme " + n, "name": n, "fieldName": "x-" + n, "type": "apiKey", "in": "header"}
               for n in cfg["schemes"]]
    for sc in schemes:
        if sc["name"] == "oauthy":
            # an OAuth2 scheme with two flows whose scope sets DIFFER (each flow documents its own scopes)
            sc.pop("fieldName"), sc.pop("in")
            sc.update({"type": "oauth2", "flows": OAUTHY_FLOWS})
    pkgs = sorted(set(c["pkg"] for c in p["controllers"]))
    conf = {
        # controller files are named <stem>_<k>.go; models.go (package-local types) is deliberately not matched
        "commonConfig": dict({"controllerGlobs": ["./%s/*_*.go" % g for g in pkgs]},
                             **({"allowPackageLoadFailures": True} if p.get("broken_pkg") else {})),
        "routesConfig": {
            "engine": engine or cfg["engine"], "outputPath": "./dist/routes.go", "outputFilePerms": "0644",
            "packageName": "routes", "skipGenerateDateComment": True,
            "authorizationConfig": {"authFileFullPackageName": modpath + "/auth",
                                    "enforceSecurityOnAllRoutes": bool(cfg["enforce"])},
        },
        "openapiGeneratorConfig": {
            "openapi": openapi,
            "info": {"title": cfg["title"], "version": cfg["version"]},
            "baseUrl": cfg["base_url"], "securitySchemes": schemes,
            "specGeneratorConfig": {"outputPath": "./dist/spec-%s.json" % openapi},
        },
    }
    if cfg["default_security"]:
        conf["openapiGeneratorConfig"]["defaultSecurity"] = cfg["default_security"]
    if extra:
        for k, v in extra.items():
            conf[k] = v
    name = "gleece-%s.json" % openapi
    with open(os.path.join(root, name), "w") as f:
        json.dump(conf, f, indent=1)
    return name


# ------------------------------------------------------------------ scratch module + CLI runs

def make_module(moddir):
    os.makedirs(moddir, exist_ok=True)
    with open(os.path.join(moddir, "go.mod"), "w") as f:
        f.write("module verifproj\n\ngo 1.24.7\n\nrequire github.com/gopher-fleece/gleece/v2 v2.0.0\n"
                "require github.com/gopher-fleece/runtime v1.2.1\n\n"
                "replace github.com/gopher-fleece/gleece/v2 => %s\n" % REPO)
    shutil.copy(os.path.join(REPO, "go.sum"), os.path.join(moddir, "go.sum"))


CPU_HANG_S = 60        # CPU seconds (whole process tree) after which an unfinished run counts as a hang
WALL_HANG_S = 300      # wall seconds after which an unfinished run counts as a hang even though it burns no CPU
_CLK = os.sysconf("SC_CLK_TCK")


def _session_cpu(sid):
    """CPU seconds used so far by the processes of session [sid] (their reaped children included)."""
    ticks = 0
    for ent in os.listdir("/proc"):
        if not ent.isdigit():
            continue
        try:
            with open("/proc/%s/stat" % ent) as f:
                rest = f.read().rsplit(")", 1)[1].split()
        except (OSError, IndexError):
            continue
        # rest[0] is field 3 (state); session = field 6; utime, stime, cutime, cstime = fields 14..17
        if len(rest) > 14 and rest[3] == str(sid):
            ticks += sum(int(x) for x in rest[11:15])
    return ticks / _CLK


def _clean_out(out):
    k = out.find("[SYSTEM]")
    if k >= 0:
        out = out[max(0, out.rfind("\n", 0, k)):]
    return out


def run_cli_confirm(job):
    """The run again, judged by what it does rather than by a stop-watch: it counts as not terminating when its
    process tree has burnt CPU_HANG_S seconds of CPU (a machine under load slows the wall clock, not this one) or is
    still there after WALL_HANG_S seconds.  Returns the dict of run_cli_one plus cpu_s."""
    t0 = time.time()
    with tempfile.TemporaryFile() as fo:
        p = subprocess.Popen([os.path.join(BIN, "gleece"), *job["args"]], cwd=job["dir"], env=GOENV,
                             stdout=fo, stderr=subprocess.STDOUT, start_new_session=True)
        cpu, hung = 0.0, False
        while True:
            try:
                p.wait(timeout=0.5)
                break
            except subprocess.TimeoutExpired:
                pass
            cpu = max(cpu, _session_cpu(p.pid))
            if cpu >= job.get("cpu_hang_s", CPU_HANG_S) or time.time() - t0 >= job.get("wall_hang_s", WALL_HANG_S):
                hung = True
                try:
                    os.killpg(p.pid, signal.SIGKILL)
                except OSError:
                    pass
                p.wait()
                break
        fo.seek(0)
        out = fo.read().decode(errors="replace")
    if hung:
        return {"exit": -1, "out": out[-2000:], "wall": time.time() - t0, "timeout": True, "cpu_s": round(cpu, 1), "confirmed": True}
    return {"exit": p.returncode, "out": _clean_out(out), "wall": time.time() - t0, "timeout": False, "cpu_s": round(cpu, 1),
            "slow_first_attempt": True}


def run_cli_one(job):
    """job: dict(dir, args, timeout).  Returns dict(exit, out, wall, timeout).  A run that is not done within the
    timeout is killed and run once more under run_cli_confirm: only a run that burns CPU_HANG_S seconds of CPU without
    finishing (or sits there for WALL_HANG_S seconds) is reported as timed out - a loaded machine alone never is."""
    t0 = time.time()
    p = subprocess.Popen([os.path.join(BIN, "gleece"), *job["args"]], cwd=job["dir"], env=GOENV,
                         stdout=subprocess.PIPE, stderr=subprocess.STDOUT, start_new_session=True)
    try:
        stdout, _ = p.communicate(timeout=job.get("timeout", 120))
        return {"exit": p.returncode, "out": _clean_out(stdout.decode(errors="replace")), "wall": time.time() - t0, "timeout": False}
    except subprocess.TimeoutExpired:
        try:
            os.killpg(p.pid, signal.SIGKILL)
        except OSError:
            pass
        stdout, _ = p.communicate()
        if job.get("no_confirm"):
            return {"exit": -1, "out": (stdout or b"").decode(errors="replace")[-2000:], "wall": time.time() - t0,
                    "timeout": True}
        r = run_cli_confirm(job)
        r["wall"] = time.time() - t0
        return r


def run_cli_many(jobs, workers=16):
    with concurrent.futures.ThreadPoolExecutor(max_workers=workers) as ex:
        return list(ex.map(run_cli_one, jobs))


def load_json(path):
    try:
        with open(path) as f:
            return json.load(f)
    except (OSError, ValueError):
        return None


# ------------------------------------------------------------------ Coq printer

def coq_sec(sc):
    return "(mkSec %s %s)" % (coq_bytes(sc["name"]), coq_list([coq_bytes(x) for x in sc["scopes"]]))


def coq_loc(l):
    return {"path": "LPath", "query": "LQuery", "header": "LHeader", "form": "LForm", "body": "LBody", None: "LPath"}[l]


def coq_param(p):
    return "(mkParam %s %s %s %s %s %s %s %s)" % (
        coq_bytes(p["name"]), coq_bool(p["ctx"]), coq_loc(p["loc"]),
        coq_option(p["alias"], coq_bytes), coq_bytes(p["type"]), coq_bool(p["pointer"]), coq_bool(p.get("slice", False)),
        coq_option(p["validator"], coq_bytes))


def coq_method(m):
    return "(mkMethod %s %s %s %s %s %s %s %s %s %s %s %s)" % (
        coq_bytes(m["name"]), coq_bytes(m["verb"]), coq_bytes(m["route"]), coq_bool(m["hidden"]),
        coq_bool(m["deprecated"]), coq_list([coq_sec(x) for x in m["security"]]),
        coq_list([coq_param(x) for x in m["params"]]), coq_option(m["ret"], coq_bytes), coq_bytes(m["errtype"]),
        coq_option(m["response"], lambda r: "(%d%%N, %s)" % (r["code"], coq_bytes(r["descr"]))),
        coq_list(["(%d%%N, %s)" % (e["code"], coq_bytes(e["descr"])) for e in m["errors"]]),
        coq_bytes(m["descr"]))


def coq_controller(c):
    return "(mkController %s %s %s %s %s %s)" % (
        coq_bytes(c["name"]), coq_bytes(c["pkg"]), coq_bytes(c["tag"] or ""), coq_bytes(c["route"]),
        coq_list([coq_sec(x) for x in c["security"]]),
        # receivers are collected file by file (files in name order), then in declaration order
        "[" + ";\n     ".join(coq_method(m) for m in sorted(c["methods"], key=lambda m: m.get("file", 0))) + "]")


def coq_config(cfg):
    return "(mkConfig %s %s %s)" % (
        coq_list([coq_bytes(x) for x in cfg["schemes"]]),
        coq_option(cfg["default_security"], coq_sec), coq_bool(cfg["enforce"]))


def coq_project(p):
    return "(mkProject %s\n   [%s])" % (coq_config(p["config"]),
                                         ";\n    ".join(coq_controller(c) for c in p["controllers"]))
