#!/usr/bin/env python3
"""Regenerates MANIFEST.json from the table below (python3 pygen/manifest.py)."""
import json
import os

VERIF = os.path.dirname(os.path.dirname(os.path.abspath(__file__)))
BASE_CMD = json.load(open("/root/.vp/BASELINE.json"))["cmd"] if os.path.exists("/root/.vp/BASELINE.json") else ""

NOTE_COMMON = ("Trusted: Coq 8.16.1 kernel + vm_compute (no native_compute); no axioms (Print Assumptions "
               "reports every property theorem closed); the hand-written Gallina model is tied to /repo by "
               "the differential correspondence run of the same check (Go harness built from /repo's working "
               "tree with -tags verif, Python generators, Coq term printer). ")

CHECKS = {
    "C15": dict(
        category="proof",
        text="Rocq theorems over all finite route lists: the model of FindConflicts reports only distinct "
             "same-verb overlapping pairs and names every offending entry (C15_sound_complete, by a loop "
             "invariant over fold_left), overlap is exactly 'some concrete path matches both' "
             "(C15_overlap_spec), and the flagged entries are permutation-invariant (C15_perm). The model "
             "is tied to paths.FindConflicts by differential correspondence on seeded route lists "
             "(multiset of (A, B, reason text)); the property oracle prop_C15 (proved equivalent to the "
             "statement, C15_oracle_spec) is also evaluated on the implementation's own output. "
             "Pipeline level (api.validator.go): warning both ends of every conflict warns exactly the "
             "offending entries (C15_warned_exact, oracle C15_warned_oracle_spec); for every project the "
             "warned methods are exactly those whose mounted route (controller route + method route) "
             "overlaps another same-verb mounted route (C15_pipeline). Rendered projects (controllers "
             "written from one skeleton one per file, same-file controls, several files / packages, "
             "star-shaped route sets, controllers under different prefixes) go through the real "
             "pipeline.Validate(); the methods carrying a route-conflict warning are compared with the "
             "model and with the mounted-route oracle.",
        design_ref="DESIGN.md section 8 C15, appendix A.1",
        note=NOTE_COMMON + "Modelled not verified: fmt %q for strings with quote/backslash/non-printables; "
             "Go map iteration order (conflicts compared as multisets). Pipeline leg: controller names are "
             "distinct across packages (F13).",
        technique="Rocq proof (loop invariant, induction over the route list) + differential correspondence via vm_compute",
    ),
}

NOT_APPLICABLE = []

# per-property entries may also live in pygen/manifest.d/<id>.json (same keys as CHECKS values)
_d = os.path.join(VERIF, "pygen", "manifest.d")
if os.path.isdir(_d):
    for f in sorted(os.listdir(_d)):
        if f.endswith(".json"):
            CHECKS[f[:-5]] = json.load(open(os.path.join(_d, f)))


# properties whose check is finished and registered
ENABLED = [l.strip() for l in open(os.path.join(VERIF, "pygen", "enabled.txt")) if l.strip() and not l.startswith("#")]


def main():
    checks = []
    for pid in sorted(CHECKS):
        if pid not in ENABLED:
            continue
        c = CHECKS[pid]
        checks.append({
            "property_id": pid,
            "quick_cmd": "./check %s --tier quick" % pid,
            "thorough_cmd": "./check %s --tier thorough" % pid,
            "evidence_file": "/verif/evidence/%s.json" % pid,
            "replay_cmd_template": "./check %s --replay {path}" % pid,
            "level_claimed": {"category": c["category"], "text": c["text"], "design_ref": c["design_ref"]},
            "level_note": c["note"],
            "technique": c["technique"],
        })
    hooks_commits = []
    hc = os.path.join(VERIF, "hook_commits.txt")
    if os.path.exists(hc):
        hooks_commits = [l.split()[0] for l in open(hc) if l.strip()]
    m = {
        "version": 1,
        "setup_cmd": "cd /verif && ./setup.sh",
        "hooks": {"guard": "verif", "enable": "go build -tags verif", "baseline_off_cmd": BASE_CMD,
                  "source_commits": hooks_commits, "add_only": True},
        "checks": checks,
        "notes": "All checks: ./check <id> [--tier quick|thorough] [--replay file]; VERIF_SEED selects the PRNG seed. "
                 "Known findings: known_findings.json. See DESIGN.md.",
        "not_applicable": NOT_APPLICABLE + [
            {"property_id": "C%02d" % i,
             "reason": "not claimed yet: the check for this property is still under construction (the technique applies; see DESIGN.md section 8)"}
            for i in range(1, 21) if "C%02d" % i not in ENABLED and "C%02d" % i not in [n["property_id"] for n in NOT_APPLICABLE]],
    }
    json.dump(m, open(os.path.join(VERIF, "MANIFEST.json"), "w"), indent=1)


if __name__ == "__main__":
    main()
