"""Compiled-servers harness (DESIGN.md section 3.2, third row).

    h = build_servers(prop, projects, engines=ALL5, flags=None)
    results = h.run(requests)
    text = h.routes_source(k, engine)
    h.cleanup()

Every abstract project k (project.gen_project) is rendered into ONE scratch Go module
<WORK>/<prop>/mod as the package tree p<k>/... with *echoing controllers* (package verifproj/rec
records (controller, method, JSON of the arguments in signature order) and obeys the request
script), an instrumented authorization package per engine (p<k>/auth_<engine>), the real CLI
is run once per project x engine (`gleece generate routes -c gleece-<engine>.json`, outputPath
./routes_<engine>/routes.go, packageName routes<engine>), a driver main.go registers every
router in-process and executes a JSON request script read from stdin.

Request script (per request, key "script"):
    {"<MethodName>": {"fail": true, "status": 418, "headers": {"X-A": "b"}, "panic": true,
                      "invalid": true},
     "refuse": {"<scheme>": {"status": 401, "message": "no", "custom": <json>},
                "#<n>": {...}           # n-th authorization invocation of the request (0-based)
                "<scheme>#<n>": {...}   # n-th invocation for that scheme
                "*": {...}}}            # every invocation
Lookup order for a refusal: "#<n>", "<scheme>#<n>", "<scheme>", "*".
"""
import base64
import json
import os
import re
import shutil
import subprocess
import time
import urllib.parse

from common import *  # noqa
import project as P

ALL5 = ["gin", "echo", "mux", "chi", "fiber"]
MODNAME = "verifproj"

ENGINE_IMPORT = {
    "gin": '"github.com/gin-gonic/gin"',
    "echo": '"github.com/labstack/echo/v4"',
    "mux": '"github.com/gorilla/mux"',
    "chi": '"github.com/go-chi/chi/v5"',
    "fiber": '"github.com/gofiber/fiber/v2"',
}
ENGINE_CTX = {
    "gin": ("ginCtx *gin.Context", ENGINE_IMPORT["gin"]),
    "echo": ("echoCtx echo.Context", ENGINE_IMPORT["echo"]),
    "mux": ("req *http.Request", '"net/http"'),
    "chi": ("req *http.Request", '"net/http"'),
    "fiber": ("fiberCtx *fiber.Ctx", ENGINE_IMPORT["fiber"]),
}

REC_GO = r'''// Package rec is the global recorder and script interpreter shared by the echoing
// controllers and the instrumented authorization packages.
package rec

import (
	"context"
	"encoding/json"
	"fmt"
	"reflect"
	"strconv"
	"sync"

	"github.com/gopher-fleece/runtime"
)

type ctxKeyT string

const CtxKey ctxKeyT = "verif-auth-marker"

type Call struct {
	Controller string            `json:"controller"`
	Method     string            `json:"method"`
	Args       []json.RawMessage `json:"args"`
}

type Auth struct {
	Scheme  string   `json:"scheme"`
	Scopes  []string `json:"scopes"`
	Verdict string   `json:"verdict"`
}

type MethodScript struct {
	Fail    bool              `json:"fail"`
	Status  int               `json:"status"`
	Headers map[string]string `json:"headers"`
	Panic   bool              `json:"panic"`
	Invalid bool              `json:"invalid"`
}

type Refusal struct {
	Status  int             `json:"status"`
	Message string          `json:"message"`
	Custom  json.RawMessage `json:"custom"`
	NilCtx  bool            `json:"nil_ctx"` // the callback returns a nil context together with its refusal
}

var (
	mu      sync.Mutex
	calls   []Call
	auths   []Auth
	methods map[string]MethodScript
	refuse  map[string]Refusal
	perSch  map[string]int
)

// Reset installs the script of the next request and clears the records.
func Reset(script json.RawMessage) error {
	mu.Lock()
	defer mu.Unlock()
	calls, auths = nil, nil
	methods, refuse, perSch = map[string]MethodScript{}, map[string]Refusal{}, map[string]int{}
	if len(script) == 0 || string(script) == "null" {
		return nil
	}
	var top map[string]json.RawMessage
	if err := json.Unmarshal(script, &top); err != nil {
		return err
	}
	for k, v := range top {
		if k == "refuse" {
			if err := json.Unmarshal(v, &refuse); err != nil {
				return err
			}
			continue
		}
		var ms MethodScript
		if err := json.Unmarshal(v, &ms); err != nil {
			return err
		}
		methods[k] = ms
	}
	return nil
}

func Snapshot() ([]Call, []Auth) {
	mu.Lock()
	defer mu.Unlock()
	c, a := calls, auths
	if c == nil {
		c = []Call{}
	}
	if a == nil {
		a = []Auth{}
	}
	return c, a
}

// CtxArg is what an echoing controller records for a context.Context parameter: the marker
// the authorization callback left in the request context (null when there is none).
func CtxArg(ctx context.Context) any {
	if ctx == nil {
		return map[string]any{"ctx": "nil-context"}
	}
	return map[string]any{"ctx": ctx.Value(CtxKey)}
}

// Record stores one controller invocation and returns the method's script.
func Record(controller, method string, args ...any) MethodScript {
	mu.Lock()
	defer mu.Unlock()
	c := Call{Controller: controller, Method: method, Args: []json.RawMessage{}}
	for _, a := range args {
		b, err := json.Marshal(a)
		if err != nil {
			// e.g. NaN / Inf floats: record the printed (dereferenced) value instead
			b, _ = json.Marshal("!unmarshalable:" + fmt.Sprint(reflect.Indirect(reflect.ValueOf(a))))
		}
		c.Args = append(c.Args, b)
	}
	calls = append(calls, c)
	return methods[method]
}

// Authorize is the engine-independent body of GleeceRequestAuthorization.
func Authorize(ctx context.Context, check runtime.SecurityCheck) (context.Context, *runtime.SecurityError) {
	mu.Lock()
	defer mu.Unlock()
	n := len(auths)
	ns := perSch[check.SchemaName]
	perSch[check.SchemaName] = ns + 1
	scopes := check.Scopes
	if scopes == nil {
		scopes = []string{}
	}
	var ref *Refusal
	for _, key := range []string{"#" + strconv.Itoa(n), check.SchemaName + "#" + strconv.Itoa(ns), check.SchemaName, "*"} {
		if r, ok := refuse[key]; ok {
			ref = &r
			break
		}
	}
	if ctx == nil {
		ctx = context.Background()
	}
	out := context.WithValue(ctx, CtxKey, n+1)
	if ref == nil {
		auths = append(auths, Auth{Scheme: check.SchemaName, Scopes: scopes, Verdict: "approve"})
		return out, nil
	}
	status := ref.Status
	if status == 0 {
		status = 401
	}
	auths = append(auths, Auth{Scheme: check.SchemaName, Scopes: scopes, Verdict: "refuse:" + strconv.Itoa(status)})
	se := &runtime.SecurityError{Message: ref.Message, StatusCode: runtime.HttpStatusCode(status)}
	if len(ref.Custom) > 0 && string(ref.Custom) != "null" {
		var payload any
		if err := json.Unmarshal(ref.Custom, &payload); err == nil {
			se.CustomError = &runtime.CustomError{Payload: payload}
		}
	}
	if ref.NilCtx {
		return nil, se
	}
	return out, se
}
'''

MAIN_HEAD = r'''// Driver: registers every project x engine router in-process, executes the request script
// read from stdin sequentially, prints one JSON result per line.
package main

import (
	"bufio"
	"bytes"
	"encoding/base64"
	"encoding/json"
	"fmt"
	"io"
	"net/http"
	"net/http/httptest"
	"os"
	"strings"

	"github.com/gin-gonic/gin"
	"github.com/go-chi/chi/v5"
	"github.com/gofiber/fiber/v2"
	"github.com/gorilla/mux"
	"github.com/labstack/echo/v4"

	"verifproj/rec"
%(imports)s
)

var _ = gin.New
var _ = chi.NewRouter
var _ = fiber.New
var _ = mux.NewRouter
var _ = echo.New

type target struct {
	handler http.Handler
	app     *fiber.App
	regErr  string
}

var targets = map[string]*target{}
var fiberPanic string

type request struct {
	Target  string          `json:"target"`
	Method  string          `json:"method"`
	URL     string          `json:"url"`
	Headers [][2]string     `json:"headers"`
	Body    *string         `json:"body_b64"`
	Script  json.RawMessage `json:"script"`
}

type result struct {
	Status  int                 `json:"status"`
	Headers map[string][]string `json:"headers"`
	Body    string              `json:"body_b64"`
	Calls   []rec.Call          `json:"calls"`
	Auth    []rec.Auth          `json:"auth"`
	Panic   *string             `json:"panic"`
}

func guard(f func()) (msg string) {
	defer func() {
		if r := recover(); r != nil {
			msg = fmt.Sprint(r)
			if msg == "" {
				msg = "panic with empty message"
			}
		}
	}()
	f()
	return ""
}

func regHTTP(name string, mk func() http.Handler) {
	t := &target{}
	// an application may build more than one engine (a second listener, a fresh router per test): every router is
	// registered on two engine instances and the requests go to the SECOND one
	t.regErr = guard(func() { _ = mk(); t.handler = mk() })
	targets[name] = t
}

func regFiber(name string, reg func(*fiber.App)) {
	t := &target{}
	t.regErr = guard(func() {
		app := fiber.New(fiber.Config{DisableStartupMessage: true})
		app.Use(func(c *fiber.Ctx) (err error) {
			defer func() {
				if r := recover(); r != nil {
					fiberPanic = fmt.Sprint(r)
					err = fiber.ErrInternalServerError
				}
			}()
			return c.Next()
		})
		reg(fiber.New(fiber.Config{DisableStartupMessage: true}))   // first instance, discarded (see regHTTP)
		reg(app)
		t.app = app
	})
	targets[name] = t
}

func execute(rq request) (res result) {
	res.Headers = map[string][]string{}
	rec.Reset(nil)
	fail := func(s string) result {
		res.Panic = &s
		res.Calls, res.Auth = rec.Snapshot()
		return res
	}
	t := targets[rq.Target]
	if t == nil {
		return fail("driver: unknown target " + rq.Target)
	}
	if t.regErr != "" {
		return fail("registration: " + t.regErr)
	}
	if err := rec.Reset(rq.Script); err != nil {
		return fail("driver: bad script: " + err.Error())
	}
	var body io.Reader
	if rq.Body != nil {
		b, err := base64.StdEncoding.DecodeString(*rq.Body)
		if err != nil {
			return fail("driver: bad body: " + err.Error())
		}
		body = bytes.NewReader(b)
	}
	var req *http.Request
	if msg := guard(func() { req = httptest.NewRequest(rq.Method, rq.URL, body) }); msg != "" {
		return fail("driver: bad request: " + msg)
	}
	for _, h := range rq.Headers {
		if strings.HasPrefix(h[0], "=") {
			// "=Name": set the header map entry verbatim (no canonicalisation)
			req.Header[h[0][1:]] = append(req.Header[h[0][1:]], h[1])
		} else {
			req.Header.Add(h[0], h[1])
		}
	}
	if t.app != nil {
		fiberPanic = ""
		var resp *http.Response
		var err error
		if msg := guard(func() { resp, err = t.app.Test(req, -1) }); msg != "" {
			return fail(msg)
		}
		if err != nil {
			return fail("fiber app.Test: " + err.Error())
		}
		b, _ := io.ReadAll(resp.Body)
		resp.Body.Close()
		res.Status = resp.StatusCode
		res.Body = base64.StdEncoding.EncodeToString(b)
		for k, v := range resp.Header {
			res.Headers[strings.ToLower(k)] = v
		}
		if fiberPanic != "" {
			p := fiberPanic
			res.Panic = &p
		}
	} else {
		w := httptest.NewRecorder()
		if msg := guard(func() { t.handler.ServeHTTP(w, req) }); msg != "" {
			res.Panic = &msg
		}
		res.Status = w.Code
		res.Body = base64.StdEncoding.EncodeToString(w.Body.Bytes())
		for k, v := range w.Header() {
			res.Headers[strings.ToLower(k)] = v
		}
	}
	res.Calls, res.Auth = rec.Snapshot()
	return res
}

func main() {
	gin.SetMode(gin.ReleaseMode)
	register()
	reg := map[string]string{}
	for k, t := range targets {
		reg[k] = t.regErr
	}
	out := bufio.NewWriter(os.Stdout)
	defer out.Flush()
	enc := json.NewEncoder(out)
	enc.Encode(map[string]any{"registration": reg})
	data, err := io.ReadAll(os.Stdin)
	if err != nil {
		panic(err)
	}
	var reqs []request
	if len(bytes.TrimSpace(data)) > 0 {
		if err := json.Unmarshal(data, &reqs); err != nil {
			panic(err)
		}
	}
	for _, rq := range reqs {
		enc.Encode(execute(rq))
	}
}

func register() {
%(registrations)s
}
'''

REG_SNIPPET = {
    "gin": 'regHTTP("%(t)s", func() http.Handler { e := gin.New(); %(a)s.RegisterRoutes(e); return e })',
    "echo": 'regHTTP("%(t)s", func() http.Handler { e := echo.New(); %(a)s.RegisterRoutes(e); return e })',
    "mux": 'regHTTP("%(t)s", func() http.Handler { e := mux.NewRouter(); %(a)s.RegisterRoutes(e); return e })',
    "chi": 'regHTTP("%(t)s", func() http.Handler { e := chi.NewRouter(); %(a)s.RegisterRoutes(e); return e })',
    "fiber": 'regFiber("%(t)s", func(e *fiber.App) { %(a)s.RegisterRoutes(e) })',
}


# ------------------------------------------------------------------ echoing controllers

def return_value(ret, qual, mname, invalid=False):
    """Go expression of the deterministic value an echoing method returns."""
    if ret is None:
        return None
    base = ret.lstrip("*")
    if base == "string":
        v = go_quote("ok:" + mname)
    elif base in ("int", "int64", "int8", "uint", "uint32"):
        v = "7"
    elif base == "bool":
        v = "true"
    elif base == "float64":
        v = "1.5"
    elif base == "Item":
        v = qual("Item") + ('{Name: "", Count: 1}' if invalid else '{Name: "n", Count: 1}')
    elif base == "ItemKind":
        v = qual("ItemKind") + '("red")'
    elif base in ("ItemId", "Tag"):
        v = qual(base) + '("t")'
    else:
        v = qual(base) + "{}"
    if ret.startswith("*"):
        if base == "Item":
            return "&" + v
        return "func() %s { x := %s(%s); return &x }()" % (qual(ret), qual(base), v)
    return v


def zero_of(ret, qual):
    if ret is None:
        return None
    if ret.startswith("*"):
        return "nil"
    if ret == "string":
        return '""'
    if ret in ("int", "int64", "int8", "uint", "uint32", "float64"):
        return "0"
    if ret == "bool":
        return "false"
    if ret in ("ItemKind", "ItemId", "Tag"):
        return qual(ret) + '("")'
    return qual(ret) + "{}"


def go_quote(sv):
    return json.dumps(sv, ensure_ascii=True)


def echo_body(c, m, qual):
    args = []
    for p in m["params"]:
        args.append("rec.CtxArg(%s)" % p["name"] if p["ctx"] else p["name"])
    lines = ["sc := rec.Record(%s)" % ", ".join([go_quote(c["name"]), go_quote(m["name"])] + args),
             "if sc.Panic {", '\tpanic("scripted panic in %s")' % m["name"], "}",
             "if sc.Status != 0 {", "\tc.SetStatus(runtime.HttpStatusCode(sc.Status))", "}",
             "for hk, hv := range sc.Headers {", "\tc.SetHeader(hk, hv)", "}"]
    ret = m["ret"]
    if ret is None:
        lines += ["if sc.Fail {", '\treturn errors.New("boom")', "}", "return nil"]
    else:
        lines += ["if sc.Fail {", '\treturn %s, errors.New("boom")' % zero_of(ret, qual), "}"]
        if ret.lstrip("*") == "Item":
            lines += ["if sc.Invalid {", "\treturn %s, nil" % return_value(ret, qual, m["name"], True), "}"]
        lines.append("return %s, nil" % return_value(ret, qual, m["name"]))
    return lines


EXTRA_IMPORTS = [('"%s/rec"' % MODNAME, "rec."), ('"errors"', "errors.")]

EXTRA_TYPES_GO = """package types

// The kind of an item
type ItemKind string

const (
	ItemKindRed  ItemKind = "red"
	ItemKindBlue ItemKind = "blue"
)

// An identifier
type ItemId string
"""


# Types declared in the controller's OWN package (the renderer leaves these names unqualified):
# two controllers in ctl and ctlb then use different types of the same name from different packages.
LOCAL_TYPES = ("Dto", "Tag")
LOCAL_TYPES_GO = """package %s

// A package-local payload
type Dto struct {
	// The name
	Name string `json:"name"`
	N    int    `json:"n"`
}

// A package-local alias
type Tag string
"""


def uses_local_types(p, pkg):
    for c in p["controllers"]:
        if c["pkg"] != pkg:
            continue
        for m in c["methods"]:
            ts = [x["type"] for x in m["params"]] + [m["ret"] or ""]
            if any(t_.lstrip("*[]") in LOCAL_TYPES for t_ in ts):
                return True
    return False


def write_auth(root, engine):
    d = os.path.join(root, "auth_" + engine)
    os.makedirs(d, exist_ok=True)
    sig, imp = ENGINE_CTX[engine]
    with open(os.path.join(d, "auth.go"), "w") as f:
        f.write("package auth\n\nimport (\n\t\"context\"\n\n\t%s\n\t\"github.com/gopher-fleece/runtime\"\n\n"
                "\t\"%s/rec\"\n)\n\n"
                "func GleeceRequestAuthorization(ctx context.Context, %s, check runtime.SecurityCheck) "
                "(context.Context, *runtime.SecurityError) {\n\treturn rec.Authorize(ctx, check)\n}\n"
                % (imp, MODNAME, sig))


def engine_config(p, root, k, engine, flags):
    """gleece-<engine>.json for project k; returns the file name."""
    modpath = "%s/p%d" % (MODNAME, k)
    name = P.render_config(p, root, modpath, openapi="3.0.0", engine=engine)
    path = os.path.join(root, name)
    conf = json.load(open(path))
    os.remove(path)
    rc = conf["routesConfig"]
    rc["outputPath"] = "./routes_%s/routes.go" % engine
    rc["packageName"] = "routes" + engine
    rc["authorizationConfig"]["authFileFullPackageName"] = "%s/auth_%s" % (modpath, engine)
    flags = flags or {}
    if flags.get("validateResponsePayload"):
        rc["validateResponsePayload"] = True
    exp = {k2: True for k2 in ("validateTopLevelOnlyEnum", "generateEnumValidator") if flags.get(k2)}
    if exp:
        conf["experimentalConfig"] = exp
    def expand(v):
        if isinstance(v, str):
            return v.replace("{engine}", engine)
        if isinstance(v, dict):
            return {a: expand(b) for a, b in v.items()}
        return v
    for k2, v in (flags.get("routesConfig") or {}).items():
        rc[k2] = expand(v)      # "{engine}" in a raw override is replaced by the engine name
    out = "gleece-%s.json" % engine
    with open(os.path.join(root, out), "w") as f:
        json.dump(conf, f, indent=1)
    return out


def _pairs(x):
    """dict or sequence of 2-sequences -> list of tuples (what urlencode accepts)."""
    return [tuple(kv) for kv in (x.items() if isinstance(x, dict) else x)]


def file_state(path):
    try:
        st = os.stat(path)
        return (st.st_mtime_ns, st.st_size)
    except OSError:
        return None


# ------------------------------------------------------------------ handle

class Handle:
    def __init__(self, prop, projects, engines):
        self.prop, self.projects, self.engines = prop, projects, list(engines)
        self.base = os.path.join(WORK, prop)
        self.mod = os.path.join(self.base, "mod")
        self.generation = {}      # k -> engine -> {exit, out, wall, wrote}
        self.compiles = {}        # k -> engine -> True | error text | None (not generated)
        self.registration = {}    # "p<k>/<engine>" -> "" | panic text
        self.timings = {}
        self.binary = os.path.join(self.base, "driver")
        self.build_log = []

    def root(self, k):
        return os.path.join(self.mod, "p%d" % k)

    def routes_path(self, k, engine):
        return os.path.join(self.root(k), "routes_" + engine, "routes.go")

    def routes_source(self, k, engine):
        try:
            with open(self.routes_path(k, engine), encoding="utf-8", errors="replace") as f:
                return f.read()
        except OSError:
            return None

    def usable(self, k, engine):
        return self.compiles.get(k, {}).get(engine) is True

    def run(self, requests, timeout=600):
        """requests: list of dicts {project, engine, method, path, query, headers, form, body, script}.
        query: dict | list of pairs | raw string | None; headers: dict | list of pairs; form: dict | list | None;
        body: bytes | str | None.  Returns one result dict per request."""
        wire = []
        for r in requests:
            url = r["path"]
            q = r.get("query")
            if q:
                url += "?" + (q if isinstance(q, str) else urllib.parse.urlencode(_pairs(q), doseq=True))
            hdrs = r.get("headers") or []
            hdrs = [[a, b] for a, b in (hdrs.items() if isinstance(hdrs, dict) else hdrs)]
            body = r.get("body")
            if r.get("form") is not None:
                f_ = r["form"]
                body = urllib.parse.urlencode(_pairs(f_), doseq=True)
                if not any(a.lower().lstrip("=") == "content-type" for a, _ in hdrs):
                    hdrs.append(["Content-Type", "application/x-www-form-urlencoded"])
            elif body is not None and not any(a.lower().lstrip("=") == "content-type" for a, _ in hdrs):
                hdrs.append(["Content-Type", "application/json"])
            if isinstance(body, str):
                body = body.encode("utf-8")
            wire.append({"target": "p%d/%s" % (r["project"], r["engine"]), "method": r["method"], "url": url,
                         "headers": hdrs,
                         "body_b64": None if body is None else base64.b64encode(body).decode("ascii"),
                         "script": r.get("script") or {}})
        p = subprocess.run([self.binary], input=json.dumps(wire).encode(), stdout=subprocess.PIPE,
                           stderr=subprocess.PIPE, timeout=timeout)
        lines = p.stdout.decode("utf-8", errors="replace").splitlines()
        if p.returncode != 0 or len(lines) != len(wire) + 1:
            raise RuntimeError("driver failed (exit %d, %d/%d results): %s" % (
                p.returncode, max(0, len(lines) - 1), len(wire), p.stderr.decode(errors="replace")[-3000:]))
        out = []
        for ln in lines[1:]:
            o = json.loads(ln)
            raw = base64.b64decode(o.pop("body_b64") or "")
            o["body_raw"] = raw.decode("utf-8", errors="replace")
            try:
                o["body_json"] = json.loads(raw.decode("utf-8")) if raw.strip() else None
                o["body_is_json"] = bool(raw.strip())
            except ValueError:
                o["body_json"] = None
                o["body_is_json"] = False
            o["headers"] = {k: v for k, v in o["headers"].items()
                            if k in ("content-type", "location", "allow") or k.startswith("x-")}
            for c in o["calls"]:
                c["args"] = [json.loads(json.dumps(a)) for a in c["args"]]
            out.append(o)
        return out

    def cleanup(self):
        shutil.rmtree(self.base, ignore_errors=True)


# ------------------------------------------------------------------ build

def write_main(h, pairs):
    imports, regs = [], []
    for k, e in pairs:
        alias = "r%d%s" % (k, e)
        imports.append('\t%s "%s/p%d/routes_%s"' % (alias, MODNAME, k, e))
        regs.append("\t" + REG_SNIPPET[e] % {"t": "p%d/%s" % (k, e), "a": alias})
    with open(os.path.join(h.mod, "main.go"), "w") as f:
        f.write(MAIN_HEAD % {"imports": "\n".join(imports), "registrations": "\n".join(regs)})


# a compiler diagnostic is located in the package its line starts with ("# verifproj/p3/routes_gin" header
# or "p3/routes_gin/routes.go:12:3: ..."); text later in the line only mentions other packages
_FAIL_RE = re.compile(r"^(?:# )?(?:%s/)?p(\d+)/(routes|auth)_([a-z]+)\b" % MODNAME)
_FAILK_RE = re.compile(r"^(?:# )?(?:%s/)?p(\d+)/(ctlb?|types)(?:/|\s|$)" % MODNAME)


def attribute_failures(text, pairs):
    """Which (k, engine) pairs does a failed `go build` output blame?  Returns (set of pairs, dict pair->text)."""
    bad, why = set(), {}
    cur = None
    for ln in text.splitlines():
        hit = set()
        m = _FAIL_RE.match(ln)
        if m:
            hit.add((int(m.group(1)), m.group(3)))
        m = _FAILK_RE.match(ln)
        if m:       # a shared package of project k is broken: none of its routers can be built
            for (k, e) in pairs:
                if k == int(m.group(1)):
                    hit.add((k, e))
        if ln.startswith("#"):
            cur = hit
        elif not hit and cur and (ln.startswith("\t") or ln.startswith(" ")):
            hit = cur
        for pr in hit:
            if pr in pairs:
                bad.add(pr)
                why.setdefault(pr, [])
                if len(why[pr]) < 12:
                    why[pr].append(ln)
    return bad, {k: "\n".join(v) for k, v in why.items()}


def build_servers(prop, projects, engines=ALL5, flags=None, extra_types=True, cli_workers=16, prepare=None):
    """See module docstring.  flags: None | dict (all projects) | list of dict/None (per project); keys
    validateResponsePayload, validateTopLevelOnlyEnum, generateEnumValidator, routesConfig (raw overrides; "{engine}"
    in string values is replaced by the engine name).  prepare(handle, k, root) is called after project k is rendered."""
    h = Handle(prop, projects, engines)
    t0 = time.time()
    build_cli()
    h.timings["build_cli_s"] = round(time.time() - t0, 2)
    shutil.rmtree(h.base, ignore_errors=True)
    P.make_module(h.mod)
    os.makedirs(os.path.join(h.mod, "rec"), exist_ok=True)
    with open(os.path.join(h.mod, "rec", "rec.go"), "w") as f:
        f.write(REC_GO)
    t1 = time.time()
    jobs, index = [], []
    for k, p in enumerate(projects):
        root = h.root(k)
        P.render_project(p, root, "%s/p%d" % (MODNAME, k), method_body=echo_body, extra_imports=EXTRA_IMPORTS)
        if extra_types:
            with open(os.path.join(root, "types", "extra.go"), "w") as f:
                f.write(EXTRA_TYPES_GO)
        for pkg in sorted(set(c["pkg"] for c in p["controllers"])):
            if uses_local_types(p, pkg):
                with open(os.path.join(root, pkg, "zz_local_types.go"), "w") as f:
                    f.write(LOCAL_TYPES_GO % pkg)
        fl = flags[k] if isinstance(flags, list) else flags
        h.generation[k], h.compiles[k] = {}, {}
        for e in h.engines:
            write_auth(root, e)
            cfg = engine_config(p, root, k, e, fl)
            jobs.append({"dir": root, "args": ["generate", "routes", "-c", cfg], "timeout": 180})
            index.append((k, e))
        if prepare:
            prepare(h, k, root)     # extra files (template overrides, hand-written code) before the CLI runs
    h.timings["render_s"] = round(time.time() - t1, 2)
    t2 = time.time()
    before = {(k, e): file_state(h.routes_path(k, e)) for (k, e) in index}
    results = P.run_cli_many(jobs, workers=cli_workers)
    for (k, e), r in zip(index, results):
        after = file_state(h.routes_path(k, e))
        h.generation[k][e] = {"exit": r["exit"], "out": r["out"][-3000:], "wall": round(r["wall"], 2),
                              "timeout": r.get("timeout", False),
                              "wrote": after is not None and after != before[(k, e)]}
        h.compiles[k][e] = None
    h.timings["cli_s"] = round(time.time() - t2, 2)
    h.timings["cli_runs"] = len(jobs)
    # only routers whose file exists can be linked into the driver
    pairs = [(k, e) for (k, e) in index if file_state(h.routes_path(k, e)) is not None]
    t3 = time.time()
    rounds = 0
    while True:
        rounds += 1
        write_main(h, pairs)
        p = run(["go", "build", "-o", h.binary, "."], cwd=h.mod, env=GOENV, check=False, timeout=1500)
        if p.returncode == 0:
            break
        text = p.stderr.decode(errors="replace") + p.stdout.decode(errors="replace")
        h.build_log.append(text[-6000:])
        bad, why = attribute_failures(text, set(pairs))
        if not bad or rounds > 8:
            raise RuntimeError("scratch module does not build and the failure cannot be attributed to a "
                               "generated package:\n" + text[-4000:])
        for pr in bad:
            h.compiles[pr[0]][pr[1]] = why.get(pr) or "does not compile"
        pairs = [pr for pr in pairs if pr not in bad]
    for (k, e) in pairs:
        h.compiles[k][e] = True
    h.timings["go_build_s"] = round(time.time() - t3, 2)
    h.timings["go_build_rounds"] = rounds
    # registration status
    p = subprocess.run([h.binary], input=b"[]", stdout=subprocess.PIPE, stderr=subprocess.PIPE, timeout=120)
    if p.returncode != 0:
        raise RuntimeError("driver does not start: " + p.stderr.decode(errors="replace")[-3000:])
    h.registration = json.loads(p.stdout.decode().splitlines()[0])["registration"]
    h.timings["total_s"] = round(time.time() - t0, 2)
    return h


if __name__ == "__main__":
    # smoke test / timing:  python3 pygen/servers.py [n_projects]
    import random
    import sys
    n = int(sys.argv[1]) if len(sys.argv) > 1 else 2
    rng = random.Random(1)
    projs = [P.gen_project(rng, {"security": True, "params": True}) for _ in range(n)]
    hd = build_servers("servers_smoke", projs)
    print(json.dumps(hd.timings))
    for k in hd.generation:
        print(k, {e: (hd.generation[k][e]["exit"], hd.compiles[k][e] is True) for e in hd.engines})
    print({k: v for k, v in hd.registration.items() if v})
    if "--keep" not in sys.argv:
        hd.cleanup()
