#!/usr/bin/env python3
"""C04 - Documented security equals enforced security; enforce flag leaves no open route."""
import os
import sys
sys.path.insert(0, os.path.dirname(os.path.abspath(__file__)))
import speccheck

SPEC = {"eqb": "op_eqb_c04", "extra_imports": "",
        "oracle": "prop_C04"}

if __name__ == "__main__":
    res = speccheck.run(
        "C04", SPEC, {"security": True, "params": False, "multipkg": True, "undeclared": True, "enforce": True}, 40, 300,
        rule="seeded abstract projects over the product method-level x controller-level x default security "
             "(absent, one, several, repeated scheme, with/without scopes, undeclared scheme) x enforce flag, "
             "rendered and run through the real CLI for 3.0.0 and 3.1.0; non-trivial = at least one operation "
             "with a non-empty security list emitted, or the project was rejected",
        assumptions=["go/packages discovery and kin-openapi/libopenapi rendering are exercised, not modelled"],
        nontrivial=lambda p, ops: ops is None or any(o["security"] for o in ops))
    sys.exit(res.finish())
