#!/usr/bin/env python3
"""C04 - Documented security equals enforced security; enforce flag leaves no open route."""
import os
import sys
sys.path.insert(0, os.path.dirname(os.path.abspath(__file__)))
import speccheck

SPEC = {"eqb": "op_eqb_c04", "extra_imports": "",
        "oracle": "prop_C04"}

def product_cases(rng):
    """The finite product method-level x controller-level x default x enforce, with a visible and a
    hidden method per project (a seeded sample in quick, all of it in thorough)."""
    import os as _os
    levels = [[], [{"name": "sec1", "scopes": []}], [{"name": "sec1", "scopes": ["a&b<c>d's"]}, {"name": "sec2", "scopes": []}],
              [{"name": "sec2", "scopes": ["a"]}, {"name": "sec2", "scopes": ["a"]}],
              # alternatives in another order than the schemes are declared in, one scheme twice around another
              [{"name": "sec2", "scopes": ["w"]}, {"name": "sec1", "scopes": []}, {"name": "sec2", "scopes": []}]]
    out = []
    for ms in levels:
        for hs in levels:
            for cs in levels:
                for dflt in (None, {"name": "sec1", "scopes": ["d"]}):
                    for enforce in (False, True):
                        def meth(name, verb, route, hidden, sec):
                            return {"name": name, "verb": verb, "route": route, "hidden": hidden, "deprecated": False,
                                    "security": [dict(x) for x in sec], "params": [], "ret": None, "errtype": "error",
                                    "response": None, "errors": [], "descr": "", "file": 0}
                        methods = [meth("Vis", "GET", "/v", False, ms), meth("Hid", "DELETE", "/h", True, hs)]
                        if len(out) % 3 == 1:
                            # every third project: the visible method takes part in a route-conflict WARNING (a literal
                            # next to a parameterised sibling) - warnings must not disturb what is accepted or documented
                            methods[0]["route"] = "/v/{id}"
                            methods[0]["params"] = [{"name": "id", "ctx": False, "loc": "path", "alias": None, "type": "string",
                                                     "pointer": False, "validator": None, "slice": False}]
                            methods.append(meth("Sib", "GET", "/v/me", False, ms))
                        out.append({
                            "config": {"schemes": ["sec1", "sec2"], "default_security": dflt, "enforce": enforce,
                                       "engine": "gin", "title": "API", "version": "1", "base_url": "https://a.example.com"},
                            "controllers": [{"name": "PCtl", "pkg": "ctl", "tag": "P", "route": "/p",
                                             "security": [dict(x) for x in cs], "descr": "", "methods": methods}],
                            "types": ["Item"]})
    if _os.environ.get("VERIF_TIER", "") == "thorough" or "thorough" in sys.argv:
        return out
    # always in the sample: enforcement on, an unsecured VISIBLE route that takes part in a route-conflict warning
    # (must be refused), and the same with the route secured (must be accepted)
    must = [q for q in out if q["config"]["enforce"] and not q["config"]["default_security"] and
            not q["controllers"][0]["security"] and len(q["controllers"][0]["methods"]) == 3 and
            q["controllers"][0]["methods"][1]["security"]]
    open_conflict = [q for q in must if not q["controllers"][0]["methods"][0]["security"]][:1]
    secured_conflict = [q for q in must if q["controllers"][0]["methods"][0]["security"]][:1]
    # ... and enforcement with a secured visible route FOLLOWED by an unsecured hidden one (must be refused: a hidden route
    # is still served), with and without the conflicting sibling
    base_ = [q for q in out if q["config"]["enforce"] and not q["config"]["default_security"] and
             not q["controllers"][0]["security"] and q["controllers"][0]["methods"][0]["security"] and
             not q["controllers"][0]["methods"][1]["security"]]
    hidden_open = [q for q in base_ if len(q["controllers"][0]["methods"]) == 2][:1] + \
                  [q for q in base_ if len(q["controllers"][0]["methods"]) == 3][:1]
    return rng.sample(out, 24) + open_conflict + secured_conflict + hidden_open


def schemes_half(res, projects, obs):
    """"every scheme it names is declared under components.securitySchemes as configured": for the OAuth2 scheme of the
    generated configurations every flow documents exactly its own configured scopes, in both documents."""
    import project as P
    bad = 0
    for k, p in enumerate(projects):
        if "oauthy" not in p["config"]["schemes"]:
            continue
        for v in ("3.0.0", "3.1.0"):
            spec = obs[k][v].get("spec")
            if not spec:
                continue
            sc = ((spec.get("components") or {}).get("securitySchemes") or {}).get("oauthy") or {}
            got = {f: sorted(((sc.get("flows") or {}).get(f) or {}).get("scopes") or {}) for f in P.OAUTHY_FLOWS}
            want = {f: sorted(fl["scopes"]) for f, fl in P.OAUTHY_FLOWS.items()}
            if sc.get("type") != "oauth2" or got != want:
                bad += 1
                if bad <= 2:
                    res.violation({"kind": "property-fails-on-implementation", "openapi": v, "input": p,
                                   "documented_scheme": sc, "configured_flows": P.OAUTHY_FLOWS,
                                   "claim": "a scheme named by an operation is declared under components.securitySchemes as "
                                            "configured: each OAuth2 flow lists exactly the scopes configured for that flow"})
    res.coverage["oauth2_scheme_documents_checked"] = sum(1 for p in projects if "oauthy" in p["config"]["schemes"]) * 2


def router_half(res, projects, obs):
    schemes_half(res, projects, obs)
    """Documented = enforced needs the router side too: the routes files of accepted projects must pass the
    translation obligation router_ok (gate literal = effective alternatives), see C04_documented_equals_enforced."""
    import routercheck as R
    import project as P
    from common import run_coq_file, parse_nat_list
    accepted = [p for k, p in enumerate(projects) if obs[k]["3.0.0"]["exit"] == 0 and
                len(set(c["name"] for c in p["controllers"])) == len(p["controllers"])]
    accepted = accepted[:3] + accepted[3:][-3:]      # product cases come first, randomly generated projects last
    if not accepted:
        return
    moddir, results = R.generate_routes("C04_routes", accepted)
    rows, meta = [], []
    for k, p in enumerate(accepted):
        for e in R.ENGINES:
            r = results[k][e]
            if r["exit"] != 0 or not r["hir"] or r["hir"]["parse_error"]:
                continue
            rows.append("(%d, %s,\n   %s)" % (len(meta), P.coq_project(p), R.coq_registrations(r["hir"])))
            meta.append((k, e))
    body = ("From Gleece Require Import Base.Bytes Model.Project Model.Spec Model.Security Model.RouterGate.\n"
            "From Coq Require Import String.\n"
            "Definition cases : list (nat * project * list registration) := [\n" + ";\n".join(rows) + "].\n"
            "Definition failing := Eval vm_compute in map (fun c => fst (fst c)) "
            "(filter (fun c => negb (router_ok (snd (fst c)) (snd c))) cases).\nPrint failing.\n")
    out = run_coq_file("C04", "router_obligations", body, timeout=900)
    failing = parse_nat_list(out, "failing")
    for i in failing[:2]:
        k, e = meta[i]
        import c12 as C12
        concrete = []
        for r in results[k][e]["hir"]["registrations"]:
            for c in accepted[k]["controllers"]:
                for m in c["methods"]:
                    if m["name"] == r["op_id"] and c["name"] == r["ctrl_type"]:
                        want = [[{"scheme": x["name"], "scopes": list(x["scopes"])}] for x in C12.effective_security(accepted[k], c, m)]
                        got = [[{"scheme": y["scheme"], "scopes": list(y["scopes"] or [])} for y in alt] for alt in r["alts"]]
                        if want != got:
                            concrete.append({"operation": "%s.%s" % (c["name"], m["name"]), "documented": want, "enforced_by_router": got})
        res.violation({"kind": "translation-obligation", "obligation": "RouterGate.router_ok (engine %s)" % e,
                       "input": accepted[k], "engine": e, "documented_vs_enforced": concrete[:4],
                       "gates": [{"op": r["op_id"], "alts": r["alts"], "gate_ok": r["gate_ok"]} for r in results[k][e]["hir"]["registrations"]],
                       "note": "the security the generated router enforces differs from the effective (documented) security"},
                      no_input=not concrete)
    res.coverage["router_files_translated"] = len(rows)
    res.coverage["obligations"] = res.coverage.get("obligations", 0) + len(rows)
    res.coverage["discharged"] = res.coverage.get("discharged", 0) + len(rows) - len(failing)
    import shutil, os
    from common import WORK
    shutil.rmtree(os.path.join(WORK, "C04_routes"), ignore_errors=True)


if __name__ == "__main__":
    res = speccheck.run(
        "C04", SPEC, {"security": True, "params": False, "multipkg": True, "undeclared": True, "enforce": True}, 24, 300,
        rule="seeded abstract projects over the product method-level x controller-level x default security "
             "(absent, one, several, repeated scheme, with/without scopes, undeclared scheme) x enforce flag, "
             "rendered and run through the real CLI for 3.0.0 and 3.1.0; non-trivial = at least one operation "
             "with a non-empty security list emitted, or the project was rejected",
        assumptions=["go/packages discovery and kin-openapi/libopenapi rendering are exercised, not modelled"],
        nontrivial=lambda p, ops: ops is None or any(o["security"] for o in ops),
        extra_cases=product_cases, post=router_half)
    sys.exit(res.finish())
