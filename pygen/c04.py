#!/usr/bin/env python3
"""C04 - Documented security equals enforced security; enforce flag leaves no open route."""
import os
import sys
sys.path.insert(0, os.path.dirname(os.path.abspath(__file__)))
import speccheck

SPEC = {"eqb": "op_eqb_c04", "extra_imports": "",
        "oracle": "prop_C04"}

def product_cases(rng):
    """The finite product method-level x controller-level x default x enforce, with a visible and a
    hidden method per project (a seeded sample in quick, all of it in thorough)."""
    import os as _os
    levels = [[], [{"name": "sec1", "scopes": []}], [{"name": "sec1", "scopes": ["a"]}, {"name": "sec2", "scopes": []}],
              [{"name": "sec2", "scopes": ["a"]}, {"name": "sec2", "scopes": ["a"]}]]
    out = []
    for ms in levels:
        for hs in levels:
            for cs in levels:
                for dflt in (None, {"name": "sec1", "scopes": ["d"]}):
                    for enforce in (False, True):
                        def meth(name, verb, route, hidden, sec):
                            return {"name": name, "verb": verb, "route": route, "hidden": hidden, "deprecated": False,
                                    "security": [dict(x) for x in sec], "params": [], "ret": None, "errtype": "error",
                                    "response": None, "errors": [], "descr": "", "file": 0}
                        out.append({
                            "config": {"schemes": ["sec1", "sec2"], "default_security": dflt, "enforce": enforce,
                                       "engine": "gin", "title": "API", "version": "1", "base_url": "https://a.example.com"},
                            "controllers": [{"name": "PCtl", "pkg": "ctl", "tag": "P", "route": "/p",
                                             "security": [dict(x) for x in cs], "descr": "",
                                             "methods": [meth("Vis", "GET", "/v", False, ms),
                                                         meth("Hid", "DELETE", "/h", True, hs)]}],
                            "types": ["Item"]})
    if _os.environ.get("VERIF_TIER", "") == "thorough" or "thorough" in sys.argv:
        return out
    return rng.sample(out, 24)


if __name__ == "__main__":
    res = speccheck.run(
        "C04", SPEC, {"security": True, "params": False, "multipkg": True, "undeclared": True, "enforce": True}, 24, 300,
        rule="seeded abstract projects over the product method-level x controller-level x default security "
             "(absent, one, several, repeated scheme, with/without scopes, undeclared scheme) x enforce flag, "
             "rendered and run through the real CLI for 3.0.0 and 3.1.0; non-trivial = at least one operation "
             "with a non-empty security list emitted, or the project was rejected",
        assumptions=["go/packages discovery and kin-openapi/libopenapi rendering are exercised, not modelled"],
        nontrivial=lambda p, ops: ops is None or any(o["security"] for o in ops),
        extra_cases=product_cases)
    sys.exit(res.finish())
