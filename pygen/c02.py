#!/usr/bin/env python3
"""C02 - generated router serves exactly the annotated routes and dispatches correctly."""
import copy
import json
import os
import random
import re
import shutil
import sys
import urllib.parse

sys.path.insert(0, os.path.dirname(os.path.abspath(__file__)))
from common import *  # noqa
import project as P
import routercheck as R
import servers
import c12 as C12

PROP = "C02"
COQ_ENGINE = {"gin": "Gin", "echo": "Echo", "mux": "Mux", "chi": "Chi", "fiber": "Fiber"}

HOSTILE_URLS = ["", "/", "//", "///", "a", "a/", "/a//b", "/a///b/", "/{id}", "/{a}/{b}", "{a}", "/x/{a-b_c}/y", "/{a}{b}",
                "/{", "/}", "/{}", "/{a", "/a}", "/{a b}", "/{é}", "/a{b}c", "//{x}//", "/a/:b", "/a/*", "/{a}//{b}///c"]


def url_functions_program(moddir, funcs):
    """A Go program holding the five generated to<Engine>Url functions verbatim; prints their results."""
    d = os.path.join(moddir, "urlprog")
    os.makedirs(d, exist_ok=True)
    body = ["package main", "", 'import (', '\t"bufio"', '\t"encoding/json"', '\t"fmt"', '\t"os"', '\t"regexp"', '\t"strings"', ")", "",
            "var _ = strings.Contains", "var urlParamRegex *regexp.Regexp", ""]
    for e, (name, src_text, regex) in funcs.items():
        body.append(src_text)
        body.append("")
    body.append("func main() {")
    body.append("\tin := bufio.NewReader(os.Stdin)")
    body.append("\tvar urls []string")
    body.append("\tif err := json.NewDecoder(in).Decode(&urls); err != nil { panic(err) }")
    body.append("\tout := map[string][]string{}")
    for e, (name, src_text, regex) in funcs.items():
        body.append("\turlParamRegex = regexp.MustCompile(%s)" % json.dumps(regex))
        body.append("\tfor _, u := range urls { out[%s] = append(out[%s], %s(u)) }" % (json.dumps(e), json.dumps(e), name))
    body.append("\tb, _ := json.Marshal(out)")
    body.append("\tfmt.Println(string(b))")
    body.append("}")
    open(os.path.join(d, "main.go"), "w").write("\n".join(body) + "\n")
    return d


def main():
    a, seed = args_for(PROP)
    res = Result(PROP, a.tier, seed)
    rng = random.Random(seed)
    build_coq()
    proof_coverage(PROP, res)
    n = 8 if a.tier == "quick" else 50
    replay_seq = None
    if a.replay and "sequence" in json.load(open(a.replay))["input"]:
        rp = json.load(open(a.replay))
        replay_seq = [{"engine": rp.get("engine", "gin"), "sequence": [(x["edit"], x["project"], x.get("extra")) for x in rp["input"]["sequence"]]}]
        projects = [rp["input"]["sequence"][-1]["project"]]
    elif a.replay:
        projects = [json.load(open(a.replay))["input"]]
    else:
        projects = []
        while len(projects) < n:
            p = P.gen_project(rng, {"security": True, "params": True, "multipkg": True, "root_routes": True})
            if len(set(c["name"] for c in p["controllers"])) != len(p["controllers"]):
                continue
            projects.append(p)
    moddir, results = R.generate_routes(PROP, projects)

    # ---- (1) translation obligations: the registration table
    rows, meta = [], []
    for k, p in enumerate(projects):
        for e in R.ENGINES:
            r = results[k][e]
            if r["exit"] != 0 or not r["hir"] or r["hir"]["parse_error"]:
                meta.append((k, e, "not-generated"))
                continue
            rows.append("(%d, %s,\n   %s)" % (len(meta), P.coq_project(p), R.coq_registrations(r["hir"])))
            meta.append((k, e, "ok"))
    body = ("From Gleece Require Import Base.Bytes Model.Project Model.Spec Model.Security Model.RouterGate.\n"
            "From Coq Require Import String.\n"
            "Definition cases : list (nat * project * list registration) := [\n" + ";\n".join(rows) + "].\n"
            "Definition failing := Eval vm_compute in map (fun c => fst (fst c)) "
            "(filter (fun c => negb (router_ok (snd (fst c)) (snd c))) cases).\nPrint failing.\n")
    out = run_coq_file(PROP, "obligations", body, timeout=900)
    failing = parse_nat_list(out, "failing")
    for i in failing[:2]:
        k, e, _ = meta[i]
        res.violation({"kind": "translation-obligation", "obligation": "RouterGate.router_ok (project %d, engine %s)" % (k, e),
                       "input": projects[k], "engine": e,
                       "registrations": [{kk: r[kk] for kk in ("verb", "url_lit", "op_id", "ctrl_type", "invokes")}
                                         for r in results[k][e]["hir"]["registrations"]],
                       "note": "the registration table of the generated file is not exactly the annotated methods"}, no_input=True)
    notgen = [(k, e) for (k, e, s_) in meta if s_ != "ok"]
    for (k, e) in notgen[:2]:
        res.violation({"kind": "correspondence", "obligation": "gleece generate routes failed or file unparsable",
                       "input": projects[k], "engine": e, "cli_output": results[k][e]["out"][-1500:]}, no_input=True)

    # ---- (2) the URL functions, verbatim from the generated files, against Router.to_engine_url
    funcs = {}
    for (k, e, s_) in meta:
        if s_ == "ok" and e not in funcs:
            h = results[k][e]["hir"]
            funcs[e] = (h["url_func_name"], h["url_func_src"], h["url_regex_lit"] or r"\{([\w\d-_]+)\}")
    urls = list(HOSTILE_URLS)
    for p in projects:
        for c in p["controllers"]:
            for m in c["methods"]:
                urls.append(c["route"] + m["route"])
    for _ in range(60 if a.tier == "quick" else 600):
        segs = [rng.choice(["a", "b-1", "{id}", "{p_2}", "", "", "x{y}", "{", "}", "{a}{b}", "é", ":c", "{a b}"])
                for _ in range(rng.randint(0, 5))]
        urls.append(rng.choice(["", "/", "//"]) + rng.choice(["/", "//", "///"]).join(segs))
    urls = sorted(set(urls))
    url_bad = []
    if len(funcs) == 5:
        d = url_functions_program(moddir, funcs)
        pr = run(["go", "run", "./urlprog"], cwd=moddir, env=GOENV, input=json.dumps(urls).encode(), timeout=600, check=False)
        if pr.returncode != 0:
            res.violation({"kind": "correspondence", "obligation": "the generated to<Engine>Url functions do not compile stand-alone",
                           "detail": pr.stderr.decode(errors="replace")[-1500:]}, no_input=True)
            impl_urls = None
        else:
            impl_urls = json.loads(pr.stdout.decode())
        if impl_urls:
            rows = []
            idx = []
            for e in R.ENGINES:
                for u, got in zip(urls, impl_urls[e]):
                    rows.append("(%d, %s, %s, %s)" % (len(idx), COQ_ENGINE[e], coq_bytes(u), coq_bytes(got)))
                    idx.append((e, u, got))
            body = ("From Gleece Require Import Base.Bytes Model.Spec Model.Router.\nFrom Coq Require Import String.\n"
                    "Definition cases : list (nat * engine * str * str) := [\n" + ";\n".join(rows) + "].\n"
                    "Definition bad := Eval vm_compute in map (fun c => fst (fst (fst c))) "
                    "(filter (fun c => let '(_, e, u, got) := c in negb (str_eqb (to_engine_url e u) got)) cases).\nPrint bad.\n")
            out = run_coq_file(PROP, "urls", body, timeout=900)
            url_bad = parse_nat_list(out, "bad")
            for i in url_bad[:2]:
                e, u, got = idx[i]
                # is this a property failure?  only if the template is clean and starts with a slash and the
                # registered URL is not the documented path in the engine's syntax
                res.violation({"kind": "correspondence", "obligation": "corr:Router.to_engine_url (%s)" % e, "input": u,
                               "implementation_output": got,
                               "note": "the generated %s differs from the model on this template" % funcs[e][0]}, no_input=True)

    # ---- (3) dispatch on the compiled routers: documented path -> its method; near misses -> nothing
    nserve = 3 if a.tier == "quick" else 10
    chosen = []
    for p in projects[:nserve]:
        q = C12.clean_project(p)
        chosen.append(q)
    chosen.append(C12.clean_project(projects[0], "doubled"))
    # a literal route declared BEFORE its parameterised sibling (same verb, one controller): every engine must serve the
    # literal path by the literal method (routers that match in registration order depend on the order being kept)
    ov = copy.deepcopy(C12.clean_project(projects[0]))
    ov["controllers"] = ov["controllers"][:1]
    oc = ov["controllers"][0]
    oc.update({"name": "OvCtl", "route": "/ov", "security": [], "shape": "plain"})

    def ovm(name, route, params):
        return {"name": name, "verb": "GET", "route": route, "hidden": False, "deprecated": False, "security": [],
                "params": params, "ret": "string", "errtype": "error", "response": None, "errors": [], "descr": "", "file": 0}
    pid = {"name": "id", "ctx": False, "loc": "path", "alias": None, "type": "string", "pointer": False, "validator": None,
           "slice": False}
    oc["methods"] = [ovm("ZLit", "/users/me", []), ovm("AParam", "/users/{id}", [dict(pid)]),
                     ovm("YDeep", "/users/me/settings", []), ovm("BDeep", "/users/{id}/settings", [dict(pid)]),
                     ovm("CNeg", "/neg/{n}", [dict(pid, name="n", type="int")]),
                     ovm("DNeg", "/neg64/{n}/x", [dict(pid, name="n", type="int64")])]
    ov["config"]["default_security"] = None
    chosen.append(ov)
    h = servers.build_servers(PROP + "_srv", chosen)
    reqs, rmeta = [], []
    for k, p in enumerate(chosen):
        allroutes = [(c, m) for c in p["controllers"] for m in c["methods"]]
        for c, m in allroutes:
            lab = {lbl: rq for (lbl, tags, rq, sc) in C12.route_requests(p, c, m) if lbl == "valid"}
            rq = lab["valid"]
            variants = [("exact", rq["method"], rq["path"])]
            other = [v for v in P.VERBS if v != m["verb"] and not any(
                m2["verb"] == v and C12.collapse(c2["route"] + m2["route"]) == C12.collapse(c["route"] + m["route"])
                for c2, m2 in allroutes)]
            if other:
                variants.append(("other-verb", other[0], rq["path"]))
            variants.append(("extra-segment", rq["method"], rq["path"].rstrip("/") + "/zzz"))
            core = rq["path"].rstrip("/")
            if core.count("/") > 1:
                # drop a real segment (a trailing slash alone is the frameworks' strict-slash business)
                variants.append(("missing-segment", rq["method"], core.rsplit("/", 1)[0]))
            variants.append(("other-prefix", rq["method"], "/nosuchprefix" + rq["path"]))
            if rq["method"] == "GET" and not any(m2["verb"] == "HEAD" for c2, m2 in allroutes):
                # HEAD cannot be annotated: a GET route does not make the router run the method for HEAD
                variants.append(("head-probe", "HEAD", rq["path"]))
            # a negative value of a signed integer path parameter is a documented value: same method
            for prm in m["params"]:
                vv = "/" + C12.VALID.get(prm["type"], "?")
                if (not prm["ctx"]) and prm["loc"] == "path" and prm["type"] in ("int", "int64", "int8") and not prm["validator"] \
                        and rq["path"].count(vv) == 1:
                    variants.append(("exact", rq["method"], rq["path"].replace(vv, "/-7", 1)))
                    break
            if p is ov:
                # the near misses of one route are other routes of this project: only the documented paths are asked
                variants = [v for v in variants if v[0] == "exact"]
            for kind, verb, path in variants:
                for e in R.ENGINES:
                    if not h.usable(k, e):
                        continue
                    r = dict(rq, method=verb, path=path, project=k, engine=e, script={})
                    reqs.append(r)
                    rmeta.append((k, c["name"], m["name"], e, kind, m["hidden"]))
    outs = h.run(reqs) if reqs else []
    rows = []
    for i, ((k, cn, mn, e, kind, hidden), o) in enumerate(zip(rmeta, outs)):
        calls = coq_list(["(%s, %s)" % (coq_bytes(c["controller"]), coq_bytes(c["method"])) for c in o["calls"]])
        rows.append("(%d, %s, %s, %s, %s)" % (i, coq_bool(kind == "exact"), coq_bytes(cn), coq_bytes(mn), calls))
    body = ("From Gleece Require Import Base.Bytes Model.Router.\nFrom Coq Require Import String.\n"
            "Definition cases : list (nat * bool * str * str * list (str * str)) := [\n" + ";\n".join(rows) + "].\n"
            "Definition bad := Eval vm_compute in map (fun c => fst (fst (fst (fst c)))) "
            "(filter (fun c => let '(_, exact, cn, mn, calls) := c in negb (prop_C02_dispatch exact cn mn calls)) cases).\nPrint bad.\n")
    out = run_coq_file(PROP, "dispatch", body, timeout=900)
    bad = parse_nat_list(out, "bad")
    known = known_for(PROP)
    nviol = 0
    for i in bad:
        k, cn, mn, e, kind, hidden = rmeta[i]
        tmpl = [C12.collapse(c["route"] + m["route"]) for c in chosen[k]["controllers"] for m in c["methods"] if m["name"] == mn][0]
        hit = None
        for f in known:
            mt = f.get("match", {})
            if mt.get("kind") == "extra-segment-after-trailing-path-param" and kind == "extra-segment" and \
                    e in mt.get("engines", []) and tmpl.rstrip("/").endswith("}"):
                hit = f
            if mt.get("kind") == "head-probe-on-get-route" and kind == "head-probe" and e in mt.get("engines", []):
                hit = f
        if hit:
            res.known(hit, "%s: %s %s (template %s)" % (hit["match"]["kind"], reqs[i]["method"], reqs[i]["path"], tmpl))
            continue
        nviol += 1
        if nviol > 3:
            continue
        res.violation({"kind": "property-fails-on-implementation", "engine": e, "input": chosen[k], "controller": cn, "method": mn,
                       "request_kind": kind, "request": {kk: reqs[i][kk] for kk in ("method", "path", "query", "headers", "form", "body")},
                       "observed": outs[i],
                       "claim": "a request to the documented verb/path reaches exactly that method of that controller; "
                                "verb/path pairs that were not annotated reach no controller method"})
    h.cleanup()
    # ---- (4) sequences of generations in one process / through spec-and-routes: same obligation on every artifact
    seqstats = R.seq_router_leg(res, PROP, rng, projects[:(1 if a.tier == "quick" else 5)], a.tier, explicit=replay_seq) \
        if (replay_seq or not a.replay) else {}
    res.coverage["obligations"] = res.coverage.get("obligations", 0) + len(meta)
    res.coverage["discharged"] = res.coverage.get("discharged", 0) + len([1 for m_ in meta if m_[2] == "ok"]) - len(failing)
    kinds = {}
    for (_, _, _, _, kind, _) in rmeta:
        kinds[kind] = kinds.get(kind, 0) + 1
    res.coverage["generation_sequences"] = seqstats
    res.coverage.update({
        "evaluations": len(reqs) + len(urls) * 5 + len(meta),
        "distinct_nontrivial": len(set((k, cn, mn, kind) for (k, cn, mn, e, kind, hd) in rmeta)),
        "programs": len([1 for m_ in meta if m_[2] == "ok"]),
        "rule": "seeded projects x five engines: (1) every generated routes file translated by go/ast, router_ok evaluated by "
                "vm_compute; (2) the five generated to<Engine>Url functions, compiled verbatim, against Router.to_engine_url on the "
                "projects' templates plus hostile templates; (3) compiled routers: request to each documented verb/path (hidden "
                "routes included) and near misses (other verb, extra/missing segment, foreign prefix), oracle prop_C02_dispatch; "
                "non-trivial/distinct = distinct (route, request kind)",
        "samples": [{"request": {kk: reqs[0][kk] for kk in ("method", "path")}, "engine": reqs[0]["engine"],
                     "calls": outs[0]["calls"], "status": outs[0]["status"]}] if reqs else [],
        "traces_validated_against_impl": len(reqs) - len(bad) + len(urls) * 5 - len(url_bad),
        "input_distribution": {"projects": len(projects), "routes_files": len(meta), "url_templates": len(urls),
                               "served_projects": len(chosen), "requests_x_engines": len(reqs), "request_kinds": kinds,
                               "hidden_routes_requested": len(set((k, cn, mn) for (k, cn, mn, e, kind, hd) in rmeta if hd))},
        "translation_failures": len(failing), "url_function_disagreements": len(url_bad), "dispatch_failures": len(bad),
    })
    res.assumptions += ["the frameworks' own route matching is exercised, not modelled (partial)",
                        "hir.go is trusted to report registrations faithfully"]
    shutil.rmtree(os.path.join(WORK, PROP), ignore_errors=True)
    sys.exit(res.finish())


if __name__ == "__main__":
    main()
