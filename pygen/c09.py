#!/usr/bin/env python3
"""C09 - every accepted project yields a routes file that is compilable Go.

The Go tool chain is the oracle: for generated projects x five engines x experimental flags
every routes file whose generation exited 0 must parse (go/parser), be a fixed point of
go/format (gofmt -l silent), declare the configured package and compile inside the user's
module next to the controller and authorization packages (servers.build_servers does the
`go build`); when generation exits non-zero the file at outputPath must not have been
written.  These facts are turned into a Coq term and `prop_C09` (Model/Imports.v, proved
equivalent to the readable statement) is evaluated with vm_compute.  The import block of
every file is compared with the model of the alias construction (`used_import_list`), the
serial numbers being recovered from the file (they depend on symbol-graph order, DESIGN F3).
"""
import copy
import json
import os
import random
import re
import sys
import time

sys.path.insert(0, os.path.dirname(os.path.abspath(__file__)))
from common import *  # noqa
import project as P
import servers

PROP = "C09"
ENGINES = servers.ALL5
FLAGS = ["validateTopLevelOnlyEnum", "generateEnumValidator", "validateResponsePayload"]
ALL_COMBOS = [{f: True for j, f in enumerate(FLAGS) if (m >> j) & 1} for m in range(8)]


# ------------------------------------------------------------------ projects

def prm(name, loc, ty, pointer=False, validator=None, alias=None, slice=False):
    return {"name": name, "ctx": False, "loc": loc, "alias": alias, "type": ty, "pointer": pointer,
            "validator": validator, "slice": slice}


def meth(name, verb, route, params, ret, sec=None):
    return {"name": name, "verb": verb, "route": route, "hidden": False, "deprecated": False, "security": sec or [],
            "params": params, "ret": ret, "errtype": "error", "response": None, "errors": [], "descr": "", "file": 0}


def cfg(enforce=False, default=None):
    return {"schemes": ["sec1", "sec2"], "default_security": default, "enforce": enforce, "engine": "gin",
            "title": "API", "version": "1.2.3", "base_url": "https://api.example.com"}


CTX = {"name": "ctx", "ctx": True, "loc": None, "alias": None, "type": "context.Context", "pointer": False,
       "validator": None, "slice": False}


def coverage_project():
    """Routes enumerating the template's feature vectors: location x type kind x pointer x validator."""
    ms = []
    kinds = ["string", "int", "int8", "int64", "uint", "uint32", "bool", "float64", "ItemKind", "ItemId"]
    i = 0
    for loc in ("query", "header", "form"):
        for ptr in (False, True):
            params = []
            for j, t in enumerate(kinds):
                v = None
                if j % 3 == 1:
                    v = "required"
                params.append(prm("a%d" % j, loc, t, pointer=ptr, validator=v,
                                  alias=("X-A%d" % j if j % 4 == 2 else None)))
            ms.append(meth("Cov%d" % i, "POST", "/cov%d" % i, params, ["string", "Item", "*Item", None][i % 4]))
            i += 1
    ms.append(meth("CovPath", "GET", "/p/{pa}/{pb}/{pc}/{pd}",
                   [dict(CTX), prm("pa", "path", "string"), prm("pb", "path", "int64", validator="gt=1"),
                    prm("pc", "path", "ItemKind"), prm("pd", "path", "ItemId")], "ItemKind"))
    ms.append(meth("CovSlices", "GET", "/s",
                   [prm("xs", "query", "string", slice=True), prm("ns", "query", "int", slice=True),
                    prm("ks", "query", "ItemKind", slice=True), prm("us", "query", "uint32", slice=True)], "int"))
    ms.append(meth("CovBody", "PUT", "/b", [prm("it", "body", "Item", validator="required")], "*Item",
                   sec=[{"name": "sec1", "scopes": ["read", "write"]}, {"name": "sec2", "scopes": []}]))
    ms.append(meth("CovBodyPtr", "PATCH", "/bp", [dict(CTX), prm("it", "body", "Item", pointer=True)], None))
    return {"config": cfg(default={"name": "sec1", "scopes": ["d"]}), "types": ["Item"],
            "controllers": [{"name": "CovCtl", "pkg": "ctl", "tag": "Cov", "route": "/cov", "security": [],
                             "descr": "Coverage controller", "methods": ms},
                            {"name": "CovCtlB", "pkg": "ctlb", "tag": "Cov", "route": "", "security": [],
                             "descr": "", "methods": [meth("Other", "GET", "/o", [prm("k", "query", "ItemKind")], "Item")]}]}


def one_route_project(name, m, ctrl="PCtl", enforce=False):
    return {"config": cfg(enforce=enforce), "types": ["Item"], "probe": name,
            "controllers": [{"name": ctrl, "pkg": "ctl", "tag": "T", "route": "/p", "security": [], "descr": "",
                             "methods": [m]}]}


def two_package_project():
    """Two controllers in two packages whose routes use package-LOCAL types of the same name (ctl.Dto /
    ctlb.Dto, ctl.Tag / ctlb.Tag) through parameters of the same name, each being the first new type its
    controller mentions: the only thing that keeps `Param<serial>body "…/ctl"` and `Param<serial>body "…/ctlb"`
    apart is the serial."""
    def ctl(name, pkg, k):
        return {"name": name, "pkg": pkg, "tag": "T", "route": "/" + name.lower(), "security": [], "descr": "",
                "methods": [meth("Create%d" % k, "POST", "/c", [prm("body", "body", "Dto", validator="required")], "Dto"),
                            meth("Find%d" % k, "GET", "/f/{v}", [prm("v", "path", "Tag"), prm("w", "query", "Tag", pointer=True)],
                                 "*Dto"),
                            meth("Plain%d" % k, "GET", "/p", [prm("n", "query", "int")], "string")]}
    return {"config": cfg(), "types": ["Item"],
            "controllers": [ctl("OrdersCtl", "ctl", 0), ctl("UsersCtl", "ctlb", 1), ctl("AuditCtl", "ctl", 2),
                            ctl("BillingCtl", "ctlb", 3)]}


# ------------------------------------------------------------------ custom error types
#
# A controller method returns `error`, `(T, error)` or the same with a CUSTOM error: a struct that embeds
# `error`, by value or by address (method key "errtype": "error" | "<Name>" | "*<Name>").  The custom error
# types are declared in the controller's own package.  project.render_method only writes `error`, so the
# signature and the returns of such a method are rewritten after rendering (render_custom_errors, the
# `prepare` hook of servers.build_servers).

LOCAL_ERRORS = ("Failure", "Problem")
LOCAL_ERRORS_GO = """package %s

// A failure payload: a custom error (embeds error)
type Failure struct {
	error
	// A machine readable code
	Code int `json:"code"`
}

// Another custom error
type Problem struct {
	error
	// A human readable reason
	Reason string `json:"reason"`
}
"""


def errtype_of(m):
    return m.get("errtype") or "error"


def render_custom_errors(h, k, root):
    """prepare hook: rewrite the rendered methods whose errtype is not the universe `error`."""
    p = h.projects[k]
    for pkg in sorted(set(c["pkg"] for c in p["controllers"])):
        d = os.path.join(root, pkg)
        todo = [(c, m) for c in p["controllers"] if c["pkg"] == pkg for m in c["methods"] if errtype_of(m) != "error"]
        if not todo:
            continue
        with open(os.path.join(d, "zz_local_errors.go"), "w") as f:
            f.write(LOCAL_ERRORS_GO % pkg)
        for fn in sorted(os.listdir(d)):
            if not fn.endswith(".go"):
                continue
            path = os.path.join(d, fn)
            lines = open(path, encoding="utf-8").read().split("\n")
            changed = False
            for (c, m) in todo:
                head = "func (c *%s) %s(" % (c["name"], m["name"])
                et = errtype_of(m)
                base = et.lstrip("*")
                for i, ln in enumerate(lines):
                    if not ln.startswith(head):
                        continue
                    if ln.endswith(", error) {"):
                        lines[i] = ln[:-len("error) {")] + et + ") {"
                    elif ln.endswith(") error {"):
                        lines[i] = ln[:-len("error {")] + et + " {"
                    else:
                        raise RuntimeError("unexpected method header: " + ln)
                    j = i + 1
                    while lines[j] != "}":
                        b = lines[j]
                        b = b.replace('errors.New("boom")', '%s%s{error: errors.New("boom")}' % (
                            "&" if et.startswith("*") else "", base))
                        if not et.startswith("*"):
                            b = re.sub(r"^(\s*return (?:.*, )?)nil$", lambda mm: mm.group(1) + base + "{}", b)
                        lines[j] = b
                        j += 1
                    changed = True
            if changed:
                with open(path, "w", encoding="utf-8") as f:
                    f.write("\n".join(lines))


def custom_error_projects():
    """Deliberate projects over the return shapes  E | (T, E) | (T, *E) | *E  with the payload type T declared in
    the error's package (ctl.Dto next to ctl.Failure) or elsewhere (types.Item, string), and such that a given
    error type is returned in ONE way per project (another route returning the same error differently would
    register the same `Response<serial><Type>` alias)."""
    def ctl(name, pkg, ms):
        return {"name": name, "pkg": pkg, "tag": "T", "route": "/" + name.lower(), "security": [], "descr": "",
                "methods": ms}

    def em(name, verb, route, params, ret, et):
        m = meth(name, verb, route, params, ret)
        m["errtype"] = et
        return m
    a = {"config": cfg(), "types": ["Item"], "controllers": [
        ctl("OrdersCtl", "ctl", [em("GetOrder", "GET", "/o/{id}", [prm("id", "path", "string")], "Dto", "Failure"),
                                 meth("ListOrders", "GET", "/o", [prm("limit", "query", "int", pointer=True)], "Dto")]),
        ctl("UsersCtl", "ctlb", [em("GetUser", "GET", "/u/{id}", [prm("id", "path", "Tag")], "*Dto", "Failure"),
                                 em("PutUser", "PUT", "/u", [prm("body", "body", "Dto")], "Dto", "*Problem")])]}
    b = {"config": cfg(), "types": ["Item"], "controllers": [
        ctl("MixedCtl", "ctl", [em("A", "GET", "/a", [], "Item", "Failure"),
                                em("B", "POST", "/b", [prm("it", "body", "Item")], "string", "Failure"),
                                em("C", "DELETE", "/c", [], None, "Problem"),
                                em("D", "GET", "/d", [prm("k", "query", "ItemKind")], "Dto", "Problem")]),
        ctl("PtrCtl", "ctlb", [em("E", "GET", "/e", [], None, "*Failure"),
                               em("F", "GET", "/f", [], "Dto", "*Failure"),
                               em("G", "GET", "/g", [], "*Item", "Problem")])]}
    c = {"config": cfg(), "types": ["Item"], "controllers": [
        ctl("ListCtl", "ctl", [em("H", "GET", "/h", [], "[]Dto", "Failure"),
                               meth("I", "GET", "/i", [prm("xs", "query", "Tag", slice=True)], "[]Item"),
                               em("J", "GET", "/j", [], "[]Item", "*Problem")])]}
    return [("custom-error-same-package", a, None), ("custom-error-mixed", b, None), ("custom-error-slices", c, None)]


# ------------------------------------------------------------------ grouped parameter declarations
#
# Go lets a signature declare several names with one type: `a, b, c string, n int` is TWO ast fields for four
# parameters.  A parameter carries the key "grp" (any value); a maximal run of neighbouring parameters with the
# same "grp" and the same Go type is one field.  project.render_method wants the grouping as index lists under
# the method key "groups"; with_groups derives them from the parameters (so that a shrinker which deletes a
# parameter keeps a consistent project).

def with_groups(p):
    """A copy of the project in which every method with a "grp"-marked parameter carries render_method's "groups"."""
    p = copy.deepcopy(p)
    for c in p["controllers"]:
        for m in c["methods"]:
            ps = m["params"]
            if not any(x.get("grp") is not None for x in ps):
                if [i for g in m.get("groups") or [] for i in g] != list(range(len(ps))):
                    m.pop("groups", None)      # no marks: a given grouping is kept when it fits the parameters
                continue
            groups, k = [], 0
            while k < len(ps):
                j = k
                while (ps[k].get("grp") is not None and j + 1 < len(ps) and ps[j + 1].get("grp") == ps[k]["grp"]
                       and P.go_type(ps[j + 1]) == P.go_type(ps[k])):
                    j += 1
                groups.append(list(range(k, j + 1)))
                k = j + 1
            m["groups"] = groups
    return p


def group_shape(m):
    """The field sizes of a method's signature, e.g. [3, 1] for `a, b, c T, d U`."""
    return [len(g) for g in m.get("groups") or [[i] for i in range(len(m["params"]))]]


def grp(g, params):
    for x in params:
        x["grp"] = g
    return params


def grouped_declarations_project():
    """Deliberate signatures over the positions a multi-name field can take: first, in the middle, last, behind a
    context, twice in a row; of value, pointer, enum, alias and package-local types; followed by a parameter of
    another type, by a body, by a slice; the names of one field coming from different places of the request."""
    q = lambda n, t="string", **kw: prm(n, "query", t, **kw)      # noqa: E731
    h = lambda n, t="string", **kw: prm(n, "header", t, **kw)     # noqa: E731
    ms = [
        # a, b, c T, d U
        meth("Search", "GET", "/search", grp(0, [q("tenant"), q("region"), q("zone")]) + [q("limit", "int")], "string"),
        # a T, b, c, d *U, body B        (a field in the middle, pointers, a body behind it)
        meth("Rename", "POST", "/entries/{id}", [prm("id", "path", "string")]
             + grp(0, [h("actor", pointer=True), h("reason", pointer=True), h("ticket", pointer=True)])
             + [prm("entry", "body", "Item")], "Item"),
        # a, b T, d U                    (a pair)
        meth("Count", "GET", "/count", grp(0, [q("tenant"), q("region")]) + [q("deep", "bool")], "int"),
        # a T, b, c, d U                 (the field is last)
        meth("Tail", "GET", "/tail", [q("deep", "bool")] + grp(0, [q("x", "int"), q("y", "int"), q("z", "int")]), "int"),
        # ctx, a, b, c T, d U, e V
        meth("WithCtx", "GET", "/ctx", [dict(CTX)] + grp(0, [q("a", "int64"), q("b", "int64"), q("d", "int64")])
             + [q("e", "bool", pointer=True), q("f", "float64")], "string"),
        # a, b, c, d T, e U, f V, g T    (four names; the type of the field comes back later)
        meth("Four", "GET", "/four/{p1}", grp(0, [q("k1", "ItemKind"), q("k2", "ItemKind"), q("k3", "ItemKind"),
                                                  q("k4", "ItemKind")])
             + [prm("p1", "path", "ItemId"), q("n", "uint32"), q("k5", "ItemKind")], "ItemKind"),
        # a, b, c T, d, e, f U           (two fields in a row)
        meth("Twice", "GET", "/twice", grp(0, [q("s1"), q("s2"), q("s3")])
             + grp(1, [q("n1", "int"), q("n2", "int"), q("n3", "int")]), "string"),
        # names of one field from different places, package-local types, a slice behind the field
        meth("Mixed", "GET", "/mixed/{t2}", grp(0, [q("t1", "Tag"), prm("t2", "path", "Tag"), h("t3", "Tag")])
             + [q("xs", "string", slice=True), q("w", "Tag", pointer=True)], "*Dto"),
        # form fields: a, b, c T, d U, e, f *V
        meth("Form", "POST", "/form", grp(0, [prm("f1", "form", "string", validator="required"),
                                              prm("f2", "form", "string", alias="second"), prm("f3", "form", "string")])
             + [prm("f4", "form", "int")] + grp(1, [prm("f5", "form", "bool", pointer=True),
                                                    prm("f6", "form", "bool", pointer=True)]), None),
        # a, b, c T, body *B             (a pointer body behind the field)
        meth("Patch", "PATCH", "/patch", grp(0, [q("u1", "uint"), q("u2", "uint"), q("u3", "uint")])
             + [prm("dto", "body", "Dto", pointer=True)], "Dto"),
    ]
    return {"config": cfg(), "types": ["Item"],
            "controllers": [{"name": "CatalogCtl", "pkg": "ctl", "tag": "T", "route": "/catalog", "security": [],
                             "descr": "", "methods": ms[:6]},
                            {"name": "LedgerCtl", "pkg": "ctlb", "tag": "T", "route": "/ledger", "security": [],
                             "descr": "", "methods": ms[6:]}]}


GROUP_TYPES = ["string", "int", "int64", "bool", "float64", "uint32", "ItemKind", "ItemId", "Tag"]


def random_grouped_project(rng, n_methods=7):
    """Seeded signatures: a sequence of fields of 1-4 names, every field with its own type (value or pointer),
    every name bound to its own place of the request; optionally a context in front and one body somewhere."""
    def method(i):
        sizes = [rng.choice([1, 1, 2, 3, 3, 4]) for _ in range(rng.randint(2, 4))]
        if max(sizes) < 3 and rng.random() < 0.7:
            sizes[rng.randrange(len(sizes))] = rng.choice([3, 4])
        use_form = rng.random() < 0.25
        body_at = rng.randrange(len(sizes) + 1) if (not use_form and rng.random() < 0.35) else None
        params, path_names, n = [], [], 0
        if rng.random() < 0.3:
            params.append(dict(CTX))
        last_t = None
        for gi, size in enumerate(sizes):
            if body_at == gi:
                params.append(prm("payload", "body", rng.choice(["Item", "Dto"]), pointer=rng.random() < 0.4))
                last_t = None
            t = rng.choice([x for x in GROUP_TYPES if x != last_t])
            last_t = t
            ptr = rng.random() < 0.35
            field = []
            for _ in range(size):
                locs = ["query", "query", "header"] + (["form"] if use_form else []) + ([] if ptr else ["path"])
                loc = rng.choice(locs)
                name = "v%d%s" % (n, rng.choice(["", "x", "Id"]))
                n += 1
                if loc == "path":
                    if len(path_names) >= 2:
                        loc = "query"
                    else:
                        path_names.append(name)
                x = prm(name, loc, t, pointer=ptr,
                        validator=("required" if rng.random() < 0.2 else None),
                        alias=(name + "_w" if (loc != "path" and rng.random() < 0.2) else None))
                field.append(x)
            params += grp(gi, field)
        if body_at == len(sizes):
            params.append(prm("payload", "body", rng.choice(["Item", "Dto"]), pointer=rng.random() < 0.4))
        verb = "POST" if (use_form or body_at is not None) else rng.choice(["GET", "DELETE"])
        route = "/g%d" % i + "".join("/{%s}" % nm for nm in path_names)
        return meth("Grp%d" % i, verb, route, params, rng.choice(["string", "int", "Item", "*Item", "Dto", "ItemKind", None]))
    ms = [method(i) for i in range(n_methods)]
    cut = rng.randint(2, n_methods - 2)
    return {"config": cfg(), "types": ["Item"],
            "controllers": [{"name": "GrpCtlA", "pkg": "ctl", "tag": "T", "route": "/ga", "security": [], "descr": "",
                             "methods": ms[:cut]},
                            {"name": "GrpCtlB", "pkg": "ctlb", "tag": "T", "route": "", "security": [], "descr": "",
                             "methods": ms[cut:]}]}


def regroup_random(rng, p):
    """On a seeded random project: neighbouring parameters of one Go type are declared as one field (`a, b T`),
    with probability 1/2 per method."""
    for c in p["controllers"]:
        for m in c["methods"]:
            if rng.random() < 0.5:
                for x in m["params"]:
                    if not x["ctx"]:
                        x["grp"] = 0
    return p


def borderline_projects(rng, n_random):
    """Projects the validators of HEAD refuse (a slice outside query/body, a pointer in the path, two bodies, a
    payload mixed with form fields, an 'error' that is no error ...).  C09 has no opinion on whether such a project
    is accepted; it says: refused => no file written, accepted => the file compiles.  So the expectation is None and
    prop_C09 decides on whatever gleece does with them."""
    out = []

    def one(label, m, errtype=None):
        if errtype:
            m["errtype"] = errtype
        out.append(("borderline:" + label, one_route_project(label, m), None))
    for loc in ("form", "header", "path"):
        for t in ("string", "int", "ItemKind", "ItemId"):
            if loc == "header" and t in ("int", "ItemId"):
                continue
            if loc == "path":
                if t != "string":
                    continue
                one("slice-path-%s" % t, meth("M0", "GET", "/a/{xs}", [prm("xs", "path", t, slice=True)], "string"))
            else:
                one("slice-%s-%s" % (loc, t), meth("M0", "POST", "/a", [
                    prm("title", loc, "string"), prm("xs", loc, t, slice=True, alias="x"),
                    prm("ns", loc, "int", slice=True, validator="required")], "Item"))
    one("pointer-slice-query", meth("M0", "GET", "/a", [prm("xs", "query", "string", slice=True, pointer=True)], "string"))
    one("pointer-path", meth("M0", "GET", "/a/{v}", [prm("v", "path", "string", pointer=True)], "string"))
    one("two-bodies", meth("M0", "POST", "/a", [prm("a", "body", "Item"), prm("b", "body", "Item")], "string"))
    one("body-and-form", meth("M0", "POST", "/a", [prm("a", "body", "Item"), prm("f", "form", "string")], "string"))
    one("struct-in-query", meth("M0", "GET", "/a", [prm("it", "query", "Item")], "string"))
    one("struct-in-form", meth("M0", "POST", "/a", [prm("it", "form", "Dto")], "string"))
    one("primitive-body", meth("M0", "POST", "/a", [prm("n", "body", "int")], "string"))
    one("slice-body", meth("M0", "POST", "/a", [prm("its", "body", "Item", slice=True)], "string"))
    one("error-type-is-no-error", meth("M0", "GET", "/a", [], "string"), errtype="Dto")
    # the same kind of edit on seeded random projects: one non-body parameter becomes a slice where it stands
    opts = {"security": True, "params": True, "multipkg": True, "multifile": True, "enums": True}
    for i in range(n_random):
        p = P.gen_project(rng, opts)
        cands = [x for c in p["controllers"] for m in c["methods"] for x in m["params"]
                 if not x["ctx"] and x["loc"] in ("form", "header", "path")]
        if not cands:
            continue
        x = rng.choice(cands)
        x["slice"], x["pointer"] = True, False
        out.append(("borderline:random-slice-%s" % x["loc"], p, None))
    # a verb that differs from a supported one only by letter case: gin and echo paste the verb as a method name
    # (`engine.GET(`), chi and fiber camel-case it, mux passes it as a string
    for v, params, ret in (("get", [prm("id", "path", "string")], "Item"), ("Post", [prm("it", "body", "Item")], "Item"),
                           ("dELETE", [prm("id", "path", "string")], None)):
        route = "/a/{id}" if any(x["loc"] == "path" for x in params) else "/a"
        one("verb-case-%s" % v, meth("M0", v, route, params, ret))
    # ... next to conventionally spelled routes of the same controller
    p = one_route_project("verb-case-mixed", meth("M0", "GET", "/a/{id}", [prm("id", "path", "string")], "Item"))
    p["controllers"][0]["methods"] += [meth("M1", "Delete", "/a/{id}", [prm("id", "path", "string")], None),
                                       meth("M2", "POST", "/a", [prm("it", "body", "Item")], "Item"),
                                       meth("M3", "put", "/a", [prm("it", "body", "Item")], "Item"),
                                       meth("M4", "pATCH", "/a", [prm("it", "body", "Item", pointer=True)], "string")]
    out.append(("borderline:verb-case-mixed", p, None))
    return out


# ------------------------------------------------------------------ the configured package
#
# routesConfig.packageName is the user's choice: the routes file is generated INTO a directory of the user's
# project, next to hand-written files of that package.  Any Go identifier is a package name (upper-case letters
# and underscores included; the lower-case convention is a style rule).  An instance carries the name as the raw
# override flags["routesConfig"]["packageName"] ("{engine}" is replaced by the engine name, servers.engine_config);
# without it the name is servers' default routes<engine>.  Such an instance also gets a hand-written file of the
# configured package in the output directory (present BEFORE gleece runs); it refers to the generated entry
# point.  The file carries a build constraint so that the driver build of servers.build_servers - which cannot
# attribute a "found packages a and b" diagnostic - does not see it; the directory is then built with the tag on.

PACKAGE_NAMES = ["apiRoutes", "APIv2", "api_routes_{engine}", "Routes{engine}", "routesV1_{engine}", "_gen", "R", "apiV1_Gen",
                 "r\u00e9seau", "Маршруты"]
PACKAGE_NAMES_DEDICATED = ["apiRoutes", "api_routes_{engine}", "_gen", "Маршруты"]     # the others ride on other instances
PACKAGE_NAMES_BORDERLINE = ["my-routes", "2routes", "type"]
# `"packageName": "_"`: HEAD exits 0 and writes `package _`, which parses but is no package ("invalid package name _").
# The shape is generated only when a known finding of this class is listed (known_findings.json / VERIF_KNOWN_EXTRA)
BLANK_PACKAGE_CLASS = "blank-package-name-accepted"
HAND_TAG = "verifhand"
HAND_FILE = "zz_handwritten.go"
GO_KEYWORDS = {"break", "case", "chan", "const", "continue", "default", "defer", "else", "fallthrough", "for", "func", "go",
               "goto", "if", "import", "interface", "map", "package", "range", "return", "select", "struct", "switch", "type",
               "var"}


def configured_package(fl, engine):
    """The package the routes file of this (flags, engine) is configured to be in."""
    v = ((fl or {}).get("routesConfig") or {}).get("packageName")
    if v is None:
        return "routes" + engine
    return v.replace("{engine}", engine) or "routes"      # an empty name means gleece's default


def is_package_name(name):
    return bool(re.match(r"^[^\W\d]\w*$", name)) and name != "_" and name not in GO_KEYWORDS


def has_hand_file(fl):
    return ((fl or {}).get("routesConfig") or {}).get("packageName") is not None


def with_package(fl, pattern):
    fl = copy.deepcopy(fl or {})
    fl.setdefault("routesConfig", {})["packageName"] = pattern
    return fl


def hand_written_source(pkg):
    return ("//go:build %s\n\npackage %s\n\n// hand-written code of the user's package: it refers to the generated "
            "entry point\nvar Mount = RegisterRoutes\n" % (HAND_TAG, pkg))


def package_name_instances(prng, blank=False):
    """(label, project, flags, expectation): small projects under package-name shapes.  A name that is no Go
    package name is borderline (refused and nothing written, or whatever is written compiles)."""
    out = []
    for i, pat in enumerate(PACKAGE_NAMES_DEDICATED + PACKAGE_NAMES_BORDERLINE + (["_"] if blank else [])):
        m = meth("M0", "GET", "/a/{k}", [prm("k", "path", "ItemKind"), prm("n", "query", "int", pointer=True)],
                 ["Item", "*Dto", "string"][i % 3])
        lb = ("package-name:" if pat in PACKAGE_NAMES_DEDICATED else "borderline:package-name:") + pat
        out.append((lb, one_route_project(lb, m), with_package(prng.choice(ALL_COMBOS), pat), None))
    return out


def build_hand_written(h, chunk_flags):
    """Builds every output directory that holds a hand-written file with the file's build tag on.
    Returns {(k, engine): True | compiler text}."""
    todo = [(k, e) for k, fl in enumerate(chunk_flags) if has_hand_file(fl) for e in ENGINES
            if is_package_name(configured_package(fl, e)) and h.routes_source(k, e) is not None]
    out = {}
    if not todo:
        return out
    cmd = ["go", "build", "-tags", HAND_TAG]
    pb = run(cmd + ["./p%d/routes_%s" % ke for ke in todo], cwd=h.mod, env=GOENV, check=False, timeout=1500)
    for ke in todo:
        out[ke] = True
    if pb.returncode != 0:      # attribute: one directory at a time (what built is cached)
        for ke in todo:
            if h.compiles[ke[0]][ke[1]] is not True:
                out[ke] = "the generated file alone does not compile"
                continue
            p1 = run(cmd + ["./p%d/routes_%s" % ke], cwd=h.mod, env=GOENV, check=False, timeout=900)
            if p1.returncode != 0:
                out[ke] = (p1.stderr.decode(errors="replace") + p1.stdout.decode(errors="replace"))[-1200:]
    return out


def deliberate_projects():
    """(label, project, expectation) - expectation 'reject' means gleece must refuse the project."""
    out = []
    out.append(("quote-in-scope", one_route_project(
        "quote-in-scope", meth("M0", "GET", "/a", [], "string", sec=[{"name": "sec1", "scopes": ['a"b']}])), None))
    out.append(("enforce-unsecured", one_route_project(
        "enforce-unsecured", meth("M0", "GET", "/a", [], "string"), enforce=True), "reject"))
    out.append(("bad-verb", one_route_project("bad-verb", meth("M0", "FETCH", "/a", [], "string")), "reject"))
    out.append(("two-packages-same-names", two_package_project(), None))
    out.append(("grouped-declarations", grouped_declarations_project(), None))
    out.append(("controller-named-RequestAuth", one_route_project(
        "controller-named-RequestAuth", meth("M0", "GET", "/a", [prm("k", "query", "ItemKind")], "string"),
        ctrl="RequestAuth"), None))
    out += custom_error_projects()
    return out


def mutate_types(rng, p):
    """Sprinkle enum / alias typed parameters and enum results over a generated project."""
    p = copy.deepcopy(p)
    for c in p["controllers"]:
        for m in c["methods"]:
            for x in m["params"]:
                if x["ctx"] or x["loc"] == "body":
                    continue
                if x["type"] == "string" and rng.random() < 0.5:
                    x["type"] = rng.choice(["ItemKind", "ItemId"])
                    if x["validator"] not in (None, "required"):
                        x["validator"] = None
            if m["ret"] == "string" and rng.random() < 0.3:
                m["ret"] = "ItemKind"
    # package-local types (ctl.Dto / ctlb.Dto ...): types of different packages under one parameter name
    for c in p["controllers"]:
        for m in c["methods"]:
            for x in m["params"]:
                if x["ctx"]:
                    continue
                if x["loc"] == "body" and rng.random() < 0.5:
                    x["type"] = "Dto"
                elif x["loc"] != "body" and x["type"] in ("string", "ItemId") and rng.random() < 0.3:
                    x["type"] = "Tag"
                    if x["validator"] not in (None, "required"):
                        x["validator"] = None
            if m["ret"] in ("Item", "*Item") and rng.random() < 0.4:
                m["ret"] = m["ret"].replace("Item", "Dto")
    # custom error types: per controller one way of returning each error type (by value / by address)
    for c in p["controllers"]:
        if rng.random() < 0.5:
            continue
        style = {e: rng.choice(["", "*"]) + e for e in LOCAL_ERRORS}
        for m in c["methods"]:
            if rng.random() < 0.6:
                m["errtype"] = style[rng.choice(LOCAL_ERRORS)]
                if m["ret"] in ("Item", "*Item", "string") and rng.random() < 0.5:
                    m["ret"] = "*Dto" if m["ret"].startswith("*") else "Dto"
    return p


# ------------------------------------------------------------------ model input

def type_pkg(t, modpath, ctrl_pkg):
    base = t.lstrip("*[]")
    if base in ("Item", "ItemKind", "ItemId") or base in P.ENUMS:
        return modpath + "/types"
    if base in servers.LOCAL_TYPES or base in LOCAL_ERRORS:
        return modpath + "/" + ctrl_pkg      # declared in the controller's own package
    if base == "context.Context":
        return "context"
    return ""


def model_controllers(p, modpath):
    """The abstract project as Model/Imports.v sees it: (name, pkg path, routes[(params, resps)])."""
    out = []
    for c in sorted(p["controllers"], key=lambda c: c["name"].encode()):
        routes = []
        for m in c["methods"]:
            params = []
            for x in m["params"]:
                if x["ctx"]:
                    continue     # context parameters are passed as getRequestContext(...): no alias is referenced
                params.append((x["name"], x["type"].lstrip("*[]"), type_pkg(x["type"], modpath, c["pkg"])))
            resps = []
            if m["ret"]:
                resps.append((m["ret"].lstrip("*"), type_pkg(m["ret"], modpath, c["pkg"]), m["ret"].startswith("*")))
            et = errtype_of(m)
            resps.append((et.lstrip("*"), type_pkg(et, modpath, c["pkg"]), et.startswith("*")))
            routes.append((params, resps))
        out.append((c["name"], modpath + "/" + c["pkg"], routes))
    return out


def infer_serials(ctrls, observed):
    """Recover the serial of every package-qualified parameter type from the aliases of the file.
    observed: list of (path, alias).  Every parameter (name n, type T in package P) must appear as
    `Param<serial T>n "P"`, so the candidates of T are the digit strings d such that Param<d><n> is
    imported from P for *every* parameter name n of type T; remaining ambiguity (a name shared by two
    types) is resolved by elimination.  A custom error type E returned by value must in addition appear as
    `Response<serial E>E "P"` (the only response alias the handlers refer to).  A type without any candidate
    (an alias the model expects is missing) is left out of the table and reported.
    Returns (table {(type name, pkg): digits}, error or None)."""
    seen = {}
    for (path, alias) in observed:
        m = re.match(r"^(Param|Response)(\d+)(\D.*)$", alias)
        if m:
            seen.setdefault((path, (m.group(1), m.group(3))), set()).add(m.group(2))
    names = {}
    for (_, _, routes) in ctrls:
        for (params, resps) in routes:
            for (pn, tn, pk) in params:
                if pk:
                    names.setdefault((tn, pk), set()).add(("Param", pn))
            # the alias of a custom by-value error (last return value) is referred to by the handler
            # (`emptyErr := Response<serial T>T.T{}`), so it survives imports.Process
            if resps:
                (tn, pk, by_addr) = resps[-1]
                if pk and not by_addr and tn != "error":
                    names.setdefault((tn, pk), set()).add(("Response", tn))
    cand = {}
    for key, ns in names.items():
        c = None
        for n in ns:
            d = seen.get((key[1], n), set())
            c = set(d) if c is None else (c & d)
        cand[key] = c or set()
    flat, err = {}, None
    progress = True
    while progress:
        progress = False
        for key, c in cand.items():
            if key in flat:
                continue
            rest = c - set(flat.values())
            if len(rest) == 1:
                flat[key] = next(iter(rest))
                progress = True
    # what is left is symmetric (e.g. two types whose only parameters share one name): any injective
    # choice yields the same alias set; pick the first one found by backtracking
    rest_keys = sorted(k for k in cand if k not in flat and cand[k])
    missing = sorted(k for k in cand if not cand[k])

    def search(i, used, acc):
        if i == len(rest_keys):
            return acc
        for d in sorted(cand[rest_keys[i]] - used):
            acc2 = dict(acc)
            acc2[rest_keys[i]] = d
            r = search(i + 1, used | {d}, acc2)
            if r is not None:
                return r
        return None
    sol = search(0, set(flat.values()), {})
    if sol is None:
        err = "no injective serial assignment explains the aliases: candidates %s" % {
            str(k): sorted(cand[k]) for k in rest_keys}
    else:
        flat.update(sol)
    if missing and err is None:
        err = "no alias `Param<d><name>` / `Response<d><type>` common to every use of %s" % [str(k) for k in missing]
    if len(set(flat.values())) != len(flat):
        err = "serial not injective: %s" % flat
    return flat, err


def py_used_imports(ctrls, serial):
    pairs = set()
    for (name, pkg, routes) in ctrls:
        if routes:
            pairs.add((pkg, name))
        for (params, resps) in routes:
            for (pn, tn, pk) in params:
                if pk:
                    pairs.add((pk, "Param" + serial.get((tn, pk), "0") + pn))
            if resps:
                (tn, pk, by_addr) = resps[-1]
                if pk and not by_addr and tn != "error":
                    pairs.add((pk, "Response" + serial.get((tn, pk), "0") + tn))
    return sorted(pairs, key=lambda x: (x[0].encode(), x[1].encode()))


# ------------------------------------------------------------------ Coq

def coq_ty(tn, pk):
    return "(mkTy %s %s)" % (coq_bytes(tn), coq_bytes(pk) if pk else "[]")


def coq_ctrls(ctrls):
    cs = []
    for (name, pkg, routes) in ctrls:
        rs = []
        for (params, resps) in routes:
            ps = coq_list(["(mkIParam %s %s)" % (coq_bytes(pn), coq_ty(tn, pk)) for (pn, tn, pk) in params])
            xs = coq_list(["(mkIResp %s %s)" % (coq_ty(tn, pk), coq_bool(ba)) for (tn, pk, ba) in resps])
            rs.append("(mkIRoute %s %s)" % (ps, xs))
        cs.append("(mkICtrl %s %s %s)" % (coq_bytes(name), coq_bytes(pkg), coq_list(rs)))
    return coq_list(cs)


def coq_pairs(pairs):
    return coq_list(["(%s, %s)" % (coq_bytes(a), coq_bytes(b)) for a, b in pairs])


def coq_file_obs(f):
    if f is None:
        return "None"
    imps = coq_list(["(%s, %s, %s)" % (coq_bytes(i["alias"]) if i["alias"] else "[]", coq_bytes(i["path"]),
                                      coq_bool(i["used"])) for i in f["imports"]])
    return "(Some (mkFileObs %s %s %s %s %s))" % (coq_bool(f["parse_ok"]), coq_bool(f["gofmt_clean"]),
                                                  coq_bytes(f["package"]), imps, coq_bool(f["compiles"]))


HEADER = """From Gleece Require Import Base.Bytes Model.Imports.
From Coq Require Import String.
Record case := mkCase { k_id : nat; k_pkg : str; k_gen : bool; k_wrote : bool; k_obs : option file_obs;
                        k_cmp : bool; k_tbl : list (tyref * str); k_cs : list ictrl; k_seen : list ipair }.
Definition holds (c : case) := prop_C09 (k_pkg c) (k_gen c) (k_wrote c) (k_obs c).
Definition holds_nofmt (c : case) := prop_C09_no_gofmt (k_pkg c) (k_gen c) (k_wrote c) (k_obs c).
Definition agrees (c : case) :=
  negb (k_cmp c) || list_eqb ipair_eqb (used_import_list (serial_lookup (k_tbl c)) (k_cs c)) (k_seen c).
"""


def coq_evaluate(cases, tag="cases"):
    """Returns (ids failing prop_C09, ids failing prop_C09 without the gofmt clause, ids where the import model disagrees)."""
    bad, bad_nofmt, disagree = [], [], []
    SH = 40
    for lo in range(0, len(cases), SH):
        rows = []
        for i in range(lo, min(lo + SH, len(cases))):
            c = cases[i]
            tbl = coq_list(["(%s, %s)" % (coq_ty(k[0], k[1]), coq_bytes(v)) for k, v in sorted(c["serial"].items())])
            rows.append("(mkCase %d %s %s %s %s %s\n   %s\n   %s\n   %s)" % (
                i, coq_bytes(c["cfg_pkg"]), coq_bool(c["gen_ok"]), coq_bool(c["wrote"]), coq_file_obs(c["file"]),
                coq_bool(c["compare_imports"]), tbl, coq_ctrls(c["ctrls"]), coq_pairs(c["seen"])))
        body = (HEADER + "Definition cases : list case :=\n [" + ";\n  ".join(rows) + "].\n"
                "Definition propfail := Eval vm_compute in map k_id (filter (fun c => negb (holds c)) cases).\n"
                "Definition nofmtfail := Eval vm_compute in map k_id (filter (fun c => negb (holds_nofmt c)) cases).\n"
                "Definition disagree := Eval vm_compute in map k_id (filter (fun c => negb (agrees c)) cases).\n"
                "Print propfail.\nPrint nofmtfail.\nPrint disagree.\n")
        out = run_coq_file(PROP, "%s_%d" % (tag, lo), body)
        bad += parse_nat_list(out, "propfail")
        bad_nofmt += parse_nat_list(out, "nofmtfail")
        disagree += parse_nat_list(out, "disagree")
    return bad, bad_nofmt, disagree


# ------------------------------------------------------------------ known findings

BAD_LITERAL = re.compile(r'["\\\n]')


def pasted_strings(p):
    out = []
    for c in p["controllers"]:
        for sc in c["security"]:
            out += sc["scopes"] + [sc["name"]]
        for m in c["methods"]:
            for sc in m["security"]:
                out += sc["scopes"] + [sc["name"]]
            for x in m["params"]:
                out += [x.get("alias") or "", x.get("validator") or ""]
    if p["config"]["default_security"]:
        out += p["config"]["default_security"]["scopes"]
    return out


RESERVED = {"RequestAuth", "SecurityCheckList", "SecurityListRelation", "SecurityListRelationAnd", "MiddlewareFunc",
            "ErrorMiddlewareFunc", "RegisterRoutes", "RegisterMiddleware", "RegisterErrorMiddleware",
            "RegisterCustomValidator"}


def failure_classes(case):
    """Machine-checkable classes of a failing (instance, engine); compared with known findings' match.kind."""
    cls = []
    f = case["file"]
    if case["gen_ok"] and f is not None:
        if not f["parse_ok"] and any(BAD_LITERAL.search(x) for x in pasted_strings(case["project"])):
            cls.append("unescaped-string-in-template")
        if f["parse_ok"] and not f["gofmt_clean"]:
            cls.append("routes-file-not-gofmt-clean")
        if f["parse_ok"] and not f["compiles"] and any(c["name"] in RESERVED for c in case["project"]["controllers"]):
            cls.append("controller-name-clashes-with-generated-identifier")
        if f["parse_ok"] and not f["compiles"] and case["cfg_pkg"] == "_" and f["package"] == "_":
            cls.append(BLANK_PACKAGE_CLASS)
    return cls


def shrink_failing(c):
    """Greedy structural shrinking (speccheck.shrink_project) of a project whose routes file for one
    engine is generated with exit 0 but does not parse / compile."""
    import speccheck

    def pred(p):
        h = servers.build_servers(PROP + "_shrink", [with_groups(p)], engines=[c["engine"]], flags=[c["flags"]],
                                  prepare=render_custom_errors)
        try:
            g = h.generation[0][c["engine"]]
            return g["exit"] == 0 and h.compiles[0][c["engine"]] is not True
        finally:
            h.cleanup()
    try:
        if not pred(c["project"]):
            return c["project"]       # only the gofmt/package/alias clause fails: nothing to shrink against
        return with_groups(speccheck.shrink_project(c["project"], pred))
    except Exception as ex:          # shrinking is best effort
        log("shrinking failed: %s" % ex)
        return c["project"]


# ------------------------------------------------------------------ in-process double generation

MARK_OVERRIDE = "verifOverrideMarker()"
MARK_EXTENSION = "verifExtensionMarker()"


def override_template(engine):
    """The built-in Routes template of the engine with one extra call at the top of RegisterRoutes."""
    src = open(os.path.join(REPO, "generator", "templates", engine, "routes.hbs"), encoding="utf-8").read()
    m = re.search(r"^func RegisterRoutes\(.*\{[ \t]*$", src, re.M)
    if not m:
        raise RuntimeError("cannot find RegisterRoutes in the %s routes template" % engine)
    return src[:m.end()] + "\n\t" + MARK_OVERRIDE + "\n" + src[m.end():]


def inprocess_leg(res, tier):
    """Two projects x five engines generated (a) by one fresh CLI process each (build_servers, which also
    compiles them) and (b) by ONE process running the jobs back to back (implrun genroutes).  Project A
    replaces the main Routes template and adds a template extension, project B is plain.  Every file of
    (b) must be byte-identical to the file of (a) for the same job."""
    proj_a = one_route_project("template-override", meth("M0", "GET", "/a/{k}", [prm("k", "path", "ItemKind"),
                                                                                prm("n", "query", "int")], "Item"),
                               ctrl="AdminCtl")
    proj_b = two_package_project()
    flags_a = {"routesConfig": {"templateOverrides": {"Routes": "./routes.custom.{engine}.hbs"},
                                "templateExtensions": {"RegisterRoutesExtension": "./ext.register.hbs"}}}

    def prepare(h, k, root):
        if k != 0:
            return
        with open(os.path.join(root, "ext.register.hbs"), "w") as f:
            f.write(MARK_EXTENSION + "\n")
        for e in ENGINES:
            with open(os.path.join(root, "routes.custom.%s.hbs" % e), "w") as f:
                f.write(override_template(e))
            d = os.path.join(root, "routes_" + e)
            os.makedirs(d, exist_ok=True)
            with open(os.path.join(d, "hooks.go"), "w") as f:      # hand-written code next to the generated file
                f.write("package routes%s\n\nfunc verifOverrideMarker() {}\n\nfunc verifExtensionMarker() {}\n" % e)

    h = servers.build_servers(PROP + "_inproc", [proj_a, proj_b], flags=[flags_a, None], prepare=prepare)
    out = {"timings": dict(h.timings), "jobs": 0, "identical": 0, "problems": []}
    try:
        cli = {}
        for k in (0, 1):
            for e in ENGINES:
                g = h.generation[k][e]
                src = h.routes_source(k, e)
                cli[(k, e)] = src
                if g["exit"] != 0 or src is None or h.compiles[k][e] is not True:
                    out["problems"].append({"stage": "cli", "project": "AB"[k], "engine": e, "exit": g["exit"],
                                            "compiles": str(h.compiles[k][e])[:400], "output": g["out"][-600:]})
                elif k == 0 and (MARK_OVERRIDE not in src or MARK_EXTENSION not in src):
                    out["problems"].append({"stage": "cli", "project": "A", "engine": e,
                                            "note": "the Routes override / extension is not reflected in the CLI's output"})
        jobs, meta = [], []
        for i, e in enumerate(ENGINES):
            order = [0, 1, 0] if i % 2 == 0 else [1, 0, 1]
            for k in order:
                jobs.append({"dir": h.root(k), "config": "gleece-%s.json" % e,
                             "output": os.path.join("routes_" + e, "routes.go")})
                meta.append((k, e))
        t0 = time.time()
        results = implrun("genroutes", jobs, timeout=900)
        out["timings"]["inprocess_s"] = round(time.time() - t0, 2)
        out["jobs"] = len(jobs)
        import base64
        for n, ((k, e), r) in enumerate(zip(meta, results)):
            got = base64.b64decode(r["content_b64"]).decode("utf-8", errors="replace") if r["written"] else None
            if r["error"] or r["panic"] or got is None:
                out["problems"].append({"stage": "in-process", "job": n, "project": "AB"[k], "engine": e,
                                        "error": r["error"], "panic": r["panic"], "written": r["written"]})
                continue
            if got == cli[(k, e)]:
                out["identical"] += 1
                continue
            import difflib
            diff = list(difflib.unified_diff((cli[(k, e)] or "").splitlines(), got.splitlines(), "fresh-process",
                                             "same-process", lineterm="", n=1))
            # does the file the shared process produced still compile next to the user's packages?
            path = h.routes_path(k, e)
            with open(path, "w") as f:
                f.write(got)
            pb = run(["go", "build", "./p%d/routes_%s" % (k, e)], cwd=h.mod, env=GOENV, check=False, timeout=600)
            with open(path, "w") as f:
                f.write(cli[(k, e)] or "")
            out["problems"].append({
                "stage": "in-process", "job": n, "project": "AB"[k], "engine": e,
                "jobs_before": ["%s/%s" % ("AB"[a], b) for (a, b) in meta[:n]],
                "diff": diff[:40], "compiles": pb.returncode == 0,
                "compiler": pb.stderr.decode(errors="replace")[-600:]})
    finally:
        h.cleanup()
    for pr in out["problems"][:2]:
        if pr["stage"] == "cli":
            res.violation({"kind": "property-fails-on-implementation", "leg": "in-process double generation (CLI half)",
                           "input": {"project": proj_a if pr["project"] == "A" else proj_b,
                                     "flags": flags_a if pr["project"] == "A" else {}}, "detail": pr,
                           "claim": "an accepted project (with a Routes template override and a template extension) "
                                    "yields a compilable routes file"})
        else:
            res.violation({"kind": "property-fails-on-implementation", "leg": "in-process double generation",
                           "input": {"project_A": proj_a, "flags_A": flags_a, "project_B": proj_b,
                                     "sequence": pr.get("jobs_before", []) + ["%s/%s" % (pr["project"], pr["engine"])],
                                     "replay": "implrun genroutes over these jobs in one process (pygen/c09.py inprocess_leg)"},
                           "detail": pr,
                           "claim": "the routes file is a function of project and configuration: a generation must not "
                                    "depend on generations that ran earlier in the same process, and must compile"})
    return out


# ------------------------------------------------------------------ main

def main():
    a, seed = args_for(PROP)
    res = Result(PROP, a.tier, seed, level="translation_validation")
    rng = random.Random(seed)
    if not os.environ.get("VERIF_SKIP_COQ_BUILD"):   # development only
        build_coq()
    build_harness()
    proof_coverage(PROP, res)
    known = known_for(PROP)
    if os.environ.get("VERIF_KNOWN_EXTRA"):
        known += [f for f in json.load(open(os.environ["VERIF_KNOWN_EXTRA"])) if f.get("property") == PROP]

    instances = []      # (label, project, flags, expectation)
    if a.replay:
        rp = json.load(open(a.replay))
        instances.append(("replay", rp["input"]["project"], rp["input"].get("flags") or {}, None))
    else:
        corpus_file = os.path.join(CORPUS, PROP + ".json")
        if os.path.exists(corpus_file):
            for it in json.load(open(corpus_file)):
                instances.append(("corpus", it["project"], it.get("flags") or {}, None))
        cov = coverage_project()
        for fl in (ALL_COMBOS if a.tier == "thorough" else [ALL_COMBOS[0], ALL_COMBOS[1], ALL_COMBOS[2], ALL_COMBOS[4],
                                                             ALL_COMBOS[7]]):
            instances.append(("coverage", cov, fl, None))
        for (label, p, exp) in deliberate_projects():
            instances.append((label, p, {}, exp))
        n = 5 if a.tier == "quick" else 40
        opts = {"security": True, "params": True, "multipkg": True, "multifile": True, "enums": True}
        grng = random.Random(seed * 1000003 + 9)     # its own stream: the other instances of a seed stay what they were
        for _ in range(n):
            p = regroup_random(grng, mutate_types(rng, P.gen_project(rng, opts)))
            combos = [ALL_COMBOS[0]] + rng.sample(ALL_COMBOS[1:], 2 if a.tier == "quick" else 3)
            for fl in combos:
                instances.append(("random", p, fl, None))
        for (label, p, exp) in borderline_projects(rng, 3 if a.tier == "quick" else 30):
            instances.append((label, p, rng.choice(ALL_COMBOS), exp))
        for _ in range(2 if a.tier == "quick" else 20):
            instances.append(("random-grouped", random_grouped_project(grng), grng.choice(ALL_COMBOS), None))
        # the configured package: its own stream again.  Dedicated small projects under every name shape, and a
        # name (with a hand-written file of that package in the output directory) on a third of the instances above
        prng = random.Random(seed * 1000003 + 17)
        named = []
        for (lb, p, fl, exp) in instances:
            if lb != "corpus" and not lb.startswith("borderline:") and prng.random() < (1 / 3.0):
                fl = with_package(fl, prng.choice(PACKAGE_NAMES))
            named.append((lb, p, fl, exp))
        instances = named + package_name_instances(prng, blank=any(
            f.get("match", {}).get("kind") == BLANK_PACKAGE_CLASS for f in known))
    instances = [(lb, with_groups(p), fl, exp) for (lb, p, fl, exp) in instances]

    cases, timings = [], []
    BATCH = 32
    for lo in range(0, len(instances), BATCH):
        chunk = instances[lo:lo + BATCH]

        def prepare(h, k, root, chunk=chunk):
            render_custom_errors(h, k, root)
            fl = chunk[k][2]
            if has_hand_file(fl):       # hand-written code of the configured package, there before gleece runs
                for e in ENGINES:
                    pkg = configured_package(fl, e)
                    if is_package_name(pkg):
                        d = os.path.join(root, "routes_" + e)
                        os.makedirs(d, exist_ok=True)
                        with open(os.path.join(d, HAND_FILE), "w", encoding="utf-8") as f:
                            f.write(hand_written_source(pkg))
        h = servers.build_servers(PROP, [it[1] for it in chunk], flags=[it[2] for it in chunk], prepare=prepare)
        t_hand = time.time()
        hand = build_hand_written(h, [it[2] for it in chunk])
        h.timings["hand_written_dirs"] = len(hand)
        h.timings["hand_written_build_s"] = round(time.time() - t_hand, 2)
        timings.append(h.timings)
        facts = implrun("gofile", [{"path": h.routes_path(k, e)} for k in range(len(chunk)) for e in ENGINES])
        j = 0
        for k, (label, p, fl, exp) in enumerate(chunk):
            modpath = "%s/p%d" % (servers.MODNAME, k)
            ctrls = model_controllers(p, modpath)
            for e in ENGINES:
                g = h.generation[k][e]
                f = facts[j]
                j += 1
                fobs = None
                if f["exists"]:
                    # "compiles": the generated file in the user's module AND, where the output directory holds
                    # hand-written code of the configured package, the directory as a whole
                    fobs = dict(f, compiles=(h.compiles[k][e] is True and hand.get((k, e), True) is True))
                seen = sorted([(i["path"], i["alias"]) for i in (f["imports"] if f["exists"] else [])
                               if i["alias"] and i["alias"] != "RequestAuth"
                               and i["path"].startswith(servers.MODNAME + "/")],   # the user's packages
                              key=lambda x: (x[0].encode(), x[1].encode()))
                serial, serr = infer_serials(ctrls, seen)
                cases.append({
                    "instance": lo + k, "label": label, "project": p, "flags": fl, "engine": e, "expect": exp,
                    "cfg_pkg": configured_package(fl, e), "hand_written": hand.get((k, e)), "gen_ok": g["exit"] == 0, "gen_exit": g["exit"], "wrote": g["wrote"],
                    "gen_out": g["out"][-1200:], "file": fobs, "ctrls": ctrls, "seen": seen, "serial": serial,
                    "serial_error": serr,
                    "compiles": h.compiles[k][e] if h.compiles[k][e] is not True or hand.get((k, e), True) is True
                    else "the output directory (generated file + hand-written file of package %s) does not build: %s" % (
                        configured_package(fl, e), hand[(k, e)]),
                    "compare_imports": bool(g["exit"] == 0 and fobs and fobs["parse_ok"]),
                })
        h.cleanup()

    bad, bad_nofmt, disagree = coq_evaluate(cases)

    # cross-check of the Coq evaluation with the facts (guards the term printer)
    def py_holds(c, fmt=True):
        if not c["gen_ok"]:
            return not c["wrote"]
        f = c["file"]
        if f is None:
            return False
        al = [i for i in f["imports"] if i["alias"]]
        ok_alias = all(re.match(r"^[A-Za-z_\x80-\xff][A-Za-z0-9_\x80-\xff]*$", i["alias"]) and i["used"] for i in al) \
            and len(set(i["alias"] for i in al)) == len(al)
        return bool(f["parse_ok"] and (f["gofmt_clean"] or not fmt) and f["package"] == c["cfg_pkg"] and ok_alias
                    and f["compiles"])
    py_bad = [i for i, c in enumerate(cases) if not py_holds(c)]
    if sorted(py_bad) != sorted(bad):
        res.violation({"kind": "oracle-mismatch", "obligation": "prop_C09 (vm_compute) vs the driver's own evaluation",
                       "python_only": sorted(set(py_bad) - set(bad))[:10],
                       "coq_only": sorted(set(bad) - set(py_bad))[:10]}, no_input=True)

    def replay_of(c, **kw):
        d = {"input": {"project": c["project"], "flags": c["flags"]}, "engine": c["engine"], "label": c["label"],
             "generation_exit": c["gen_exit"], "generation_output": c["gen_out"], "file_written": c["wrote"],
             "configured_package": c["cfg_pkg"],
             "hand_written_file": (None if c["hand_written"] is None else
                                   {"name": HAND_FILE, "source": hand_written_source(c["cfg_pkg"]),
                                    "directory_builds": c["hand_written"]}),
             "file_facts": {k: v for k, v in (c["file"] or {}).items() if k != "imports"},
             "compiler": c["compiles"] if c["compiles"] is not True else "ok"}
        d.update(kw)
        return d

    reported = set()
    known_count = {}
    # small projects first: the reported inputs are the smallest failing ones
    for i in sorted(bad, key=lambda i: (sum(len(cc["methods"]) for cc in cases[i]["project"]["controllers"]), i)):
        c = cases[i]
        classes = failure_classes(c)
        hits = [f for f in known if f.get("match", {}).get("kind") in classes]
        # a failure is explained only if every failing clause belongs to a listed class:
        # without the gofmt clause the case must hold, unless another listed class explains the rest
        explained = bool(hits)
        if explained and i in bad_nofmt:
            explained = any(f["match"]["kind"] != "routes-file-not-gofmt-clean" for f in hits)
        if explained:
            for f in hits:
                known_count[f["id"]] = known_count.get(f["id"], 0) + 1
                res.known(f, "%s (%s)" % (f["match"]["kind"], c["label"] if c["label"] not in ("random", "coverage")
                                           else "every generated file"))
            continue
        key = (tuple(classes), c["label"], c["gen_ok"], bool(c["file"] and c["file"]["parse_ok"]),
               bool(c["file"] and c["file"]["compiles"]))
        if key in reported or len(reported) >= 4:
            continue
        reported.add(key)
        if c["gen_ok"] and c["expect"] is None and len(reported) <= 2:
            c = dict(c, project=shrink_failing(c))
        claim = "prop_C09: generation exit 0 => file parses, is gofmt-clean, declares the configured package, its " \
                "import aliases are valid, unique and used, and it compiles; exit != 0 => no file written"
        res.violation(replay_of(c, kind="property-fails-on-implementation", classes=classes, claim=claim))
    for i in [i for i in disagree if i not in bad_nofmt][:1]:
        c = cases[i]
        res.violation(replay_of(c, kind="correspondence", obligation="corr:Imports.used_import_list",
                                model=py_used_imports(c["ctrls"], c["serial"]), observed=c["seen"],
                                serial_error=c["serial_error"],
                                note="the import block of the generated file is not the model's"), no_input=True)
    for c in cases:
        if c["serial_error"] and c["compare_imports"] and not res.violations:
            res.violation(replay_of(c, kind="correspondence", obligation="corr:Imports serial inference",
                                    serial_error=c["serial_error"]), no_input=True)
            break
    # expectations of the deliberate probes
    for c in cases:
        if c["expect"] == "reject" and c["gen_ok"] and not res.violations:
            res.violation(replay_of(c, kind="harness-expectation",
                                    note="probe %s was expected to be rejected by gleece; the no-file-on-failure "
                                         "half of C09 is not exercised" % c["label"]), no_input=True)
            break

    inproc = {"skipped": "replay"} if a.replay else inprocess_leg(res, a.tier)

    files_ok = [c for c in cases if c["gen_ok"] and c["file"] and c["file"]["parse_ok"] and c["file"]["compiles"]]
    distinct = set(json.dumps([c["project"], c["flags"], c["engine"]], sort_keys=True) for c in files_ok
                   if any(cc["methods"] for cc in c["project"]["controllers"]))
    sample = next((c for c in cases if c["label"] == "random" and c["gen_ok"]), cases[0])
    res.coverage.update({
        "programs": sum(1 for c in cases if c["file"]), "disagreements_checked": len(bad) + len(disagree),
        "evaluations": len(cases), "distinct_nontrivial": len(distinct),
        "rule": "instances = (abstract project, experimental flag set); per instance five `gleece generate routes` runs "
                "(one per engine); projects: a coverage project enumerating parameter location x type kind "
                "(string, ints, bool, float, enum, alias, slices, body, context) x pointer x validator, seeded random "
                "projects (project.gen_project + enum/alias mutation, multi-file, two packages) under three flag sets "
                "each, and deliberate probes (quote in a scope string, two rejected projects, a controller named like "
                "a generated identifier, custom error types returned by value / by address next to payload types of "
                "the same or another package; signatures that declare several names in one field - `a, b, c T, d U` - "
                "with the field first, in the middle, last, behind a context, twice, of value/pointer/enum/alias/"
                "package-local types, followed by a body or a slice, also seeded ones and the regrouped neighbours of the "
                "seeded random projects), and borderline projects the validators are expected to refuse (slice "
                "typed form/header/path parameters, pointer path parameter, two bodies, body with form fields, struct "
                "in query/form, an error type that embeds no error; also one such edit on seeded random projects) for "
                "which either outcome is admitted: refused and no file written, or accepted and the file compiles; "
                "among them @Method verbs that differ from a supported verb only by letter case (get, Post, dELETE, also "
                "next to conventionally spelled routes) and routesConfig.packageName values that are no Go package name "
                "(my-routes, 2routes, type). The configured package is an input dimension: a third of the instances and "
                "dedicated small projects carry a packageName with upper-case letters, underscores, a leading underscore "
                "or non-ASCII letters, and a hand-written file of that package that refers to RegisterRoutes lies in the "
                "output directory before gleece runs; the package clause must equal the configured name and the directory "
                "(generated + hand-written file) must build. "
                "distinct_nontrivial = distinct (project, flags, engine) whose file parsed and "
                "compiled and whose project has at least one route",
        "samples": [{"label": sample["label"], "flags": sample["flags"], "engine": sample["engine"],
                     "project": sample["project"], "generation_exit": sample["gen_exit"],
                     "file_facts": {k: v for k, v in (sample["file"] or {}).items()},
                     "model_imports": py_used_imports(sample["ctrls"], sample["serial"])}],
        "traces_validated_against_impl": len([c for c in cases if c["compare_imports"]]) - len(disagree),
        "import_blocks_compared": len([c for c in cases if c["compare_imports"]]),
        "import_model_disagreements": len(disagree),
        "property_oracle_failures": len(bad), "failures_beyond_gofmt": len(bad_nofmt),
        "known_finding_hits": known_count,
        "input_distribution": {
            "instances": len(instances), "cli_runs": len(cases),
            "generation_failed": sum(1 for c in cases if not c["gen_ok"]),
            "files_parsed": sum(1 for c in cases if c["file"] and c["file"]["parse_ok"]),
            "files_compiled": sum(1 for c in cases if c["file"] and c["file"]["compiles"]),
            "files_gofmt_clean": sum(1 for c in cases if c["file"] and c["file"]["gofmt_clean"]),
            "labels": {lb: sum(1 for c in cases if c["label"] == lb) for lb in sorted(set(c["label"] for c in cases))},
            "flag_sets": sorted(set(json.dumps(c["flags"], sort_keys=True) for c in cases)),
            "routes": sum(len(cc["methods"]) for it in instances for cc in it[1]["controllers"]),
            "custom_error_routes": {
                kind: sum(1 for it in instances for cc in it[1]["controllers"] for m in cc["methods"] if sel(m))
                for kind, sel in (("by_value", lambda m: errtype_of(m) != "error" and not errtype_of(m).startswith("*")),
                                  ("by_address", lambda m: errtype_of(m).startswith("*")))},
            # signatures with multi-name fields (`a, b, c T, d U`): methods by the size of their largest field, and
            # those in which a field of three or more names is followed by a further field
            "signature_fields": {
                "methods_by_largest_field": {
                    str(k): sum(1 for it in instances for cc in it[1]["controllers"] for m in cc["methods"]
                                if max(group_shape(m) or [0]) == k) for k in range(0, 5)},
                "long_field_followed_by_another": sum(
                    1 for it in instances for cc in it[1]["controllers"] for m in cc["methods"]
                    if any(n >= 3 for n in group_shape(m)[:-1])),
                "files_compiled_of_those": sum(
                    1 for c in cases if c["file"] and c["file"]["compiles"] and any(
                        any(n >= 3 for n in group_shape(m)[:-1]) for cc in c["project"]["controllers"] for m in cc["methods"])),
            },
            # projects HEAD's validators are expected to refuse: what gleece did with them, per engine run
            "configured_package_names": {nm: sum(1 for c in cases if c["cfg_pkg"] == nm)
                                         for nm in sorted(set(c["cfg_pkg"] for c in cases if has_hand_file(c["flags"])))},
            "directories_with_hand_written_file": {
                "built": sum(1 for c in cases if c["hand_written"] is True),
                "failed": sum(1 for c in cases if c["hand_written"] not in (None, True))},
            "borderline": {lb: {"refused": sum(1 for c in cases if c["label"] == lb and not c["gen_ok"]),
                                "accepted_and_compiled": sum(1 for c in cases if c["label"] == lb and c["gen_ok"]
                                                             and c["file"] and c["file"]["compiles"])}
                           for lb in sorted(set(c["label"] for c in cases)) if lb.startswith("borderline:")},
        },
        "timings": timings,
        "inprocess_double_generation": {k: v for k, v in inproc.items() if k != "problems"},
        "inprocess_problems": len(inproc.get("problems", [])),
    })
    res.assumptions += [
        "the Go parser, go/format and the Go compiler (go build, toolchain go1.24.7) are the oracle for syntax, "
        "formatting and typing; Go's type system is not modelled",
        "import serial numbers are recovered from the generated file (they depend on symbol-graph order) and only "
        "checked for consistency (one serial per type, injective)",
        "identifier validity is checked on the ASCII classes; bytes >= 0x80 count as letters",
    ]
    return res.finish()


if __name__ == "__main__":
    sys.exit(main())
