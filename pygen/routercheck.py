"""Shared by the router-level checks: generate the routes file of every sampled project for every
engine with the real CLI, translate it with `implrun hir`, print the registrations as Coq terms."""
import json
import os
import shutil

from common import *  # noqa
import project as P

ENGINES = ["gin", "echo", "mux", "chi", "fiber"]


def generate_routes(prop, projects, engines=ENGINES, extra_conf=None):
    """Returns (moddir, results) with results[k][engine] = {exit, out, file, hir}."""
    build_cli()
    build_harness()
    moddir = os.path.join(WORK, prop, "mod")
    shutil.rmtree(moddir, ignore_errors=True)
    P.make_module(moddir)
    jobs, idx = [], []
    for k, p in enumerate(projects):
        root = os.path.join(moddir, "p%d" % k)
        P.render_project(p, root, "verifproj/p%d" % k)
        for e in engines:
            name = P.render_config(p, root, "verifproj/p%d" % k, openapi="3.0.0", engine=e)
            conf = json.load(open(os.path.join(root, name)))
            conf["routesConfig"]["outputPath"] = "./routes_%s/routes.go" % e
            conf["routesConfig"]["packageName"] = "routes" + e
            if extra_conf:
                extra_conf(conf, k, e)
            cn = "gleece-%s.json" % e
            json.dump(conf, open(os.path.join(root, cn), "w"), indent=1)
            jobs.append({"dir": root, "args": ["generate", "routes", "-c", cn]})
            idx.append((k, e))
    runs = P.run_cli_many(jobs)
    results = [dict() for _ in projects]
    files = []
    for (k, e), r in zip(idx, runs):
        path = os.path.join(moddir, "p%d" % k, "routes_%s" % e, "routes.go")
        results[k][e] = {"exit": r["exit"], "out": r["out"], "file": path if os.path.exists(path) else None}
        if os.path.exists(path):
            files.append(path)
    hir = implrun("hir", {"files": files}) if files else []
    by_file = {h["file"]: h for h in hir}
    for k in range(len(projects)):
        for e in engines:
            f = results[k][e]["file"]
            results[k][e]["hir"] = by_file.get(f) if f else None
    return moddir, results


def coq_check(c):
    return "(mkCheck %s %s)" % (coq_bytes(c["scheme"]), coq_list([coq_bytes(x) for x in c["scopes"]]))


def coq_registration(r):
    alts = coq_list([coq_list([coq_check(c) for c in alt]) for alt in r["alts"]])
    return "(mkReg %s %s %s %s %s %d %s %s %s)" % (
        coq_bytes(r["verb"]), coq_bytes(r["url_lit"]), coq_bool(r["gate_ok"]), alts, coq_bytes(r["op_id"]),
        r["rest_auth_calls"], coq_bool(r["rest_first_is_controller"] and r["rest_second_is_init"]),
        coq_bytes(r["ctrl_type"]), coq_list([coq_bytes(i["method"]) for i in r["invokes"]]))


def coq_registrations(hir):
    return "[" + ";\n    ".join(coq_registration(r) for r in hir["registrations"]) + "]"


# ------------------------------------------------------------------ sequences of generations in one process

def seq_router_leg(res, prop, rng, bases, tier, explicit=None):
    """Edits of a base project generated back to back in ONE process (seqleg) with `spec-and-routes`; the
    translation obligation RouterGate.router_ok is evaluated on the routes file of every accepted edit, both the
    one a fresh process wrote and the one the shared process wrote.  Returns statistics for the evidence."""
    import seqleg
    import tempfile
    stats = {"sequences": 0, "steps": 0, "routes_files_translated": 0, "obligation_failures": 0, "byte_differences": 0}
    rows, meta, tmpfiles = [], [], []
    tmpdir = os.path.join(WORK, prop, "seq_files")
    shutil.rmtree(tmpdir, ignore_errors=True)
    os.makedirs(tmpdir, exist_ok=True)
    allsteps = []
    seqs = explicit if explicit is not None else [seqleg.edits(rng, base) for base in bases]
    plan = []
    for bi, seq in enumerate(seqs):
        e = ENGINES[(bi + (0 if tier == "quick" else 2)) % len(ENGINES)]
        if explicit is not None and isinstance(seq, dict):
            e, seq = seq["engine"], seq["sequence"]
        plan.append((bi, e, seq))
    import concurrent.futures
    with concurrent.futures.ThreadPoolExecutor(max_workers=4) as ex:
        ran = list(ex.map(lambda x: seqleg.run_sequence(prop, "r%d" % x[0], x[2], engine=x[1]), plan))
    for (bi, e, seq), steps in zip(plan, ran):
        stats["sequences"] += 1
        stats["steps"] += len(steps)
        stats["byte_differences"] += len(seqleg.differences(steps, "routes"))
        allsteps.append((e, steps))
        for si, st in enumerate(steps):
            if st["fresh"]["exit"] != 0:
                continue
            for which in ("fresh", "inproc"):
                data = st[which]["routes"]
                path = os.path.join(tmpdir, "s%d_%d_%s.go" % (bi, si, which))
                if data is not None:
                    with open(path, "wb") as f:
                        f.write(data)
                    tmpfiles.append(path)
                meta.append((bi, si, which, path if data is not None else None))
    hir = implrun("hir", {"files": tmpfiles}) if tmpfiles else []
    by_file = {h["file"]: h for h in hir}
    failing = []
    for i, (bi, si, which, path) in enumerate(meta):
        e, steps = allsteps[bi]
        h = by_file.get(path) if path else None
        if h is None or h["parse_error"]:
            failing.append((i, "no routes file" if path is None else "routes file does not parse"))
            continue
        stats["routes_files_translated"] += 1
        rows.append("(%d, %s,\n   %s)" % (i, P.coq_project(steps[si]["project"]), coq_registrations(h)))
    SH = 10
    for lo in range(0, len(rows), SH):
        body = ("From Gleece Require Import Base.Bytes Model.Project Model.Spec Model.Security Model.RouterGate.\n"
                "From Coq Require Import String.\n"
                "Definition cases : list (nat * project * list registration) := [\n" + ";\n".join(rows[lo:lo + SH]) + "].\n"
                "Definition failing := Eval vm_compute in map (fun c => fst (fst c)) "
                "(filter (fun c => negb (router_ok (snd (fst c)) (snd c))) cases).\nPrint failing.\n")
        out = run_coq_file(prop, "seq_obligations_%d" % lo, body, timeout=900)
        failing += [(i, "router_ok is false") for i in parse_nat_list(out, "failing")]
    stats["obligation_failures"] = len(failing)
    for (i, why) in failing[:2]:
        bi, si, which, path = meta[i]
        e, steps = allsteps[bi]
        h = by_file.get(path) if path else None
        res.violation({"kind": "property-fails-on-implementation",
                       "leg": "sequence of generations (%s)" % ("fresh process, generate spec-and-routes" if which == "fresh"
                                                                else "one process, library entry point cmd.GenerateSpecAndRoutes"),
                       "engine": e, "input": {"sequence": seqleg.describe_sequence(steps, si)},
                       "failing_step": si, "edit": steps[si]["label"], "why": why,
                       "translated_registrations": [{"verb": r["verb"], "url": r["url_lit"], "op": r["op_id"], "alts": r["alts"],
                                                     "gate_ok": r["gate_ok"]} for r in (h["registrations"] if h else [])],
                       "claim": "the routes file written for the project on disk registers exactly its annotated methods, each gated "
                                "by its effective security (RouterGate.router_ok), whatever was generated earlier in the same "
                                "process and whichever generate command wrote it"})
    shutil.rmtree(tmpdir, ignore_errors=True)
    return stats
