"""Shared by the router-level checks: generate the routes file of every sampled project for every
engine with the real CLI, translate it with `implrun hir`, print the registrations as Coq terms."""
import json
import os
import shutil

from common import *  # noqa
import project as P

ENGINES = ["gin", "echo", "mux", "chi", "fiber"]


def generate_routes(prop, projects, engines=ENGINES, extra_conf=None):
    """Returns (moddir, results) with results[k][engine] = {exit, out, file, hir}."""
    build_cli()
    build_harness()
    moddir = os.path.join(WORK, prop, "mod")
    shutil.rmtree(moddir, ignore_errors=True)
    P.make_module(moddir)
    jobs, idx = [], []
    for k, p in enumerate(projects):
        root = os.path.join(moddir, "p%d" % k)
        P.render_project(p, root, "verifproj/p%d" % k)
        for e in engines:
            name = P.render_config(p, root, "verifproj/p%d" % k, openapi="3.0.0", engine=e)
            conf = json.load(open(os.path.join(root, name)))
            conf["routesConfig"]["outputPath"] = "./routes_%s/routes.go" % e
            conf["routesConfig"]["packageName"] = "routes" + e
            if extra_conf:
                extra_conf(conf, k, e)
            cn = "gleece-%s.json" % e
            json.dump(conf, open(os.path.join(root, cn), "w"), indent=1)
            jobs.append({"dir": root, "args": ["generate", "routes", "-c", cn]})
            idx.append((k, e))
    runs = P.run_cli_many(jobs)
    results = [dict() for _ in projects]
    files = []
    for (k, e), r in zip(idx, runs):
        path = os.path.join(moddir, "p%d" % k, "routes_%s" % e, "routes.go")
        results[k][e] = {"exit": r["exit"], "out": r["out"], "file": path if os.path.exists(path) else None}
        if os.path.exists(path):
            files.append(path)
    hir = implrun("hir", {"files": files}) if files else []
    by_file = {h["file"]: h for h in hir}
    for k in range(len(projects)):
        for e in engines:
            f = results[k][e]["file"]
            results[k][e]["hir"] = by_file.get(f) if f else None
    return moddir, results


def coq_check(c):
    return "(mkCheck %s %s)" % (coq_bytes(c["scheme"]), coq_list([coq_bytes(x) for x in c["scopes"]]))


def coq_registration(r):
    alts = coq_list([coq_list([coq_check(c) for c in alt]) for alt in r["alts"]])
    return "(mkReg %s %s %s %s %s %d %s %s %s)" % (
        coq_bytes(r["verb"]), coq_bytes(r["url_lit"]), coq_bool(r["gate_ok"]), alts, coq_bytes(r["op_id"]),
        r["rest_auth_calls"], coq_bool(r["rest_first_is_controller"] and r["rest_second_is_init"]),
        coq_bytes(r["ctrl_type"]), coq_list([coq_bytes(i["method"]) for i in r["invokes"]]))


def coq_registrations(hir):
    return "[" + ";\n    ".join(coq_registration(r) for r in hir["registrations"]) + "]"
