#!/usr/bin/env python3
"""C06 - Documented parameters, bodies and responses equal the declared method signature."""
import os
import sys
sys.path.insert(0, os.path.dirname(os.path.abspath(__file__)))
import speccheck

SPEC = {"eqb": "op_eqb_c06", "extra_imports": "",
        "oracle": "(fun p o => match o with Some d => prop_C06 p d | None => true end)"}

if __name__ == "__main__":
    res = speccheck.run(
        "C06", SPEC, {"security": False, "params": True, "multipkg": True}, 30, 250,
        rule="seeded abstract projects whose methods vary parameter lists (path/query/header/form/body, wire "
             "aliases, pointer-ness, validator strings, query slices, context parameter), return shapes "
             "(error | (T, error) | (*T, error)), @Response and @ErrorResponse (duplicates included), run "
             "through the real CLI for 3.0.0 and 3.1.0; non-trivial = some emitted operation has a parameter "
             "or a request body",
        assumptions=["go/packages discovery and kin-openapi/libopenapi rendering are exercised, not modelled",
                     "the extra 3.0 'default' response without content and description is projected out (see C11)"],
        nontrivial=lambda p, ops: bool(ops) and any(o["params"] or o["body"] for o in ops))
    sys.exit(res.finish())
