#!/usr/bin/env python3
"""C06 - Documented parameters, bodies and responses equal the declared method signature."""
import os
import sys
sys.path.insert(0, os.path.dirname(os.path.abspath(__file__)))
import speccheck

SPEC = {"eqb": "op_eqb_c06", "extra_imports": "",
        "oracle": "(fun p o => match o with Some d => prop_C06 p d | None => true end)"}

def wide_cases(rng):
    """Signatures with several names per field: (ctx, a, b, c string, id int, lim *int) and the like."""
    import project as P
    out = []
    for k in range(3):
        p = P.gen_project(rng, {"security": False, "params": True})
        for c in p["controllers"]:
            for m in c["methods"]:
                run = rng.choice([3, 4])
                ty = rng.choice(["string", "int", "bool"])
                extra = [{"name": "w%d" % i, "ctx": False, "loc": rng.choice(["query", "header"]), "alias": None,
                          "type": ty, "pointer": False, "validator": None, "slice": False} for i in range(run)]
                tail = [{"name": "z0", "ctx": False, "loc": "query", "alias": None,
                         "type": "int64" if ty != "int64" else "string", "pointer": rng.random() < 0.5,
                         "validator": None, "slice": False}]
                keep = [x for x in m["params"] if x["ctx"] or x["loc"] == "path"]
                pos = rng.choice(["front", "back"])
                m["params"] = (keep + extra + tail) if pos == "back" else \
                    ([x for x in keep if x["ctx"]] + extra + tail + [x for x in keep if not x["ctx"]])
                m["grouped"] = True
        out.append(p)
    return out


def dup_form_alias(rng):
    """F19 (known finding): two @FormField parameters sharing one `name` alias."""
    def prm(name, ty, alias):
        return {"name": name, "ctx": False, "loc": "form", "alias": alias, "type": ty, "pointer": False, "validator": None,
                "slice": False}
    return [{
        "config": {"schemes": ["sec1"], "default_security": None, "enforce": False, "engine": "gin", "title": "API",
                   "version": "1", "base_url": "https://a.example.com"},
        "controllers": [{"name": "FormCtl", "pkg": "ctl", "tag": "F", "route": "/f", "security": [], "descr": "",
                         "methods": [{"name": "DupForm", "verb": "POST", "route": "/dup", "hidden": False, "deprecated": False,
                                      "security": [], "params": [prm("c", "string", "y"), prm("d", "int", "y")], "ret": None,
                                      "errtype": "error", "response": None, "errors": [], "descr": "", "file": 0}]}],
        "types": ["Item"]}]


def known_f19(project, obs):
    import common
    for c in project["controllers"]:
        for m in c["methods"]:
            wires = [(x["alias"] or x["name"]) for x in m["params"] if not x["ctx"] and x["loc"] == "form"]
            if len(set(wires)) != len(wires):
                for f in common.known_for("C06"):
                    if f.get("match", {}).get("kind") == "duplicate-form-field-wire-name":
                        body = [o["body"] for o in (obs["ops"] or []) if o["id"] == m["name"]]
                        return (f, "%s.%s: form fields %s share a wire name -> %s" % (c["name"], m["name"], wires, body))
    return None


def mixed_error_controllers(rng):
    """Controllers whose documented routes all list @ErrorResponse codes and do NOT all return the same error type
    (`error` and two custom error structs of the controller's package, by value or by address), in every source order."""
    import project as P
    out = []
    for k in range(3):
        p = P.gen_project(rng, {"security": False, "params": True, "custom_errors": True})
        style = {}
        for c in p["controllers"]:
            for m in c["methods"]:
                if m.get("custom_error"):
                    style[m["errtype"]] = m["custom_error"]
        for c in p["controllers"]:
            kinds = ["error"] + [P.custom_error_name(n, c["pkg"]) for n in P.CUSTOM_ERRORS]
            rng.shuffle(kinds)
            for i, m in enumerate(c["methods"]):
                et = kinds[i % len(kinds)]
                m["errtype"] = et
                m.pop("custom_error", None)
                if et != "error":
                    m["custom_error"] = style.setdefault(et, rng.choice(["value", "pointer"]))
                m["hidden"] = False
                if not m["errors"]:
                    m["errors"] = [{"code": c2, "descr": ""} for c2 in rng.sample([400, 404, 409, 500, 503], rng.choice([1, 2]))]
        out.append(p)
    return out


def slices_of_pointers(rng):
    """By-value parameters whose ELEMENTS are pointers: `q []*string` in the query, `b []*types.Item` as the body, next
    to `*[]T` / `[]T` controls; no explicit `required`."""
    import project as P
    out = []
    for k in range(2):
        p = P.gen_project(rng, {"security": False, "params": True, "elem_pointers": True})
        for c in p["controllers"]:
            for m in c["methods"]:
                for x in m["params"]:
                    if x["ctx"] or x["loc"] not in ("query", "body"):
                        continue
                    if x["loc"] == "query":
                        x.update({"slice": True, "pointer": False, "elem_pointer": rng.random() < 0.7})
                    else:
                        x.update({"slice": True, "elem_pointer": rng.random() < 0.7})
                    if rng.random() < 0.7:
                        x["validator"] = None
        out.append(p)
    return out


def extra(rng):
    return wide_cases(rng) + dup_form_alias(rng) + mixed_error_controllers(rng) + slices_of_pointers(rng)


if __name__ == "__main__":
    res = speccheck.run(
        "C06", SPEC, {"security": False, "params": True, "multipkg": True, "nested_pkg": True, "reserved_headers": True,
                     "dive_validators": True, "elem_pointers": True, "custom_errors": True}, 30, 250,
        rule="seeded abstract projects whose methods vary parameter lists (path/query/header/form/body, wire "
             "aliases, pointer-ness, validator strings, query slices, slices of pointers ([]*T) in the query and as "
             "the body, context parameter), return shapes (E | (T, E) | (*T, E) with E = error or a custom "
             "error struct by value or by address, mixed within one controller), @Response and @ErrorResponse "
             "(duplicates included), run "
             "through the real CLI for 3.0.0 and 3.1.0; non-trivial = some emitted operation has a parameter "
             "or a request body",
        assumptions=["go/packages discovery and kin-openapi/libopenapi rendering are exercised, not modelled",
                     "the extra 3.0 'default' response without content and description is projected out (see C11)"],
        nontrivial=lambda p, ops: bool(ops) and any(o["params"] or o["body"] for o in ops),
        extra_cases=extra, known_matcher=known_f19)
    sys.exit(res.finish())
