"""Shared machinery for the per-property checks (see DESIGN.md section 2-4)."""
import fcntl
import json
import os
import re
import shutil
import subprocess
import sys
import time

VERIF = os.path.dirname(os.path.dirname(os.path.abspath(__file__)))
REPO = os.environ.get("VERIF_REPO", "/repo")
COQ = os.path.join(VERIF, "coq")
# VERIF_REPO=<dir> runs the checks against another checkout of gleece (development only);
# scratch directories are then kept apart from the ones used for /repo.
_TAG = "" if REPO == "/repo" else "_" + re.sub(r"[^A-Za-z0-9]+", "_", REPO).strip("_")
GEN = os.path.join(VERIF, "gen" + _TAG)
WORK = os.path.join(VERIF, "_work" + _TAG)
BIN = os.path.join(WORK, "bin")
# evidence/ holds runs against /repo itself; development runs (another checkout through VERIF_REPO, or
# VERIF_EVIDENCE_DIR set while a change is applied to /repo for testing) write elsewhere
EVID = os.environ.get("VERIF_EVIDENCE_DIR") or (os.path.join(VERIF, "evidence") if REPO == "/repo"
                                                 else os.path.join(WORK, "evidence"))
REPLAYS = os.path.join(VERIF, "replays") if REPO == "/repo" and not os.environ.get("VERIF_EVIDENCE_DIR") \
    else os.path.join(WORK, "replays")
CORPUS = os.path.join(VERIF, "corpus")
KNOWN = os.path.join(VERIF, "known_findings.json")

GOENV = dict(os.environ)
GOENV["GOFLAGS"] = "-mod=mod"
GOENV["GOPROXY"] = "off"
GOENV.pop("GOSUMDB", None)
GOENV.pop("GOTOOLCHAIN", None)

TRUSTED_BASE = [
    "Coq 8.16.1 kernel (coqc), vm_compute for evaluating cases and reflection obligations; no native_compute",
    "no axioms: every Properties/Cxx.v theorem prints 'Closed under the global context'",
    "hand-written Gallina model tied to /repo by the differential correspondence run of this check "
    "(Go harness /verif/harness built against /repo's working tree, Python generators, Coq term printer)",
]


def log(*a):
    print(*a, file=sys.stderr, flush=True)


class Lock:
    def __init__(self, name):
        os.makedirs(WORK, exist_ok=True)
        self.path = os.path.join(WORK, name + ".lock")

    def __enter__(self):
        self.f = open(self.path, "w")
        fcntl.flock(self.f, fcntl.LOCK_EX)
        return self

    def __exit__(self, *a):
        fcntl.flock(self.f, fcntl.LOCK_UN)
        self.f.close()


def run(cmd, cwd=None, env=None, timeout=1800, input=None, check=True):
    p = subprocess.run(cmd, cwd=cwd, env=env, timeout=timeout, input=input,
                       stdout=subprocess.PIPE, stderr=subprocess.PIPE)
    if check and p.returncode != 0:
        raise RuntimeError("command failed (%d): %s\n%s\n%s" % (
            p.returncode, cmd, p.stdout.decode(errors="replace")[-4000:],
            p.stderr.decode(errors="replace")[-4000:]))
    return p


# ---------------------------------------------------------------- Coq

def write_coqproject():
    files = []
    for sub in ("Base", "Model", "Proofs", "Properties"):
        d = os.path.join(COQ, sub)
        if os.path.isdir(d):
            files += sorted(os.path.join(sub, f) for f in os.listdir(d) if f.endswith(".v"))
    text = "-Q . Gleece\n" + "\n".join(files) + "\n"
    path = os.path.join(COQ, "_CoqProject")
    old = open(path).read() if os.path.exists(path) else ""
    if old != text:
        open(path, "w").write(text)
        return True
    return False


def build_coq(targets=None):
    """Full .vo build of what the running check needs: the cone of coq/Properties/<Cxx>.v (Cxx
    taken from the script name) unless targets are given; everything when neither applies.
    (setup.sh builds the whole development.)"""
    if targets is None:
        m = re.match(r"c(\d+)\.py$", os.path.basename(sys.argv[0]))
        if m and os.path.exists(os.path.join(COQ, "Properties", "C%s.v" % m.group(1))):
            targets = ["Properties/C%s.vo" % m.group(1)]
    with open(os.path.join(VERIF, ".coq.lock"), "w") as lf:
        fcntl.flock(lf, fcntl.LOCK_EX)
        changed = write_coqproject()
        if changed or not os.path.exists(os.path.join(COQ, "Makefile")):
            run(["coq_makefile", "-f", "_CoqProject", "-o", "Makefile"], cwd=COQ)
        p = run(["timeout", "1500", "make", "-j16"] + (targets or []), cwd=COQ, check=False)
        if p.returncode != 0:
            raise RuntimeError("Coq development does not build:\n" +
                               p.stdout.decode(errors="replace")[-3000:] +
                               p.stderr.decode(errors="replace")[-3000:])


def coq_bytes(b):
    """A Coq term of type str (list byte) for the given bytes."""
    if isinstance(b, str):
        b = b.encode("utf-8")
    if all(32 <= c < 127 for c in b):
        return '(s "%s")' % b.decode("ascii").replace('"', '""')
    return "(bs [%s]%%N)" % ";".join(str(c) for c in b)


def coq_list(items):
    return "[" + "; ".join(items) + "]"


def coq_bool(x):
    return "true" if x else "false"


def coq_option(x, f):
    return "None" if x is None else "(Some %s)" % f(x)


def run_coq_file(prop, name, text, timeout=1500):
    """Write gen/<prop>/<name>.v, compile it, return its stdout."""
    d = os.path.join(GEN, prop)
    os.makedirs(d, exist_ok=True)
    path = os.path.join(d, name + ".v")
    with open(path, "w") as f:
        f.write(text)
    p = run(["timeout", str(timeout), "coqc", "-Q", COQ, "Gleece", path], cwd=d, check=False,
            timeout=timeout + 30)
    out = p.stdout.decode(errors="replace")
    if p.returncode != 0:
        raise RuntimeError("coqc failed on %s:\n%s\n%s" % (path, out[-3000:],
                                                           p.stderr.decode(errors="replace")[-3000:]))
    return out


def parse_nat_list(out, name):
    """Parse the output of `Print name.` for a `list nat` value; returns list of ints."""
    m = re.search(re.escape(name) + r"\s*=\s*(.*?)\s*:\s*list", out, re.S)
    if not m:
        raise RuntimeError("cannot find %s in coq output:\n%s" % (name, out[-2000:]))
    body = m.group(1)
    return [int(x) for x in re.findall(r"\d+", body)]


def properties_status(prop):
    """Re-check coq/Properties/<prop>.v: number of theorems and whether each Print Assumptions
    reports a closed term.  Returns dict(theorems=[names], closed=n, printed=n, axioms=[...])."""
    src = os.path.join(COQ, "Properties", prop + ".v")
    text = open(src).read()
    theorems = re.findall(r"^\s*(?:Theorem|Example)\s+(\w+)", text, re.M)
    prints = re.findall(r"^\s*Print Assumptions\s+(\w+)", text, re.M)
    d = os.path.join(GEN, prop)
    os.makedirs(d, exist_ok=True)
    tmp = os.path.join(d, "PropRecheck_%s.v" % prop)
    shutil.copy(src, tmp)
    p = run(["timeout", "900", "coqc", "-Q", COQ, "Gleece", tmp], cwd=d, check=False, timeout=930)
    out = p.stdout.decode(errors="replace")
    for ext in (".vo", ".vok", ".vos", ".glob"):
        try:
            os.remove(tmp[:-2] + ext)
        except OSError:
            pass
    try:
        os.remove(os.path.join(d, ".PropRecheck_%s.aux" % prop))
    except OSError:
        pass
    closed = out.count("Closed under the global context")
    axioms = re.findall(r"^Axioms:\s*\n((?:.+\n)+)", out, re.M)
    return dict(ok=(p.returncode == 0), theorems=theorems, printed=len(prints), closed=closed,
                axioms=axioms, stderr=p.stderr.decode(errors="replace")[-2000:])


# ---------------------------------------------------------------- Go harness

def build_harness():
    """Rebuild the Go harness against /repo's current working tree (build tag verif)."""
    with Lock("harness"):
        os.makedirs(BIN, exist_ok=True)
        h = os.path.join(VERIF, "harness")
        if REPO != "/repo":
            h2 = os.path.join(WORK, "harness")
            shutil.rmtree(h2, ignore_errors=True)
            shutil.copytree(h, h2)
            gm = open(os.path.join(h2, "go.mod")).read().replace("=> /repo", "=> " + REPO)
            open(os.path.join(h2, "go.mod"), "w").write(gm)
            h = h2
        shutil.copy(os.path.join(REPO, "go.sum"), os.path.join(h, "go.sum"))
        t0 = time.time()
        p = run(["go", "build", "-tags", "verif", "-o", os.path.join(BIN, "implrun"), "./cmd/implrun"],
                cwd=h, env=GOENV, check=False, timeout=1200)
        if p.returncode != 0:
            raise BuildBroken("harness does not build against /repo:\n" +
                              p.stderr.decode(errors="replace")[-4000:])
        return time.time() - t0


def build_cli():
    """Build the real gleece CLI from /repo's working tree."""
    with Lock("cli"):
        os.makedirs(BIN, exist_ok=True)
        p = run(["go", "build", "-tags", "verif", "-o", os.path.join(BIN, "gleece"), "."],
                cwd=REPO, env=GOENV, check=False, timeout=1200)
        if p.returncode != 0:
            raise BuildBroken("gleece CLI does not build:\n" + p.stderr.decode(errors="replace")[-4000:])
        return os.path.join(BIN, "gleece")


class BuildBroken(Exception):
    pass


def implrun(cmd, payload, timeout=600, extra_args=()):
    p = run([os.path.join(BIN, "implrun"), cmd, *extra_args], input=json.dumps(payload).encode(),
            timeout=timeout, check=False, env=GOENV)
    if p.returncode != 0:
        raise RuntimeError("implrun %s failed: %s" % (cmd, p.stderr.decode(errors="replace")[-3000:]))
    return json.loads(p.stdout.decode())


# ---------------------------------------------------------------- results

def load_known():
    if not os.path.exists(KNOWN):
        return {"findings": [], "fixed": []}
    return json.load(open(KNOWN))


def known_for(prop):
    return [f for f in load_known().get("findings", []) if f.get("property") == prop]


class Result:
    def __init__(self, prop, tier, seed, level="proof"):
        self.prop, self.tier, self.seed, self.level = prop, tier, seed, level
        self.t0 = time.time()
        self.coverage = {}
        self.assumptions = []
        self.violations = []      # (replay_obj, no_input)
        self.known_hits = []

    def violation(self, replay, no_input=False):
        self.violations.append((replay, no_input))

    def known(self, finding, what):
        self.known_hits.append((finding, what))

    def finish(self):
        os.makedirs(EVID, exist_ok=True)
        os.makedirs(REPLAYS, exist_ok=True)
        ev = {
            "property_id": self.prop, "tier": self.tier, "seed": self.seed, "level": self.level,
            "coverage": self.coverage, "assumptions": self.assumptions,
            "wall_s": round(time.time() - self.t0, 2), "violations": len(self.violations),
        }
        with open(os.path.join(EVID, self.prop + ".json"), "w") as f:
            json.dump(ev, f, indent=1, sort_keys=True, default=str)
        seen = set()
        for f_, what in self.known_hits:
            key = (f_.get("id"), what)
            if key in seen:
                continue
            seen.add(key)
            print("KNOWN-FINDING: property=%s %s: %s" % (self.prop, f_.get("id"), what))
        if not self.violations:
            print("OK property=%s tier=%s seed=%d wall=%.1fs" % (self.prop, self.tier, self.seed,
                                                               time.time() - self.t0))
            return 0
        for k, (replay, no_input) in enumerate(self.violations[:5]):
            path = os.path.join(REPLAYS, "%s-%d-%d.json" % (self.prop, self.seed, k))
            replay = dict(replay)
            replay.setdefault("property", self.prop)
            replay.setdefault("rerun", "cd /verif && ./check %s --replay %s" % (self.prop, path))
            with open(path, "w") as f:
                json.dump(replay, f, indent=1, default=str)
            print("VIOLATION property=%s replay=%s%s" % (self.prop, path,
                                                       " no-failing-input-found" if no_input else ""))
        return 1


def proof_coverage(prop, res, extra_obligations=0, extra_discharged=0):
    """Re-check the property file and fill the proof-level coverage keys."""
    st = properties_status(prop)
    n = len(st["theorems"])
    ok = st["ok"] and st["closed"] == st["printed"] and st["printed"] > 0
    res.coverage.update({
        "obligations": n + extra_obligations,
        "discharged": (n if ok else 0) + extra_discharged,
        "checker_cmd": "coqc -Q /verif/coq Gleece /verif/coq/Properties/%s.v (after make -j16 in /verif/coq)" % prop,
        "trusted_base": list(TRUSTED_BASE),
        "theorems": st["theorems"],
        "print_assumptions_closed": "%d/%d" % (st["closed"], st["printed"]),
    })
    if ok and res.tier == "thorough" and os.environ.get("VERIF_SKIP_COQCHK") != "1":
        # independent re-check of the compiled property file and everything it depends on
        with open(os.path.join(VERIF, ".coq.lock"), "w") as lf:
            fcntl.flock(lf, fcntl.LOCK_EX)
            t0 = time.time()
            p = run(["timeout", "3000", "coqchk", "-silent", "-o", "-Q", COQ, "Gleece", "Gleece.Properties." + prop],
                    cwd=COQ, check=False, timeout=3100)
        out = p.stdout.decode(errors="replace") + p.stderr.decode(errors="replace")
        m = re.search(r"\* Axioms:\s*(.*?)\n\s*\n", out, re.S)
        res.coverage["coqchk"] = {"exit": p.returncode, "axioms": (m.group(1).strip() if m else "?"),
                                  "wall_s": round(time.time() - t0, 1)}
        if p.returncode != 0 or not m or m.group(1).strip() != "<none>":
            ok = False
            res.violation({"kind": "proof-obligation", "obligation": "coqchk -o Gleece.Properties.%s" % prop,
                           "detail": out[-2000:]}, no_input=True)
            return ok
    if not ok:
        res.violation({"kind": "proof-obligation",
                       "obligation": "coq/Properties/%s.v no longer checks or is not closed" % prop,
                       "detail": st}, no_input=True)
    return ok


def args_for(prop_default=None):
    import argparse
    ap = argparse.ArgumentParser()
    ap.add_argument("prop", nargs="?", default=prop_default)
    ap.add_argument("--tier", default=os.environ.get("VERIF_TIER", "quick"))
    ap.add_argument("--replay", default=None)
    a = ap.parse_args()
    seed = int(os.environ.get("VERIF_SEED", "20260930"))
    if a.tier not in ("quick", "thorough"):
        a.tier = "quick"
    return a, seed
