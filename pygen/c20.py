#!/usr/bin/env python3
"""C20 - configuration is validated up front and honoured in the output.

Per run:
  1. translator: `implrun tagdump` (Go reflect over the real definitions.GleeceConfig) ->
     gen/C20/Gen_tags.v (`config_schema`), reflection obligation
     `schema_at_least declared_schema config_schema = true` by vm_compute;
  2. oracle answers of the real validator for every (rule, string) pair that occurs
     (`implrun tagoracle`);
  3. library layer: cmd.LoadGleeceConfig in-process on every subset of optional fields
     (modulo containment), every single-field corruption, cross-field malformed schemes
     (`implrun loadconfig`) against `validate` and `prop_C20_load`;
  3b. history layer: SEQUENCES of configurations loaded in ONE process ([explicit optional
     fields ..., a document omitting them], refused documents in between): every value
     cmd.LoadGleeceConfig returns, right after its call and again after the rest of the history,
     against `ConfigLoad.load1` / `prop_C20_loads` (the value says what ITS document says, defaults
     included), and the last one against a fresh process;
  4. CLI layer: the real binary in scratch projects under _work/C20 (engines x versions,
     permission strings x fresh/existing files, commands, glob sets with decoys, output
     paths, package names, corruptions on a project whose sources do not parse) against
     `cmd` / `observe` and `prop_C20`.
"""
import concurrent.futures
import copy
import glob as pyglob
import hashlib
import itertools
import json
import os
import random
import re
import shutil
import subprocess
import sys
import time

sys.path.insert(0, os.path.dirname(os.path.abspath(__file__)))
from common import *  # noqa

PROP = "C20"
W = os.path.join(WORK, "C20")
KIND = {"string": "KStr", "bool": "KBool", "struct": "KStruct", "ptr": "KPtr",
        "strings": "KStrs", "structs": "KStructs", "strmap": "KStrMap"}
SEG = {"field": "SField", "ptr": "SPtr", "elems": "SElems"}
ENGINES = ["gin", "echo", "mux", "fiber", "chi"]
ENGINE_IMPORTS = ["github.com/gin-gonic/gin", "github.com/labstack/echo/v4", "github.com/gorilla/mux",
                  "github.com/gofiber/fiber/v2", "github.com/go-chi/chi/v5"]
VERSIONS = ["3.0.0", "3.1.0"]
PERMS_REGEX = "^(0?[0-7]{3})?$"

# mirror of the oracle-decided rules of Config.declared_schema (cross-checked in Gen_tags.v).
# The security scheme's `type` and `in` are declared as exact enumerations (ROneof); the tags decide
# them by a registered function (an oracle rule) - Config.enum_claims / enum_sound_on tie the two.
DECLARED_PREDS = [
    ("routesConfig.outputFilePerms", "regex", PERMS_REGEX),
    ("openapiGeneratorConfig.info.contact.email", "email", ""),
    ("openapiGeneratorConfig.baseUrl", "url", ""),
    ("openapiGeneratorConfig.securitySchemes.name", "starts_with_letter", ""),
    ("openapiGeneratorConfig.securitySchemes.openIdConnectUrl", "url", ""),
]

# ------------------------------------------------------------------ the scratch project

# file -> (package, controller, controller route, method route, method)
SOURCES = {
    "ctl/main.controller.go": ("ctl", "MainController", "/main", "/ping", "Ping"),
    "ctl/decoy.controller.go": ("ctl", "DecoyController", "/decoy", "/pong", "Pong"),
    "ctl/admin.go": ("ctl", "AdminController", "/admin", "/peng", "Peng"),
    "ctl/sub/deep.controller.go": ("sub", "DeepController", "/deep", "/pung", "Pung"),
    "extra/other.controller.go": ("extra", "OtherController", "/other", "/pang", "Pang"),
}
ROUTE_OF = {v[1]: v[2] + v[3] for v in SOURCES.values()}

CONTROLLER_SRC = """package %(pkg)s

import (
	"github.com/gopher-fleece/runtime"
)

// @Tag(%(ctl)s)
// @Route(%(croute)s)
// @Description %(ctl)s
type %(ctl)s struct {
	runtime.GleeceController
}

// @Method(GET)
// @Route(%(mroute)s)
// @Query(q)
// @Response(200) ok
// @ErrorResponse(500) fail
func (c *%(ctl)s) %(meth)s(q string) (string, error) {
	return q, nil
}
"""


def make_template(name, broken):
    d = os.path.join(W, "template_" + name)
    shutil.rmtree(d, ignore_errors=True)
    os.makedirs(d)
    with open(os.path.join(d, "go.mod"), "w") as f:
        f.write("module c20proj\n\ngo 1.24.7\n\nrequire github.com/gopher-fleece/gleece/v2 v2.0.0\n"
                "require github.com/gopher-fleece/runtime v1.2.1\n\n"
                "replace github.com/gopher-fleece/gleece/v2 => %s\n" % REPO)
    shutil.copy(os.path.join(REPO, "go.sum"), os.path.join(d, "go.sum"))
    for rel, (pkg, ctl, croute, mroute, meth) in SOURCES.items():
        p = os.path.join(d, rel)
        os.makedirs(os.path.dirname(p), exist_ok=True)
        src = CONTROLLER_SRC % dict(pkg=pkg, ctl=ctl, croute=croute, mroute=mroute, meth=meth)
        if broken:
            src = src.replace("func (c *", "func (c *** oops {{{ ", 1)
        with open(p, "w") as f:
            f.write(src)
    return d


_GLOB_CACHE = {}


def glob_one(template, g):
    """The source files ONE glob expression matches (Python's glob; ** = zero or more directories).
    How the expressions of a list combine is the model's business (Config.glob_hit)."""
    key = (template, g)
    if key not in _GLOB_CACHE:
        hit = set()
        if isinstance(g, str) and g:
            hit = {os.path.normpath(m) for m in pyglob.glob(g, root_dir=template, recursive=True)}
        _GLOB_CACHE[key] = {rel: (rel in hit) for rel in SOURCES}
    return _GLOB_CACHE[key]


def glob_matches(template, globs):
    """Union over the list (used only for the world's analysis_ok and for the input statistics)."""
    return {rel: any(glob_one(template, g)[rel] for g in globs) for rel in SOURCES}


def glob_variants(rel, rng, others):
    """Expressions that match the file `rel` and none of `others` (files of the same directory)."""
    d, base = os.path.split(rel)
    stem = base.split(".")[0]
    cands = ["./" + rel, rel]
    for k in range(1, len(stem) + 1):
        pre = stem[:k]
        if not any(os.path.basename(o).startswith(pre) for o in others):
            cands += ["./%s/%s*.go" % (d, pre), "./**/%s*.go" % pre, "%s/%s*" % (d, pre), "./%s/%s*.*" % (d, pre)]
            break
    return cands


def splits_a_directory(template, globs):
    """Some directory gets files from two different expressions, one of which does not take them all."""
    per = [{f for f, v in glob_one(template, g).items() if v} for g in globs]
    for a in range(len(per)):
        for b in range(len(per)):
            if a != b:
                da = {os.path.dirname(f) for f in per[a]}
                if any(os.path.dirname(f) in da and f not in per[a] for f in per[b]):
                    return True
    return False


def split_glob_lists(rng, n):
    """Glob lists whose expressions PARTITION one directory (each expression takes some files of a
    directory another expression also takes files of), in every order, optionally with an expression
    for another directory or a catch-all before/after.  The property quantifies over all glob sets;
    the list is a set (C20_globs_order_irrelevant), a later expression adds files (C20_globs_monotone)."""
    by_dir = {}
    for rel in SOURCES:
        by_dir.setdefault(os.path.dirname(rel), []).append(rel)
    dirs = sorted(d for d, fs in by_dir.items() if len(fs) >= 2)
    out = []
    for i in range(n):
        d = dirs[i % len(dirs)]
        fs = list(by_dir[d])
        rng.shuffle(fs)
        k = rng.randint(2, len(fs))
        chosen = fs[:k]
        gl = [rng.choice(glob_variants(f, rng, [x for x in by_dir[d] if x != f])) for f in chosen]
        extra = rng.choice([None, None, ("pre", "./extra/*.go"), ("post", "./extra/*.go"), ("post", "./ctl/sub/*.go"),
                            ("post", "./**/*.controller.go"), ("pre", "./nomatch/*.go"), ("post", "./%s/*.go" % d)])
        if extra:
            gl = [extra[1]] + gl if extra[0] == "pre" else gl + [extra[1]]
        out.append(gl)
    return out


# fixed shapes: two exact files of one directory in both orders, pattern + recursive pattern, a
# catch-all first / last, three-way split, duplicates, nested directory first
SPLIT_GLOB_SETS = [
    ["./ctl/main.controller.go", "./ctl/decoy.controller.go"],
    ["./ctl/decoy.controller.go", "./ctl/main.controller.go"],
    ["./ctl/m*.go", "./**/d*.controller.go"],
    ["./**/*.controller.go", "./ctl/admin.go"],
    ["./ctl/admin.go", "./**/*.controller.go"],
    ["./ctl/main.controller.go", "./ctl/*.go"],
    ["./ctl/admin.go", "./ctl/decoy.controller.go", "./ctl/main.controller.go"],
    ["./ctl/sub/*.go", "./ctl/a*.go", "./extra/*.go", "./ctl/main.controller.go"],
    ["./ctl/decoy.controller.go", "./ctl/decoy.controller.go", "ctl/admin.go"],
]


# ------------------------------------------------------------------ configurations

OAUTH_FLOWS = {
    "implicit": {"authorizationUrl": "https://auth.example.com/authorize", "refreshUrl": "https://auth.example.com/refresh",
                 "scopes": {"read": "read things", "write": "write things"}},
    "password": {"tokenUrl": "https://auth.example.com/token", "scopes": {"admin": "everything"}},
    "clientCredentials": {"tokenUrl": "https://auth.example.com/cc", "refreshUrl": "https://auth.example.com/ccr",
                          "scopes": {"svc": "service"}},
    "authorizationCode": {"authorizationUrl": "https://auth.example.com/ac", "tokenUrl": "https://auth.example.com/act",
                          "scopes": {"a": "A", "b": "B"}},
}

SCHEMES = [
    {"description": "API key in a header ($DEMO_API_KEY, ${HOME})", "name": "sec1", "fieldName": "x-api-key", "type": "apiKey", "in": "header"},
    {"description": "Bearer token", "name": "sec2", "scheme": "bearer", "type": "http"},
    {"description": "OAuth2", "name": "sec3", "type": "oauth2", "flows": OAUTH_FLOWS},
    {"description": "OIDC", "name": "sec4", "type": "openIdConnect",
     "openIdConnectUrl": "https://id.example.com/.well-known/openid-configuration"},
    {"description": "API key in a cookie", "name": "sec5", "fieldName": "sid", "type": "apiKey", "in": "cookie"},
]


def maximal_config():
    return {
        "commonConfig": {"controllerGlobs": ["./ctl/main.controller.go"], "allowPackageLoadFailures": True},
        "routesConfig": {
            "engine": "gin", "packageName": "myroutes", "outputPath": "./out/routes.go", "outputFilePerms": "0644",
            "authorizationConfig": {"authFileFullPackageName": "c20proj/auth", "enforceSecurityOnAllRoutes": False},
            "validateResponsePayload": True, "skipGenerateDateComment": True,
        },
        "openapiGeneratorConfig": {
            "openapi": "3.0.0",
            "info": {"title": "Sample API ($beta)", "description": "A \"quoted\" description, café; prices in $USD from $5, ${tenant}",
                     "termsOfService": "https://example.com/terms",
                     "contact": {"name": "API Support", "url": "https://example.com/support", "email": "support@example.com"},
                     "license": {"name": "Apache 2.0", "url": "https://www.apache.org/licenses/LICENSE-2.0.html"},
                     "version": "1.2.3"},
            "baseUrl": "https://api.example.com/v1/$metadata",
            "securitySchemes": copy.deepcopy(SCHEMES[:4]),
            "defaultSecurity": {"name": "sec1", "scopes": ["read"]},
            "specGeneratorConfig": {"outputPath": "./out/openapi.json"},
        },
        "experimentalConfig": {"validateTopLevelOnlyEnum": True, "generateEnumValidator": True},
    }


# optional parts: name -> (key paths removed when absent, names it needs)
OPTIONAL = [
    ("commonConfig", [["commonConfig"]], []),
    ("controllerGlobs", [["commonConfig", "controllerGlobs"]], ["commonConfig"]),
    ("allowPackageLoadFailures", [["commonConfig", "allowPackageLoadFailures"]], ["commonConfig"]),
    ("packageName", [["routesConfig", "packageName"]], []),
    ("outputFilePerms", [["routesConfig", "outputFilePerms"]], []),
    ("enforceSecurityOnAllRoutes", [["routesConfig", "authorizationConfig", "enforceSecurityOnAllRoutes"]], []),
    ("routeFlags", [["routesConfig", "validateResponsePayload"], ["routesConfig", "skipGenerateDateComment"]], []),
    ("description", [["openapiGeneratorConfig", "info", "description"]], []),
    ("termsOfService", [["openapiGeneratorConfig", "info", "termsOfService"]], []),
    ("contact", [["openapiGeneratorConfig", "info", "contact"]], []),
    ("license", [["openapiGeneratorConfig", "info", "license"]], []),
    ("securitySchemes", [["openapiGeneratorConfig", "securitySchemes"]], []),
    ("defaultSecurity", [["openapiGeneratorConfig", "defaultSecurity"]], ["securitySchemes"]),
    ("experimentalConfig", [["experimentalConfig"]], []),
]
OPT_NAMES = [o[0] for o in OPTIONAL]


def getp(c, path):
    for k in path:
        if isinstance(c, dict) and k in c:
            c = c[k]
        elif isinstance(c, list) and isinstance(k, int) and k < len(c):
            c = c[k]
        else:
            return None
    return c


def setp(c, path, val):
    for k in path[:-1]:
        c = c[k]
    c[path[-1]] = val


def delp(c, path):
    for k in path[:-1]:
        if isinstance(c, dict) and k in c or isinstance(c, list) and isinstance(k, int) and k < len(c):
            c = c[k]
        else:
            return
    if isinstance(c, dict):
        c.pop(path[-1], None)


def closed_subset(names):
    """Close a set of optional parts under 'needs' by dropping parts whose container is absent."""
    s = set(names)
    for n, _, needs in OPTIONAL:
        if n in s and any(x not in s for x in needs):
            s.discard(n)
    return frozenset(s)


def config_with(present, **kw):
    c = maximal_config()
    for n, paths, _ in OPTIONAL:
        if n not in present:
            for p in paths:
                delp(c, p)
    for path, val in kw.get("sets", []):
        setp(c, path, val)
    return c


OC = "openapiGeneratorConfig"
RC = "routesConfig"
SS = [OC, "securitySchemes"]

# single-field corruptions: (class, needs, mutate(cfg, value), values)
# needs: optional parts that must be present for the corruption to apply


def _del(path):
    return lambda c, v: delp(c, path)


def _set(path):
    return lambda c, v: setp(c, path, v)


CORRUPTIONS = [
    ("missing-section:routesConfig", [], _del([RC]), [None]),
    ("missing-section:openapiGeneratorConfig", [], _del([OC]), [None]),
    ("missing-section:info", [], _del([OC, "info"]), [None]),
    ("missing-section:specGeneratorConfig", [], _del([OC, "specGeneratorConfig"]), [None]),
    ("missing-section:authorizationConfig", [], _del([RC, "authorizationConfig"]), [None]),
    ("null-section:routesConfig", [], _set([RC]), [None]),
    ("missing-field:engine", [], _del([RC, "engine"]), [None]),
    ("missing-field:routes.outputPath", [], _del([RC, "outputPath"]), [None]),
    ("missing-field:authFileFullPackageName", [], _del([RC, "authorizationConfig", "authFileFullPackageName"]), [None]),
    ("missing-field:openapi", [], _del([OC, "openapi"]), [None]),
    ("missing-field:title", [], _del([OC, "info", "title"]), [None]),
    ("missing-field:version", [], _del([OC, "info", "version"]), [None]),
    ("missing-field:baseUrl", [], _del([OC, "baseUrl"]), [None]),
    ("missing-field:spec.outputPath", [], _del([OC, "specGeneratorConfig", "outputPath"]), [None]),
    ("empty-field:engine", [], _set([RC, "engine"]), [""]),
    ("empty-field:title", [], _set([OC, "info", "title"]), [""]),
    ("unknown-engine", [], _set([RC, "engine"]), ["express", "Gin", "gin ", "fasthttp", "net/http"]),
    ("unknown-openapi", [], _set([OC, "openapi"]), ["2.0", "3.0.1", "3.1", "3", "v3.0.0"]),
    ("bad-url:baseUrl", [], _set([OC, "baseUrl"]), ["not a url", "example.com", "/relative/path", "http//x", "://x"]),
    ("bad-email", ["contact"], _set([OC, "info", "contact", "email"]), ["nobody", "a@", "@b.c", "a b@c.d", "a@b@c.d"]),
    ("bad-perms", [], _set([RC, "outputFilePerms"]),
     ["rw-r--r--", "888", "7777", "0x1ff", "64", "06444", " 644", "0o644", "u+x"]),
    ("scheme-missing:name", ["securitySchemes"], _del(SS + [0, "name"]), [None]),
    ("scheme-missing:type", ["securitySchemes"], _del(SS + [1, "type"]), [None]),
    ("scheme-missing:description", ["securitySchemes"], _del(SS + [0, "description"]), [None]),
    ("scheme-bad-type", ["securitySchemes"], _set(SS + [0, "type"]), ["magic", "apikey", "HTTP", "oauth"]),
    ("scheme-bad-in", ["securitySchemes"], _set(SS + [0, "in"]), ["body", "Header", "path"]),
    ("scheme-bad-scheme", ["securitySchemes"], _set(SS + [1, "scheme"]), ["token", "Bearer", "jwt"]),
    ("scheme-name-digit", ["securitySchemes"], _set(SS + [1, "name"]), ["1sec", "_sec", "-x"]),
    ("scheme-bad-oidc-url", ["securitySchemes"], _set(SS + [3, "openIdConnectUrl"]), ["nope", "id.example.com"]),
    ("scheme-fieldName-digit", ["securitySchemes"], _set(SS + [0, "fieldName"]), ["9key"]),
    ("scheme-null-element", ["securitySchemes"], _set(SS + [2]), [None]),
    ("license-missing-name", ["license"], _del([OC, "info", "license", "name"]), [None]),
    ("contact-missing-email", ["contact"], _del([OC, "info", "contact", "email"]), [None]),
    ("empty-globs", ["commonConfig", "controllerGlobs"], _set(["commonConfig", "controllerGlobs"]), [[]]),
    ("default-security-missing-scopes", ["securitySchemes", "defaultSecurity"], _del([OC, "defaultSecurity", "scopes"]), [None]),
    ("default-security-missing-name", ["securitySchemes", "defaultSecurity"], _del([OC, "defaultSecurity", "name"]), [None]),
    ("outputPath-is-dir", [], _set([RC, "outputPath"]), ["./ctl", "./out/", "   "]),
    ("auth-trailing-slash", [], _set([RC, "authorizationConfig", "authFileFullPackageName"]), ["c20proj/auth/"]),
    ("type:engine-number", [], _set([RC, "engine"]), [5]),
    ("type:schemes-object", [], _set(SS), [{}]),
    ("type:perms-number", [], _set([RC, "outputFilePerms"]), [600]),
    ("type:info-string", [], _set([OC, "info"]), ["x"]),
    ("type:globs-string", ["commonConfig"], _set(["commonConfig", "controllerGlobs"]), ["./*.go"]),
    ("type:flag-string", [], _set([RC, "skipGenerateDateComment"]), ["yes"]),
]



def case_variants(legal):
    """Spellings of the legal values of an enum-valued field that differ from every legal value only
    in letter case (upper, lower, capitalised, swapped, first letter flipped)."""
    out = []
    for v in legal:
        for x in (v.upper(), v.lower(), v.capitalize(), v.swapcase(), v[:1].swapcase() + v[1:], v.title()):
            if x not in legal and x not in out:
                out.append(x)
    return out


SCHEME_TYPES = ["apiKey", "http", "oauth2", "openIdConnect"]
SCHEME_INS = ["header", "query", "cookie"]
HTTP_SCHEMES = ["basic", "bearer", "digest"]

# enum-valued fields: every case variant of every legal value must be refused up front, naming the
# field, nothing written (the value would be copied verbatim into the artifacts).  The scheme whose
# field is replaced is the one that legally carries the value's lower-case spelling.
_SCHEME_OF_TYPE = {"apikey": 0, "http": 1, "oauth2": 2, "openidconnect": 3}
ENUM_CASE = [
    ("enum-case:engine", [], lambda c, v: setp(c, [RC, "engine"], v), case_variants(ENGINES)),
    ("enum-case:scheme.type", ["securitySchemes"],
     lambda c, v: setp(c, SS + [_SCHEME_OF_TYPE[v.lower()], "type"], v), case_variants(SCHEME_TYPES)),
    ("enum-case:scheme.in", ["securitySchemes"], lambda c, v: setp(c, SS + [0, "in"], v), case_variants(SCHEME_INS)),
    ("enum-case:scheme.scheme", ["securitySchemes"], lambda c, v: setp(c, SS + [1, "scheme"], v), case_variants(HTTP_SCHEMES)),
]

# cross-field malformed security schemes (finding C20-scheme-shape)
XFIELD = [
    ("xfield:apikey-no-in", lambda c: delp(c, SS + [0, "in"])),
    ("xfield:apikey-no-fieldName", lambda c: delp(c, SS + [0, "fieldName"])),
    ("xfield:http-no-scheme", lambda c: delp(c, SS + [1, "scheme"])),
    ("xfield:oauth2-no-flows", lambda c: delp(c, SS + [2, "flows"])),
    ("xfield:oidc-no-url", lambda c: delp(c, SS + [3, "openIdConnectUrl"])),
    ("xfield:dangling-default-security", lambda c: setp(c, [OC, "defaultSecurity", "name"], "nosuch")),
]


def is_ident(k):
    return re.fullmatch(r"[A-Za-z_$][A-Za-z0-9_$]*", k) is not None


def render(cfg, rng, style):
    """JSON text of a configuration; style 'json5' uses unquoted keys, single quotes,
    trailing commas and comments (JSON5 features the real loader accepts)."""
    if style == "json":
        return json.dumps(cfg, indent=1, ensure_ascii=False)

    def q(x):
        if rng.random() < 0.5 and "'" not in x and "\\" not in x:
            return "'" + x.replace("\n", "\\n") + "'"
        return json.dumps(x, ensure_ascii=False)

    def go(v, ind):
        pad = " " * ind
        if isinstance(v, dict):
            if not v:
                return "{}"
            lines = []
            items = list(v.items())
            for n_, (k, x) in enumerate(items):
                key = k if (is_ident(k) and rng.random() < 0.7) else q(k)
                last = n_ == len(items) - 1
                comma = "" if (last and rng.random() < 0.5) else ","
                cm = "  // %s" % k if rng.random() < 0.15 else ""
                lines.append("%s  %s: %s%s%s" % (pad, key, go(x, ind + 2), comma, cm))
            return "{\n" + "\n".join(lines) + "\n" + pad + "}"
        if isinstance(v, list):
            if not v:
                return "[]"
            return "[" + ", ".join(go(x, ind + 2) for x in v) + ("," if rng.random() < 0.5 else "") + "]"
        if isinstance(v, str):
            return q(v)
        return json.dumps(v)

    return "// gleece configuration (JSON5)\n/* generated by the C20 check */\n" + go(cfg, 0) + "\n"


# ------------------------------------------------------------------ Coq printing

class Interner:
    """Every distinct string of a generated file becomes one Coq constant (z<n>); the case terms
    then consist of identifiers, which coqc parses and type-checks far faster than literals."""

    def __init__(self):
        self.names = {}

    def ref(self, x):
        if isinstance(x, str):
            x = x.encode("utf-8")
        n = self.names.get(x)
        if n is None:
            n = self.names[x] = "z%d" % len(self.names)
        return n

    def defs(self):
        return "".join("Definition %s : str := %s.\n" % (n, coq_bytes(b)) for b, n in self.names.items())

    def reset(self):
        self.names = {}


INTERN = Interner()


def cb(x):
    return INTERN.ref(x)


def coq_jv(v):
    if v is None:
        return "JNull"
    if isinstance(v, bool):
        return "(JBool %s)" % coq_bool(v)
    if isinstance(v, int):
        return "(JNum (%d)%%Z)" % v
    if isinstance(v, str):
        return "(JStr %s)" % cb(v)
    if isinstance(v, list):
        return "(JArr %s)" % coq_list([coq_jv(x) for x in v])
    if isinstance(v, dict):
        return "(JObj %s)" % coq_list(["(%s, %s)" % (cb(k), coq_jv(x)) for k, x in v.items()])
    raise ValueError("no JSON value: %r" % (v,))


def coq_pairs(items):
    return coq_list(["(%s, %s)" % (cb(a), cb(b)) for a, b in items])


def coq_strs(items):
    return coq_list([cb(x) for x in items])


def coq_rule(r, kind):
    tag, param = r["tag"], r["param"]
    if tag == "required" and param == "":
        return "RRequired"
    if tag == "omitempty" and param == "":
        return "ROmitempty"
    if tag == "dive" and param == "":
        return "RDive"
    if tag == "not_nil_array" and param == "":
        return "RNotNil"
    if tag == "oneof" and "'" not in param and param.strip():
        return "(ROneof %s)" % coq_list([coq_bytes(x) for x in param.split()])
    if tag == "min" and re.fullmatch(r"[0-9]+", param) and kind in ("strings", "structs", "strmap", "string"):
        return "(RMin %s%%N)" % int(param)
    if kind != "string":
        raise RuntimeError("translator: rule %s=%s on a %s field is not classified" % (tag, param, kind))
    return "(RPred %s %s)" % (coq_bytes(tag), coq_bytes(param))


def dotted(entry):
    return ".".join(s["json"] for s in entry["path"])


def schema_to_coq(entries):
    out = []
    for e in entries:
        k = e["kind"]
        if k not in KIND:
            raise RuntimeError("translator: field %s has no known kind" % dotted(e))
        tags = [r["tag"] for r in e["rules"]]
        if k == "struct" and tags not in ([], ["required"]):
            raise RuntimeError("translator: rules %s on struct field %s are not classified" % (tags, dotted(e)))
        if k == "ptr" and any(t not in ("required", "omitempty") for t in tags):
            raise RuntimeError("translator: rules %s on pointer field %s are not classified" % (tags, dotted(e)))
        path = coq_list(["%s %s" % (SEG[s["seg"]], coq_bytes(s["json"])) for s in e["path"]])
        rules = coq_list([coq_rule(r, k) for r in e["rules"]])
        out.append("D %s %s %s %s" % (path, coq_bytes(e["go"]), KIND[k], rules))
    return "[\n  " + ";\n  ".join(out) + "\n]"


def schema_preds(entries):
    """(dotted path, tag, param) for every oracle-decided rule of the translated schema."""
    out = []
    for e in entries:
        for r in e["rules"]:
            if coq_rule(r, e["kind"]).startswith("(RPred"):
                out.append((dotted(e), r["tag"], r["param"]))
    return out


def strings_by_path(cfg):
    acc = {}

    def walk(v, path):
        if isinstance(v, dict):
            for k, x in v.items():
                walk(x, path + [k])
        elif isinstance(v, list):
            for x in v:
                walk(x, path)
        elif isinstance(v, str):
            acc.setdefault(".".join(path), set()).add(v)
    walk(cfg, [])
    return acc


class Oracle:
    """Answers of the real validator, asked once per (field path, rule, string)."""

    def __init__(self, preds, cwd):
        self.preds, self.cwd = sorted(set(preds)), cwd
        self.ans = {}          # (tag, param, value) -> bool
        self.by_path = {}

    def ensure(self, cfgs):
        need = []
        seen = set()
        for cfg in cfgs:
            sp = strings_by_path(cfg)
            for path, tag, param in self.preds:
                for v in sp.get(path, set()) | {""}:
                    key = (path, tag, param, v)
                    if key not in self.by_path and key not in seen:
                        seen.add(key)
                        need.append(key)
        if not need:
            return
        res = implrun("tagoracle", {"cwd": self.cwd, "items": [
            {"path": p, "tag": t, "param": pa, "value": v} for (p, t, pa, v) in need]})
        for key, r in zip(need, res):
            self.by_path[key] = r
            k2 = key[1:]
            if k2 in self.ans and self.ans[k2] != r:
                raise RuntimeError("oracle answers for %r differ between fields" % (k2,))
            self.ans[k2] = r

    def rows(self):
        return sorted(self.ans.items())

    def coq(self):
        rows = ["(%s, %s, %s, %s)" % (cb(t), cb(p), cb(v), coq_bool(r)) for (t, p, v), r in self.rows()]
        return "[\n  " + ";\n  ".join(rows) + "\n]"

    def breakers(self, out):
        """Strings on which the real validator breaks Config.enum_claims (rows of this file's table)."""
        rows = self.rows()
        return {rows[i][0][2] for i in parse_nat_list(out, "enum_breakers") if i < len(rows)}


GEN_TAGS = """(* generated by pygen/c20.py from `implrun tagdump` - do not edit *)
From Gleece Require Import Base.Bytes Model.Config.
From Coq Require Import String.
Open Scope list_scope.
Definition config_schema : schema := %(schema)s.
Definition python_declared_preds : list (str * str * str) := %(dpreds)s.
Definition seg_key (x : seg) : str := match x with SField k | SPtr k | SElems k => k end.
Definition declared_preds : list (str * str * str) :=
  flat_map (fun e => flat_map (fun r => match r with
                                        | RPred n p => [(join_with (s ".") (map seg_key (e_path e)), n, p)]
                                        | _ => [] end) (e_rules e)) declared_schema.
Definition triple_eqb (a b : str * str * str) : bool :=
  str_eqb (fst (fst a)) (fst (fst b)) && str_eqb (snd (fst a)) (snd (fst b)) && str_eqb (snd a) (snd b).
Definition preds_in_sync := Eval vm_compute in mset_eqb triple_eqb declared_preds python_declared_preds.
Definition obligation := Eval vm_compute in schema_at_least declared_schema config_schema.
Definition uncovered_fields := Eval vm_compute in
  map (fun e => List.length (e_path e)) (uncovered declared_schema config_schema).
Definition uncovered_index := Eval vm_compute in
  flat_map (fun ie => if covered config_schema (snd ie) then [] else [fst ie])
           (combine (seq 0 (List.length declared_schema)) declared_schema).
Definition n_entries := Eval vm_compute in [List.length config_schema; List.length declared_schema].
Print preds_in_sync.
Print obligation.
Print uncovered_index.
Print n_entries.
"""

CASE_HEADER = """From Gleece Require Import Base.Bytes Model.Config.
From Coq Require Import String.
Require Import Gen_tags.
Open Scope list_scope.
%(defs)s
Definition otable : list (str * str * str * bool) := %(otable)s.
Definition orc : oracle := fun n p v =>
  match find (fun r => str_eqb (fst (fst (fst r))) n && str_eqb (snd (fst (fst r))) p && str_eqb (snd (fst r)) v) otable with
  | Some r => snd r | None => false end.
Definition tbl_pre (t : list (str * N)) : str -> option N := fun p => assoc p t.
Definition tbl_glob (t : list (str * str * bool)) : str -> str -> bool := fun g f =>
  match find (fun r => str_eqb (fst (fst r)) g && str_eqb (snd (fst r)) f) t with
  | Some r => snd r | None => false end.
(* the enum claim (hypothesis enum_sound of the theorems) on every string the real validator was asked about *)
Definition enum_ok := Eval vm_compute in enum_sound_on orc (map (fun r => snd (fst r)) otable).
Definition enum_breakers := Eval vm_compute in
  flat_map (fun ir => if enum_sound_on orc [snd (fst (snd ir))] then [] else [fst ir])
           (combine (seq 0 (List.length otable)) otable).
Definition files : list (str * list str) := %(files)s.
Definition Wd pre um gl aok sok : world :=
  {| w_pre := tbl_pre pre; w_umask := um; w_files := files; w_glob := tbl_glob gl; w_analysis_ok := aok; w_spec_ok := sok |}.
Definition A k p m at_ sc ct : artifact :=
  {| a_kind := k; a_path := p; a_mode := m; a_attrs := at_; a_schemes := sc; a_ctrls := ct |}.
Definition Ob st fs started wr stray : observation :=
  {| ob_status := st; ob_fields := fs; ob_started := started; ob_written := wr; ob_stray := stray |}.
"""

CLI_EVAL = """
Record ccase := { cid : nat; c_cmd : command; c_w : world; c_cfg : jv; c_ob : observation; c_cmp : bool }.
Definition model_ob (c : ccase) := observe (cmd orc config_schema (c_cmd c) (c_w c) (c_cfg c)).
Definition agrees (c : ccase) : bool := obs_agree (c_cmp c) (model_ob c) (c_ob c).
Definition holds (c : ccase) : bool := prop_C20 orc config_schema (c_cmd c) (c_w c) (c_cfg c) (c_ob c).
Definition bits (l : list bool) : nat := fold_left (fun (a : nat) (b : bool) => 2 * a + (if b then 1 else 0)) l 1.
(* why a case disagrees: status, fields, started, written, stray (1 = equal) *)
Definition diffinfo (c : ccase) : nat :=
  let m := model_ob c in let i := c_ob c in
  bits [status_eqb (ob_status m) (ob_status i); mset_eqb pair_eqb (ob_fields m) (ob_fields i);
        negb (c_cmp c) || Bool.eqb (ob_started m) (ob_started i);
        mset_eqb artifact_eqb (ob_written m) (ob_written i); Nat.eqb (ob_stray m) (ob_stray i)].
(* which clause of the property fails: declared-bad, refusal, untouched, names, kinds, honoured, stray=0 *)
Definition failinfo (c : ccase) : nat :=
  let ob := c_ob c in
  bits [violatesb orc declared_schema (c_cfg c); negb (cross_ok (c_cfg c)); is_refusal (ob_status ob); untouched ob;
        names_all orc config_schema (c_cfg c) ob;
        list_eqb art_kind_eqb (map a_kind (ob_written ob)) (kinds_for (c_cmd c));
        forallb (honoured_artifact (c_w c) (c_cfg c)) (ob_written ob); Nat.eqb (ob_stray ob) 0].
Definition cases : list ccase := %(cases)s.
Definition diffs := Eval vm_compute in flat_map (fun c => if agrees c then [] else [cid c; diffinfo c]) cases.
Definition fails := Eval vm_compute in flat_map (fun c => if holds c then [] else [cid c; failinfo c]) cases.
Definition badcount := Eval vm_compute in
  [List.length (filter (fun c => violatesb orc declared_schema (c_cfg c)) cases);
   List.length (filter (fun c => negb (cross_ok (c_cfg c))) cases)].
Print diffs.
Print fails.
Print badcount.
Print enum_breakers.
"""

LIB_EVAL = """
Definition lcases : list (nat * jv * verdict) := %(cases)s.
Definition lid (c : nat * jv * verdict) := fst (fst c).
Definition lagrees (c : nat * jv * verdict) : bool :=
  let '(_, cfg, v) := c in verdict_eqb (validate orc config_schema cfg) v.
Definition lholds (c : nat * jv * verdict) : bool :=
  let '(_, cfg, v) := c in prop_C20_load orc config_schema cfg v.
Definition disagree := Eval vm_compute in map lid (filter (fun c => negb (lagrees c)) lcases).
Definition propfail := Eval vm_compute in map lid (filter (fun c => negb (lholds c)) lcases).
Definition badcount := Eval vm_compute in
  [List.length (filter (fun c => violatesb orc declared_schema (snd (fst c))) lcases);
   List.length (filter (fun c => negb (cross_ok (snd (fst c)))) lcases)].
Print disagree.
Print propfail.
Print badcount.
Print enum_breakers.
"""

ENUM_BREAKERS = set()      # strings on which the real validator broke the enum claim, over the whole run

FIELD_RE = re.compile(r"Field '([^']*)' failed validation with tag '([^']*)'\. ")


def verdict_of_error(ok, err):
    if ok:
        return ("valid", [])
    if "could not unmarshal config file" in err:
        return ("decode", [])
    if "is invalid - " in err:
        return ("invalid", FIELD_RE.findall(err))
    return ("other", [])


def coq_verdict(v):
    kind, fields = v
    if kind == "valid":
        return "Valid"
    if kind == "decode":
        return "DecodeErr"
    if kind == "invalid":
        return "(Invalid %s)" % coq_pairs(fields)
    raise RuntimeError("LoadGleeceConfig failed in an unclassified way: %r" % (v,))


# ------------------------------------------------------------------ library layer

def lib_cases(rng, tier):
    """(class, cfg) list: subsets of optional parts, single-field corruptions, cross-field schemes."""
    out = []
    n = len(OPT_NAMES)
    subsets = set()
    subsets.add(frozenset())
    subsets.add(closed_subset(OPT_NAMES))
    for k in OPT_NAMES:
        subsets.add(closed_subset([k] + [x for o in OPTIONAL if o[0] == k for x in o[2]]))
        subsets.add(closed_subset([x for x in OPT_NAMES if x != k]))
    if tier == "thorough":
        for mask in range(1 << n):
            subsets.add(closed_subset([OPT_NAMES[i] for i in range(n) if mask >> i & 1]))
    else:
        for _ in range(250):
            subsets.add(closed_subset([x for x in OPT_NAMES if rng.random() < 0.5]))
    for sset in sorted(subsets, key=lambda x: sorted(x)):
        c = config_with(sset)
        c[RC]["engine"] = rng.choice(ENGINES)
        c[OC]["openapi"] = rng.choice(VERSIONS)
        out.append(("subset", c))
    bases = [closed_subset(OPT_NAMES), frozenset()]
    if tier == "thorough":
        bases.append(closed_subset([x for x in OPT_NAMES if rng.random() < 0.5]))
    for cls, needs, mut, values in CORRUPTIONS:
        vals = values if tier == "thorough" else values[:3]
        for b in bases:
            present = closed_subset(set(b) | set(needs) | {x for nn in needs for o in OPTIONAL if o[0] == nn for x in o[2]})
            for v in vals:
                c = config_with(present)
                mut(c, v)
                out.append(("corrupt:" + cls, c))
    # enum-valued fields: every case variant of every legal value, on the maximal and the minimal base
    for cls, needs, mut, values in ENUM_CASE:
        for b in bases[:2]:
            present = closed_subset(set(b) | set(needs))
            for v in values:
                c = config_with(present)
                c[OC]["openapi"] = rng.choice(VERSIONS)
                mut(c, v)
                out.append(("corrupt:" + cls, c))
    # two faults at once
    for _ in range(40 if tier == "quick" else 400):
        a, b = rng.sample(CORRUPTIONS, 2)
        present = closed_subset(OPT_NAMES)
        c = config_with(present)
        try:
            a[2](c, rng.choice(a[3]))
            b[2](c, rng.choice(b[3]))
        except (KeyError, TypeError, IndexError):
            continue
        out.append(("corrupt2:%s+%s" % (a[0], b[0]), c))
    for cls, mut in XFIELD:
        c = config_with(closed_subset(OPT_NAMES))
        mut(c)
        out.append((cls, c))
    out.append(("type:root-array", []))
    out.append(("type:root-number", 5))
    out.append(("null-root", None))
    return out


def run_lib(cases, oracle, rng, tag="lib"):
    texts = [render(c, rng, "json5" if (i % 3 == 0 and isinstance(c, dict)) else "json") for i, (_, c) in enumerate(cases)]
    res = implrun("loadconfig", {"cwd": oracle.cwd, "configs": texts}, timeout=1200)
    verdicts = [verdict_of_error(r["ok"], r["error"]) for r in res]
    oracle.ensure([c for _, c in cases])
    disagree, propfail, bad = [], [], [0, 0]
    SH = 600
    for lo in range(0, len(cases), SH):
        idx = range(lo, min(lo + SH, len(cases)))
        INTERN.reset()
        ctext = "[\n " + ";\n ".join("(%d, %s, %s)" % (i, coq_jv(cases[i][1]), coq_verdict(verdicts[i])) for i in idx) + "\n]"
        otext = oracle.coq()
        body = CASE_HEADER % dict(otable=otext, files="[]", defs=INTERN.defs()) + LIB_EVAL % dict(cases=ctext)
        out = run_coq_file(PROP, "%s_%d" % (tag, lo), body)
        ENUM_BREAKERS.update(oracle.breakers(out))
        disagree += parse_nat_list(out, "disagree")
        propfail += parse_nat_list(out, "propfail")
        b = parse_nat_list(out, "badcount")
        bad = [bad[0] + b[0], bad[1] + b[1]]
    return texts, verdicts, disagree, propfail, bad


# ------------------------------------------------------------------ history layer (several loads, one process)

SEQ_EVAL = """
From Gleece Require Import Model.ConfigLoad.
Definition L d v x y : load_obs := {| lo_doc := d; lo_verdict := v; lo_value := x; lo_after := y |}.
Definition scases : list (nat * load_obs) := %(cases)s.
Definition sdisagree := Eval vm_compute in
  map fst (filter (fun c => negb (load_agrees orc config_schema (snd c))) scases).
Definition spropfail := Eval vm_compute in map fst (filter (fun c => negb (load_ok (snd c))) scases).
Definition svalid := Eval vm_compute in
  [List.length (filter (fun c => match lo_verdict (snd c) with Valid => true | _ => false end) scases)].
Print sdisagree.
Print spropfail.
Print svalid.
Print enum_breakers.
"""

GLOB_POOL = [
    ["./ctl/main.controller.go", "./ctl/decoy.controller.go"],
    ["./ctl/m*.go", "./extra/*.go"],
    ["./ctl/admin.go", "./ctl/decoy.controller.go", "./ctl/main.controller.go"],
    ["./ctl/sub/*.go", "./ctl/a*.go", "./extra/*.go", "./ctl/main.controller.go"],
    ["./extra/*.go", "./ctl/sub/*.go"],
    ["./ctl/main.controller.go"],
    ["./ctl/*.go"],
    ["./nomatch/*.go", "./ctl/admin.go"],
]


def explicit_config(rng, k):
    """A configuration with EVERY optional part present and its values varied with k (so that two
    explicit documents of one history differ in every optional field)."""
    c = config_with(closed_subset(OPT_NAMES))
    c["commonConfig"]["controllerGlobs"] = list(GLOB_POOL[k % len(GLOB_POOL)])
    c[RC]["engine"], c[OC]["openapi"] = ENGINES[k % 5], VERSIONS[k % 2]
    c[RC]["packageName"] = ["myroutes", "api_v2", "gen", "handlers"][k % 4]
    c[RC]["outputFilePerms"] = ["0600", "0640", "644", "0755"][k % 4]
    c[RC]["outputPath"] = "./out%d/routes.go" % k
    c[RC]["authorizationConfig"]["enforceSecurityOnAllRoutes"] = True
    c[RC]["templateOverrides"] = {"Imports": "./tpl/imports%d.hbs" % k, "RunValidator": "./tpl/rv.hbs"}
    c[RC]["templateExtensions"] = {"ImportsExtension": "./tpl/ext%d.hbs" % k}
    info = c[OC]["info"]
    info["description"] += " #%d" % k
    info["termsOfService"] = "https://example.com/terms/%d" % k
    info["contact"]["name"] = "Support %d" % k
    info["license"]["name"] = ["Apache 2.0", "MIT", "BSD-3"][k % 3]
    order = list(range(len(SCHEMES)))
    rng.shuffle(order)
    picked = sorted(order[:rng.randint(2, len(SCHEMES))]) if k % 2 else order[:rng.randint(2, len(SCHEMES))]
    c[OC]["securitySchemes"] = [copy.deepcopy(SCHEMES[i]) for i in picked]
    c[OC]["defaultSecurity"] = {"name": c[OC]["securitySchemes"][-1]["name"], "scopes": ["read", "write", "s%d" % k][:1 + k % 3]}
    c[OC]["specGeneratorConfig"]["outputPath"] = "./out%d/openapi.json" % k
    return c


def omitting_config(rng, omitted, k):
    c = config_with(closed_subset([x for x in OPT_NAMES if x not in omitted]))
    c[RC]["engine"], c[OC]["openapi"] = ENGINES[(k + 2) % 5], VERSIONS[(k + 1) % 2]
    return c


def seq_cases(rng, tier):
    """Histories (lists of (class, cfg)) loaded in one process.  The property quantifies over every
    subset of optional fields; a process may load any number of configurations (library use, a
    test binary, a watch loop): the accepted value of each must be ITS document's."""
    hs = []
    k = 0
    for n, _, _ in OPTIONAL:
        # explicit, then the document without this one part
        hs.append([("seq:explicit", explicit_config(rng, k)), ("seq:omit:" + n, omitting_config(rng, {n}, k))])
        # two explicit documents (different values, lists of different lengths), then the omission
        hs.append([("seq:explicit", explicit_config(rng, k + 1)), ("seq:explicit", explicit_config(rng, k + 3)),
                   ("seq:omit:" + n, omitting_config(rng, {n}, k + 1))])
        k += 1
    for g in range(len(GLOB_POOL)):
        # every list length before: the minimal document, the empty list, the explicit default
        last = [omitting_config(rng, set(OPT_NAMES), g), config_with(closed_subset(OPT_NAMES)), config_with(closed_subset(OPT_NAMES))][g % 3]
        if g % 3 == 1:
            last["commonConfig"]["controllerGlobs"] = []
        if g % 3 == 2:
            last["commonConfig"]["controllerGlobs"] = ["./ctl/sub/*.go"]
        hs.append([("seq:explicit", explicit_config(rng, g)), ("seq:" + ["minimal", "empty-globs", "shorter-globs"][g % 3], last)])
    # a refused document between the explicit one and the omission (a refusal leaves nothing behind either)
    for j, (cls, needs, mut, values) in enumerate(CORRUPTIONS[::5] if tier == "quick" else CORRUPTIONS):
        bad = explicit_config(rng, j + 2)
        try:
            mut(bad, values[j % len(values)])
        except (KeyError, TypeError, IndexError):
            continue
        om = rng.sample(OPT_NAMES, rng.randint(1, 5))
        hs.append([("seq:explicit", explicit_config(rng, j)), ("seq:corrupt:" + cls, bad),
                   ("seq:omit:" + "+".join(sorted(om)), omitting_config(rng, set(om), j))])
    # random histories: explicit / omitting documents in any order, the same document twice
    for _ in range(12 if tier == "quick" else 150):
        h = []
        for _ in range(rng.randint(2, 4)):
            if rng.random() < 0.5:
                h.append(("seq:explicit", explicit_config(rng, rng.randrange(40))))
            else:
                om = [x for x in OPT_NAMES if rng.random() < 0.4]
                h.append(("seq:omit:" + "+".join(sorted(om)), omitting_config(rng, set(om), rng.randrange(40))))
        if rng.random() < 0.3:
            h.append(h[0])
        hs.append(h)
    return hs


def run_seq(hists, oracle, rng, tag="seq", fresh=True):
    """Load every history in its own process; judge every load in Coq.  Returns per history the
    texts and results, the flat ids (history, position) that disagree with the model / fail the
    oracle, and the histories whose last document a fresh process answers differently."""
    texts = [[render(c, rng, "json5" if ((hi + i) % 3 == 0 and isinstance(c, dict)) else "json") for i, (_, c) in enumerate(h)]
             for hi, h in enumerate(hists)]

    def one(ts):
        return implrun("loadconfig", {"cwd": oracle.cwd, "configs": ts[1], "name": ".c20seq%d.json" % ts[0]}, timeout=600)
    with concurrent.futures.ThreadPoolExecutor(max_workers=8) as ex:
        results = list(ex.map(one, [(hi, ts) for hi, ts in enumerate(texts)]))
        fresh_res = list(ex.map(one, [(len(hists) + hi, [ts[-1]]) for hi, ts in enumerate(texts)])) if fresh else []
    oracle.ensure([c for h in hists for _, c in h])
    flat = [(hi, i) for hi, h in enumerate(hists) for i in range(len(h))]

    def val(raw):
        return "None" if raw is None else "(Some %s)" % coq_jv(raw)
    INTERN.reset()
    rows = []
    for n, (hi, i) in enumerate(flat):
        r = results[hi][i]
        if r.get("error", "").startswith(("PANIC", "MARSHAL")):
            raise RuntimeError("loadconfig: %s" % r["error"])
        v = verdict_of_error(r["ok"], r["error"])
        rows.append("(%d, L %s %s %s %s)" % (n, coq_jv(hists[hi][i][1]), coq_verdict(v), val(r.get("config")), val(r.get("after"))))
    otext = oracle.coq()
    body = CASE_HEADER % dict(otable=otext, files="[]", defs=INTERN.defs()) + SEQ_EVAL % dict(cases="[\n " + ";\n ".join(rows) + "\n]")
    out = run_coq_file(PROP, tag, body)
    ENUM_BREAKERS.update(oracle.breakers(out))
    dis = [flat[n] for n in parse_nat_list(out, "sdisagree")]
    pf = [flat[n] for n in parse_nat_list(out, "spropfail")]
    nvalid = parse_nat_list(out, "svalid")[0]
    differs = []
    for hi, fr in enumerate(fresh_res):
        a_, b_ = results[hi][-1], fr[0]
        if (a_["ok"], a_.get("config"), a_.get("after")) != (b_["ok"], b_.get("config"), b_.get("config")) \
                or verdict_of_error(a_["ok"], a_["error"]) != verdict_of_error(b_["ok"], b_["error"]):
            differs.append(hi)
    return dict(texts=texts, results=results, fresh=fresh_res, disagree=dis, propfail=pf, differs=differs, valid=nvalid,
                loads=len(flat))


def seq_input(h, texts):
    return {"sequence": [{"class": cls, "config": c, "config_text": tx} for (cls, c), tx in zip(h, texts)],
            "layer": "cmd.LoadGleeceConfig, all documents loaded one after the other in ONE process"}


def seq_output(results):
    return [{"ok": r["ok"], "error": r["error"][-300:], "value": r.get("config"), "value_after_history": r.get("after")} for r in results]


def shrink_seq(h, pos, oracle, rng):
    """Drop documents before/after the failing one while the history still fails the oracle."""
    cur, p = list(h), pos
    changed = True
    n = 0
    while changed and len(cur) > 1 and n < 8:
        changed = False
        for j in range(len(cur)):
            if j == p:
                continue
            cand = cur[:j] + cur[j + 1:]
            n += 1
            r = run_seq([cand], oracle, rng, "seqshrink", fresh=False)
            if r["propfail"]:
                cur, p, changed = cand, r["propfail"][0][1], True
                break
    r = run_seq([cur], oracle, rng, "seqshrunk")
    return cur, r


# ------------------------------------------------------------------ CLI layer

def snapshot(d):
    snap = {}
    for root, dirs, fs in os.walk(d):
        for x in dirs:
            p = os.path.join(root, x)
            snap[os.path.relpath(p, d)] = ("dir", os.stat(p).st_mode & 0o7777)
        for x in fs:
            p = os.path.join(root, x)
            st = os.lstat(p)
            h = hashlib.sha1(open(p, "rb").read()).hexdigest() if os.path.isfile(p) else ""
            snap[os.path.relpath(p, d)] = ("file", st.st_mode & 0o7777, st.st_size, st.st_mtime_ns, h)
    return snap


def cli_case(cid, cls, cfg, command="spec-and-routes", project="good", pre=None, umask=0, style="json"):
    return dict(id=cid, cls=cls, cfg=cfg, command=command, project=project, pre=pre or {}, umask=umask, style=style)


PRE_GO = "package old\n"
PRE_JSON = "{}\n"


def run_cli_case(case, cli, templates, keep=False):
    d = os.path.join(W, "runs", case.get("dirname") or "%05d" % case["id"])
    shutil.rmtree(d, ignore_errors=True)
    shutil.copytree(templates[case["project"]], d)
    with open(os.path.join(d, "gleece.config.json"), "w") as f:
        f.write(case["text"])
    old = time.time() - 86400
    for rel, mode in case["pre"].items():
        p = os.path.normpath(os.path.join(d, rel))
        os.makedirs(os.path.dirname(p), exist_ok=True)
        with open(p, "w") as f:
            f.write(PRE_GO if rel.endswith(".go") else PRE_JSON)
        os.chmod(p, mode)
        os.utime(p, (old, old))
    before = snapshot(d)
    t0 = time.time()
    p = subprocess.run(["sh", "-c", 'umask %03o; exec "$0" "$@"' % case["umask"], cli, "generate", case["command"],
                        "--no-banner", "-c", "gleece.config.json"], cwd=d, env=GOENV,
                       stdout=subprocess.PIPE, stderr=subprocess.STDOUT, timeout=300)
    wall = time.time() - t0
    after = snapshot(d)
    text = p.stdout.decode(errors="replace")
    changed = sorted(k for k in after if k not in before or
                     (after[k][0] == "file" and before[k] != after[k]) or
                     (after[k][0] == "dir" and before[k][:2] != after[k][:2]))
    removed = sorted(k for k in before if k not in after)
    return dict(dir=d, exit=p.returncode, text=text, changed=changed, removed=removed, after=after, wall=wall)


def cfg_str(cfg, path):
    v = getp(cfg, path) if isinstance(cfg, dict) else None
    return v if isinstance(v, str) else ""


def effective_globs(cfg):
    g = getp(cfg, ["commonConfig", "controllerGlobs"]) if isinstance(cfg, dict) else None
    if isinstance(g, list) and len(g) > 0:
        return [x if isinstance(x, str) else "" for x in g]
    return ["./*.go", "./**/*.go"]


def spec_observation(path):
    try:
        doc = json.load(open(path, encoding="utf-8"))
    except Exception as e:  # noqa
        return [("unparsable", str(e)[:80])], [], []
    attrs = []

    def add(k, v):
        if isinstance(v, str):
            attrs.append((k, v))
        elif v is not None:
            attrs.append((k, json.dumps(v)))
    add("openapi", doc.get("openapi"))
    info = doc.get("info") or {}
    for k in ("title", "description", "termsOfService", "version"):
        add("info." + k, info.get(k))
    for sub, keys in (("contact", ("name", "url", "email")), ("license", ("name", "url"))):
        for k in keys:
            add("info.%s.%s" % (sub, k), (info.get(sub) or {}).get(k))
    for srv in doc.get("servers") or []:
        add("server", srv.get("url"))
    schemes = []
    for name, sc in ((doc.get("components") or {}).get("securitySchemes") or {}).items():
        sa = []
        for k in ("type", "in", "name", "description", "scheme", "openIdConnectUrl"):
            if isinstance(sc.get(k), str):
                sa.append((k, sc[k]))
        if isinstance(sc.get("flows"), dict):
            sa.append(("flows", "yes"))
            for fname, fl in sc["flows"].items():
                if not isinstance(fl, dict):
                    continue
                sa.append(("flows.%s.present" % fname, "yes"))
                for k in ("authorizationUrl", "tokenUrl", "refreshUrl"):
                    if isinstance(fl.get(k), str):
                        sa.append(("flows.%s.%s" % (fname, k), fl[k]))
                for sk, sv in (fl.get("scopes") or {}).items():
                    sa.append(("flows.%s.scopes.%s" % (fname, sk), sv if isinstance(sv, str) else json.dumps(sv)))
        schemes.append((name, sa))
    ctrls = [c for c, r in ROUTE_OF.items() if r in (doc.get("paths") or {})]
    return attrs, schemes, ctrls


def observe_cli(case, run, goinfo):
    """Projected observables of one CLI run (see Config.observation)."""
    cfg, text, d = case["cfg"], run["text"], run["dir"]
    if run["exit"] == 0:
        status = "StOk"
    elif "is invalid - " in text and "configuration file" in text:
        status = "StConfigInvalid"
    elif "could not unmarshal config file" in text or "could not read config file" in text:
        status = "StConfigUndecodable"
    else:
        status = "StOtherFailure"
    fields = []
    if status == "StConfigInvalid":
        line = [l for l in text.splitlines() if "is invalid - " in l][0]
        fields = FIELD_RE.findall(line)
    parse_seen = ("failed to parse file" in text) or ("Error parsing file" in text)
    started = parse_seen or status in ("StOk", "StOtherFailure")
    routes_cfg = cfg_str(cfg, [RC, "outputPath"])
    spec_cfg = cfg_str(cfg, [OC, "specGeneratorConfig", "outputPath"])
    ab = lambda x: os.path.normpath(os.path.join(d, x)) if x else None
    written, stray = [], []
    art_dirs = set()
    for rel in run["changed"]:
        if run["after"][rel][0] != "file":
            continue
        p = os.path.normpath(os.path.join(d, rel))
        mode = run["after"][rel][1]
        if routes_cfg and p == ab(routes_cfg):
            gi = goinfo.get(p, {})
            eng = [i for i in gi.get("imports", []) if i in ENGINE_IMPORTS]
            auth = cfg_str(cfg, [RC, "authorizationConfig", "authFileFullPackageName"])
            attrs = [("package", gi.get("package", "")), ("engine", ",".join(eng)),
                     ("auth", auth if auth in gi.get("imports", []) else "")]
            if gi.get("error"):
                attrs.append(("parse_error", gi["error"][:60]))
            ctrls = [c for c, r in ROUTE_OF.items() if r in gi.get("strings", [])]
            written.append(dict(kind="ARoutes", path=routes_cfg, mode=mode, attrs=attrs, schemes=[], ctrls=ctrls))
        elif spec_cfg and p == ab(spec_cfg):
            attrs, schemes, ctrls = spec_observation(p)
            written.append(dict(kind="ASpec", path=spec_cfg, mode=mode, attrs=attrs, schemes=schemes, ctrls=ctrls))
        else:
            stray.append(rel)
            continue
        x = os.path.dirname(rel)
        while x:
            art_dirs.add(x)
            x = os.path.dirname(x)
    for rel in run["changed"]:
        if run["after"][rel][0] == "dir" and rel not in art_dirs:
            stray.append(rel)
    stray += run["removed"]
    written.sort(key=lambda a: a["kind"])        # ARoutes before ASpec: the order the command writes them
    return dict(status=status, fields=fields, started=started, written=written, stray=stray,
                spec_ok=("Failed to generate OpenAPI spec" not in text), parse_seen=parse_seen)


def coq_artifact(a):
    return "A %s %s %d%%N %s %s %s" % (
        a["kind"], cb(a["path"]), a["mode"], coq_pairs(a["attrs"]),
        coq_list(["(%s, %s)" % (cb(n), coq_pairs(sa)) for n, sa in a["schemes"]]), coq_strs(a["ctrls"]))


def coq_cli_case(case, ob, templates):
    cfg = case["cfg"]
    tmpl = templates[case["project"]]
    globs = effective_globs(cfg)
    gm = glob_matches(tmpl, globs)
    pre = []
    for key in ([RC, "outputPath"], [OC, "specGeneratorConfig", "outputPath"]):
        s_ = cfg_str(cfg, key)
        if s_:
            for rel, mode in case["pre"].items():
                if os.path.normpath(os.path.join("/x", rel)) == os.path.normpath(os.path.join("/x", s_)):
                    pre.append((s_, mode))
    analysis_ok = case["project"] == "good" or not any(gm.values())
    gtab = []
    for g in dict.fromkeys(globs):
        gtab += [(g, f, v) for f, v in sorted(glob_one(tmpl, g).items())]
    world = "Wd %s %d%%N %s %s %s" % (
        coq_list(["(%s, %d%%N)" % (cb(p), m) for p, m in pre]), case["umask"],
        coq_list(["(%s, %s, %s)" % (cb(g), cb(f), coq_bool(v)) for g, f, v in gtab]),
        coq_bool(analysis_ok), coq_bool(ob["spec_ok"]))
    obs = "Ob %s %s %s %s %d" % (ob["status"], coq_pairs(ob["fields"]), coq_bool(ob["started"]),
                                 coq_list([coq_artifact(a) for a in ob["written"]]), len(ob["stray"]))
    cmd = {"spec": "CSpec", "routes": "CRoutes", "spec-and-routes": "CBoth"}[case["command"]]
    return "{| cid := %d; c_cmd := %s; c_w := %s; c_cfg := %s; c_ob := %s; c_cmp := %s |}" % (
        case["id"], cmd, world, coq_jv(cfg), obs, coq_bool(case["project"] == "broken"))


def cli_cases(rng, tier):
    cases = []
    full = closed_subset(OPT_NAMES)

    def add(cls, cfg, **kw):
        cases.append(cli_case(len(cases), cls, cfg, **kw))

    mult = 1 if tier == "quick" else 5
    pkgs = ["myroutes", "api_v2", "routes", "gen"]
    glob_sets = [
        ["./ctl/main.controller.go"], ["./ctl/*.go"], ["./**/*.go"], ["./ctl/**/*.go"],
        ["./ctl/main.controller.go", "./extra/*.go"], ["./extra/*.go", "./ctl/sub/*.go"],
        ["./ctl/m*.go"], ["./nomatch/*.go"], ["ctl/decoy.controller.go"], ["./*.go", "./**/*.go"],
    ]
    # A. engines x versions, other dimensions rotating
    k = 0
    for _ in range(mult):
        for e in ENGINES:
            for v in VERSIONS:
                c = config_with(full if k % 2 == 0 else closed_subset([x for x in OPT_NAMES if rng.random() < 0.6]))
                c[RC]["engine"], c[OC]["openapi"] = e, v
                if "packageName" in c[RC]:
                    c[RC]["packageName"] = pkgs[k % len(pkgs)]
                if "commonConfig" in c and "controllerGlobs" in c["commonConfig"]:
                    c["commonConfig"]["controllerGlobs"] = glob_sets[k % len(glob_sets)]
                add("engine-version:%s/%s" % (e, v), c, style="json5" if k % 3 == 0 else "json")
                k += 1
    # B. optional-part subsets (minimal, each part alone, all but one, random)
    subs = [frozenset(), full] + [closed_subset([n] + [x for o in OPTIONAL if o[0] == n for x in o[2]]) for n in OPT_NAMES[::3]]
    subs += [closed_subset([x for x in OPT_NAMES if x != n]) for n in OPT_NAMES[1::4]]
    subs += [closed_subset([x for x in OPT_NAMES if rng.random() < 0.5]) for _ in range(4 * mult)]
    for i, sset in enumerate(subs):
        c = config_with(sset)
        c[RC]["engine"] = ENGINES[i % 5]
        c[OC]["openapi"] = VERSIONS[i % 2]
        add("subset:%d" % len(sset), c, style="json5" if i % 2 else "json")
    # C. permission strings x fresh / existing files (umask 0 and 022)
    perm_cases = [("0600", {"./out/routes.go": 0o644}, 0), ("0600", {}, 0), ("600", {"./out/routes.go": 0o666}, 0),
                  ("0666", {"./out/routes.go": 0o600}, 0), ("0666", {}, 0o022), ("0644", {}, 0),
                  ("0755", {}, 0), ("0777", {"./out/routes.go": 0o644}, 0o022), ("0640", {}, 0o027),
                  (None, {"./out/routes.go": 0o600}, 0), (None, {}, 0o022), ("", {}, 0), ("0000", {}, 0),
                  ("0444", {"./out/routes.go": 0o644, "./out/openapi.json": 0o600}, 0)]
    if tier == "thorough":
        for p_ in ["0600", "0640", "0644", "0660", "0666", "0700", "0755", "0777", "644", "400"]:
            for pre_ in [{}, {"./out/routes.go": 0o644}, {"./out/routes.go": 0o600}, {"./out/routes.go": 0o777}]:
                perm_cases.append((p_, pre_, rng.choice([0, 0o022, 0o077])))
    for i, (perm, pre, um) in enumerate(perm_cases):
        c = config_with(full)
        c[RC]["engine"] = ENGINES[i % 5]
        if perm is None:
            del c[RC]["outputFilePerms"]
        else:
            c[RC]["outputFilePerms"] = perm
        add("perms:%s/pre=%s/umask=%03o" % (perm, ",".join("%o" % m for m in pre.values()) or "-", um), c, pre=pre, umask=um)
    # D. the single-artifact commands
    for i, (cmd_, pre) in enumerate([("spec", {}), ("routes", {}), ("spec", {"./out/openapi.json": 0o600}),
                                     ("routes", {"./out/routes.go": 0o644, "./out/openapi.json": 0o640})]):
        c = config_with(full)
        c[RC]["engine"], c[OC]["openapi"] = ENGINES[(i + 2) % 5], VERSIONS[i % 2]
        c[RC]["outputFilePerms"] = "0600"
        add("command:%s" % cmd_, c, command=cmd_, pre=pre)
    # E. glob sets with decoys (same package, nested package, other package)
    for i, gs in enumerate(glob_sets * mult):
        c = config_with(full)
        c["commonConfig"]["controllerGlobs"] = gs
        c[RC]["engine"], c[OC]["openapi"] = ENGINES[i % 5], VERSIONS[(i // 2) % 2]
        add("globs:%s" % "+".join(gs), c)
    c = config_with(closed_subset([x for x in OPT_NAMES if x != "controllerGlobs"]))
    add("globs:default", c)
    # E2. glob lists that split one directory between their expressions (fixed shapes + generated), order included
    split_sets = SPLIT_GLOB_SETS + split_glob_lists(rng, 7 * mult)
    for i, gs in enumerate(split_sets):
        c = config_with(full if i % 3 else closed_subset(["commonConfig", "controllerGlobs"]))
        c["commonConfig"]["controllerGlobs"] = gs
        c[RC]["engine"], c[OC]["openapi"] = ENGINES[(i + 3) % 5], VERSIONS[i % 2]
        add("globs-split:%s" % "+".join(gs), c, command=["spec-and-routes", "spec-and-routes", "routes", "spec"][i % 4])
        if i % 4 == 0 and len(gs) > 1:
            c2 = copy.deepcopy(c)
            c2["commonConfig"]["controllerGlobs"] = list(reversed(gs))
            add("globs-split:%s" % "+".join(reversed(gs)), c2)
    # F. output paths
    for i, (rp, sp) in enumerate([("./gen/a/b/routes.gen.go", "./docs/api/openapi.json"), ("routes_out.go", "spec.json"),
                                  ("ABS/deep/r.go", "ABS/s/openapi31.json"), ("./out//r3.go", "./out/./o.json")]):
        c = config_with(full)
        c[RC]["outputPath"], c[OC]["specGeneratorConfig"]["outputPath"] = rp, sp
        c[RC]["engine"] = ENGINES[(i + 1) % 5]
        add("paths:%s" % rp, c)
    # H. single-field corruptions on the project whose sources do not parse; outputs pre-exist
    pre_both = {"./out/routes.go": 0o644, "./out/openapi.json": 0o644}
    for j, (cls, needs, mut, values) in enumerate(CORRUPTIONS):
        vals = values if tier == "thorough" else [values[j % len(values)]]
        for v in vals:
            present = closed_subset(set(full))
            c = config_with(present)
            mut(c, v)
            add("corrupt:" + cls, c, project="broken", pre=pre_both, style="json5" if j % 4 == 0 else "json",
                command=["spec-and-routes", "spec", "routes"][j % 3] if tier == "thorough" else "spec-and-routes")
            if tier == "thorough" or j % 5 == 0:
                c2 = config_with(frozenset(needs) | {x for nn in needs for o in OPTIONAL if o[0] == nn for x in o[2]})
                mut(c2, v)
                add("corrupt:" + cls, c2, project="good", pre=pre_both if j % 2 else {})
    # H2. case variants of the legal values of the enum-valued fields
    for j, (cls, needs, mut, values) in enumerate(ENUM_CASE):
        vals = values if tier == "thorough" else [values[(j + k_) % len(values)] for k_ in range(0, len(values), max(1, len(values) // 4))][:4]
        for n_, v in enumerate(vals):
            c = config_with(full)
            c[RC]["engine"], c[OC]["openapi"] = ENGINES[(j + n_) % 5], VERSIONS[n_ % 2]
            mut(c, v)
            proj = "good" if n_ % 2 else "broken"
            add("corrupt:%s=%s" % (cls, v), c, project=proj, pre=pre_both if n_ % 4 == 0 else {},
                command=["spec-and-routes", "spec-and-routes", "spec", "routes"][(j + n_) % 4])
    add("type:root-array", [], project="broken", pre=pre_both)
    add("null-root", None, project="broken")
    # I. control: a valid configuration on the unparsable project fails in the analysis
    for e in (["gin", "chi"] if tier == "quick" else ENGINES):
        c = config_with(full)
        c[RC]["engine"] = e
        add("control:valid-config-broken-sources", c, project="broken", pre=pre_both)
    c = config_with(full)
    c["commonConfig"]["controllerGlobs"] = ["./nomatch/*.go"]
    add("control:broken-sources-not-matched", c, project="broken")
    # J. cross-field malformed schemes
    for j, (cls, mut) in enumerate(XFIELD):
        for proj, cmd_ in ([("good", "spec-and-routes")] + ([("broken", "spec-and-routes")] if j % 2 == 0 or tier == "thorough" else [])
                           + ([("good", "spec")] if j % 3 == 0 or tier == "thorough" else [])):
            c = config_with(full)
            c[OC]["openapi"] = VERSIONS[j % 2]
            mut(c)
            add(cls, c, project=proj, command=cmd_)
    return cases


def prepare_texts(cases, rng):
    for case in cases:
        cfg = case["cfg"]
        if isinstance(cfg, dict):
            # "ABS/" stands for an absolute path below the run directory
            for key in ([RC, "outputPath"], [OC, "specGeneratorConfig", "outputPath"]):
                v = getp(cfg, key)
                if isinstance(v, str) and v.startswith("ABS/"):
                    setp(cfg, key, os.path.join(W, "runs", "%05d" % case["id"], "abs", v[4:]))
        case["text"] = render(cfg, rng, case["style"] if isinstance(cfg, dict) else "json")


def run_cli(cases, cli, templates, oracle, tag="cli"):
    with concurrent.futures.ThreadPoolExecutor(max_workers=16) as ex:
        runs = list(ex.map(lambda c: run_cli_case(c, cli, templates), cases))
    gofiles = []
    for case, run in zip(cases, runs):
        rp = cfg_str(case["cfg"], [RC, "outputPath"])
        if rp:
            p = os.path.normpath(os.path.join(run["dir"], rp))
            if os.path.isfile(p) and os.path.relpath(p, run["dir"]) in run["changed"]:
                gofiles.append(p)
    goinfo = dict(zip(gofiles, implrun("gofileinfo", gofiles))) if gofiles else {}
    obs = [observe_cli(c, r, goinfo) for c, r in zip(cases, runs)]
    oracle.ensure([c["cfg"] for c in cases])
    disagree, propfail, diffs, fails, bad = [], [], {}, {}, [0, 0]
    SH = 200
    for lo in range(0, len(cases), SH):
        idx = range(lo, min(lo + SH, len(cases)))
        INTERN.reset()
        files = coq_list(["(%s, %s)" % (cb(f), coq_strs([v[1]])) for f, v in sorted(SOURCES.items())])
        ctext = "[\n " + ";\n ".join(coq_cli_case(cases[i], obs[i], templates) for i in idx) + "\n]"
        otext = oracle.coq()
        body = CASE_HEADER % dict(otable=otext, files=files, defs=INTERN.defs()) + CLI_EVAL % dict(cases=ctext)
        out = run_coq_file(PROP, "%s_%d" % (tag, lo), body)
        ENUM_BREAKERS.update(oracle.breakers(out))
        dl, fl = parse_nat_list(out, "diffs"), parse_nat_list(out, "fails")
        diffs.update(dict(zip(dl[0::2], dl[1::2])))
        fails.update(dict(zip(fl[0::2], fl[1::2])))
        disagree += dl[0::2]
        propfail += fl[0::2]
        b = parse_nat_list(out, "badcount")
        bad = [bad[0] + b[0], bad[1] + b[1]]
    return runs, obs, disagree, propfail, diffs, fails, bad


DIFF_NAMES = ["status", "fields", "started", "written", "stray"]
FAIL_NAMES = ["violates_declared", "cross_field_malformed", "refused", "untouched", "message_names_fields",
              "artifact_kinds", "artifacts_honour_config", "nothing_else_touched"]


def decode_bits(n, names):
    b = bin(n)[3:]          # leading 1 is the sentinel
    return {names[i]: b[i] == "1" for i in range(min(len(names), len(b)))}


def case_input(case):
    return {"config_text": case["text"], "config": case["cfg"], "command": case["command"], "project": case["project"],
            "pre_existing": {k: "%04o" % v for k, v in case["pre"].items()}, "umask": "%03o" % case["umask"],
            "class": case["cls"], "style": case["style"]}


def obs_summary(ob, run):
    return {"status": ob["status"], "exit": run["exit"], "fields": ob["fields"], "analysis_started": ob["started"],
            "written": [{"kind": a["kind"], "path": a["path"], "mode": "%04o" % a["mode"], "attrs": dict(a["attrs"]),
                         "schemes": {n: dict(sa) for n, sa in a["schemes"]}, "controllers": a["ctrls"]} for a in ob["written"]],
            "stray": ob["stray"], "log_tail": run["text"][-900:]}


def known_list():
    known = known_for(PROP)
    extra = os.environ.get("VERIF_KNOWN_EXTRA")
    if extra and os.path.exists(extra):
        data = json.load(open(extra))
        data = data.get("findings", data) if isinstance(data, dict) else data
        known += [f for f in data if f.get("property") == PROP]
    return known


def finding_for(known, cls, failbits):
    """A failing case is explained by a known finding when it belongs to the finding's input class."""
    for f in known:
        m = f.get("match", {})
        if m.get("kind") == "cross-field-security-scheme" and cls.startswith("xfield:") \
                and failbits.get("cross_field_malformed") and not failbits.get("violates_declared"):
            return f
        if m.get("kind") == "perms-on-existing-file" and cls.startswith(("perms:", "command:routes")) \
                and not failbits.get("artifacts_honour_config", True):
            return f
    return None


def main():
    a, seed = args_for(PROP)
    res = Result(PROP, a.tier, seed)
    rng = random.Random(seed)
    t_start = time.time()
    build_coq()
    build_harness()
    cli = build_cli()
    shutil.rmtree(W, ignore_errors=True)
    os.makedirs(os.path.join(W, "runs"))
    import atexit
    atexit.register(lambda: shutil.rmtree(W, ignore_errors=True))     # scratch projects never outlive the check
    templates = {"good": make_template("good", False), "broken": make_template("broken", True)}
    timings = {"build_s": round(time.time() - t_start, 1)}

    # ---- translator and reflection obligation
    dump = implrun("tagdump", None)
    entries = dump["entries"]
    preds = schema_preds(entries)
    out = run_coq_file(PROP, "Gen_tags", GEN_TAGS % dict(
        schema=schema_to_coq(entries),
        dpreds=coq_list(["(%s, %s, %s)" % (coq_bytes(p), coq_bytes(t), coq_bytes(x)) for p, t, x in DECLARED_PREDS])))
    if "preds_in_sync = true" not in out:
        raise RuntimeError("pygen/c20.py DECLARED_PREDS is out of sync with Config.declared_schema")
    obligation = "obligation = true" in out
    uncovered = parse_nat_list(out, "uncovered_index")
    n_actual, n_declared = parse_nat_list(out, "n_entries")
    proof_coverage(PROP, res, extra_obligations=1, extra_discharged=1 if obligation else 0)
    oracle = Oracle(preds + DECLARED_PREDS, templates["good"])
    known = known_list()
    known_hits = {}

    # ---- replay of a stored input
    if a.replay and "sequence" in json.load(open(a.replay)).get("input", {}):
        rp = json.load(open(a.replay))
        h = [(x.get("class", "replay"), x["config"]) for x in rp["input"]["sequence"]]
        r = run_seq([h], oracle, rng, "seqreplay")
        if r["propfail"] or r["differs"]:
            res.violation({"kind": "property-fails-on-implementation", "input": seq_input(h, r["texts"][0]),
                           "implementation_output": {"loads": seq_output(r["results"][0]),
                                                     "fresh_process_last": seq_output(r["fresh"][0])},
                           "failing_positions": [p_ for _, p_ in r["propfail"]]})
        elif r["disagree"]:
            res.violation({"kind": "correspondence", "obligation": "corr:ConfigLoad.load1", "input": seq_input(h, r["texts"][0]),
                           "implementation_output": {"loads": seq_output(r["results"][0])}}, no_input=True)
        res.coverage.update({"evaluations": len(h), "distinct_nontrivial": len(h), "rule": "replay of one stored history of loads",
                             "samples": [seq_input(h, r["texts"][0])], "input_distribution": {"replay": 1}})
        shutil.rmtree(W, ignore_errors=True)
        sys.exit(res.finish())
    if a.replay:
        rp = json.load(open(a.replay))
        # absolute output paths of the stored case point into its (removed) run directory
        inp = json.loads(re.sub(r"/runs/\d{5}/", "/runs/00000/", json.dumps(rp["input"])))
        case = cli_case(0, inp.get("class", "replay"), inp["config"], command=inp["command"], project=inp["project"],
                        pre={k: int(v, 8) for k, v in inp.get("pre_existing", {}).items()},
                        umask=int(inp.get("umask", "0"), 8), style=inp.get("style", "json"))
        case["text"] = inp.get("config_text") or render(case["cfg"], rng, "json")
        runs, obs, disagree, propfail, diffs, fails, _ = run_cli([case], cli, templates, oracle, "replay")
        if propfail:
            fb = decode_bits(fails[0], FAIL_NAMES)
            f_ = finding_for(known, case["cls"], fb)
            if f_:
                res.known(f_, "%s" % case["cls"])
            else:
                res.violation({"kind": "property-fails-on-implementation", "input": case_input(case),
                               "implementation_output": obs_summary(obs[0], runs[0]), "clauses": fb})
        elif disagree:
            res.violation({"kind": "correspondence", "obligation": "corr:Config.cmd", "input": case_input(case),
                           "implementation_output": obs_summary(obs[0], runs[0]),
                           "differs_in": decode_bits(diffs[0], DIFF_NAMES)}, no_input=True)
        res.coverage.update({"evaluations": 1, "distinct_nontrivial": 1, "rule": "replay of one stored CLI case",
                             "samples": [case_input(case)], "input_distribution": {"replay": 1}})
        shutil.rmtree(W, ignore_errors=True)
        sys.exit(res.finish())

    # ---- library layer
    t0 = time.time()
    lcases = lib_cases(rng, a.tier)
    ltexts, lverdicts, ldis, lpf, lbad = run_lib(lcases, oracle, rng)
    timings["library_layer_s"] = round(time.time() - t0, 1)
    lib_viol = []
    for i in lpf:
        cls = lcases[i][0]
        f_ = finding_for(known, cls, {"cross_field_malformed": True, "violates_declared": False}) if cls.startswith("xfield:") else None
        if f_:
            known_hits[f_["id"]] = known_hits.get(f_["id"], 0) + 1
            res.known(f_, "cmd.LoadGleeceConfig accepts a security scheme that is malformed across fields")
        else:
            lib_viol.append(i)

    # ---- history layer: several loads in one process
    t0 = time.time()
    shists = seq_cases(random.Random(seed + 20), a.tier)
    sq = run_seq(shists, oracle, rng)
    timings["history_layer_s"] = round(time.time() - t0, 1)
    seq_bad = sorted({hi for hi, _ in sq["propfail"]} | set(sq["differs"]))
    for hi in seq_bad[:2]:
        pos = [p_ for h_, p_ in sq["propfail"] if h_ == hi]
        h, r = shists[hi], None
        if pos:
            h, r = shrink_seq(shists[hi], pos[0], oracle, rng)
            if not r["propfail"]:
                h, r = shists[hi], None
        if r is None:
            r = {"texts": [sq["texts"][hi]], "results": [sq["results"][hi]], "fresh": [sq["fresh"][hi]],
                 "propfail": [(0, p_) for p_ in pos], "differs": [0] if hi in sq["differs"] else []}
        res.violation({"kind": "property-fails-on-implementation", "input": seq_input(h, r["texts"][0]),
                       "implementation_output": {"loads": seq_output(r["results"][0]),
                                                 "fresh_process_last": seq_output(r["fresh"][0]) if r["fresh"] else None},
                       "failing_positions": [p_ for _, p_ in r["propfail"]],
                       "last_differs_from_fresh_process": bool(r["differs"]),
                       "claim": "prop_C20_loads: the value cmd.LoadGleeceConfig returns for an accepted document says what THAT document "
                                "says (zero value = absent, defaults: all Go files / package routes) and nothing else, right after the "
                                "call and after every later load of the process; it is what a fresh process returns"})

    # ---- CLI layer
    t0 = time.time()
    ccases = cli_cases(rng, a.tier)
    prepare_texts(ccases, rng)
    runs, obs, cdis, cpf, diffs, fails, cbad = run_cli(ccases, cli, templates, oracle)
    timings["cli_layer_s"] = round(time.time() - t0, 1)
    timings["cli_run_mean_s"] = round(sum(r["wall"] for r in runs) / max(1, len(runs)), 2)

    # sanity of the observation method: the unparsable project must show the parse error
    ctrl = [i for i, c in enumerate(ccases) if c["cls"] == "control:valid-config-broken-sources"]
    method_ok = bool(ctrl) and all(obs[i]["parse_seen"] for i in ctrl)

    def eval_one(case):
        r_, o_, d_, p_, df_, fl_, _ = run_cli([case], cli, templates, oracle, "shrink")
        return r_[0], o_[0], bool(d_), bool(p_), df_, fl_

    def shrink_cli(case, bits0=None):
        """Drop optional parts while the property still fails FOR THE SAME REASON (a step that turns a
        declared-constraint failure into a cross-field one, or the reverse, shows another defect)."""
        cur = copy.deepcopy(case)
        tries = 0
        same = lambda fl_: bits0 is None or not fl_ or all(
            decode_bits(list(fl_.values())[0], FAIL_NAMES).get(k) == bits0.get(k) for k in ("violates_declared", "cross_field_malformed"))
        for n, paths, _ in OPTIONAL:
            if tries >= 14 or not isinstance(cur["cfg"], dict):
                break
            cand = copy.deepcopy(cur)
            for p in paths:
                delp(cand["cfg"], p)
            if cand["cfg"] == cur["cfg"]:
                continue
            cand["id"], cand["dirname"] = 0, "shrink%02d" % tries
            cand["text"] = render(cand["cfg"], rng, "json")
            cand["style"] = "json"
            tries += 1
            ev_ = eval_one(cand)
            if ev_[3] and same(ev_[5]):
                cur = cand
        cur["id"], cur["dirname"] = 0, "shrunk"
        cur["text"] = render(cur["cfg"], rng, "json") if isinstance(cur["cfg"], dict) else cur["text"]
        return cur

    if os.environ.get("VERIF_C20_DEBUG"):
        log("timings", timings, "obligation", obligation, "lib", len(lcases), "ldis", ldis[:10], "lpf", lpf[:10])
        for i in ldis[:8]:
            log("LIB-DISAGREE", lcases[i][0], lverdicts[i], ltexts[i][:300].replace("\n", " "))
        for i in lpf[:8]:
            log("LIB-PROPFAIL", lcases[i][0], lverdicts[i])
        for i in cdis:
            log("CLI-DISAGREE", i, ccases[i]["cls"], decode_bits(diffs[i], DIFF_NAMES), json.dumps(obs_summary(obs[i], runs[i]))[:1500])
        for i in cpf:
            log("CLI-PROPFAIL", i, ccases[i]["cls"], decode_bits(fails[i], FAIL_NAMES))
    reported = 0
    # one case of every class first, so that the reported replays show distinct defects
    firsts, rest, seen_cls = [], [], set()
    for i in cpf:
        k = ccases[i]["cls"].split(":")[0]
        (rest if k in seen_cls else firsts).append(i)
        seen_cls.add(k)
    for i in firsts + rest:
        fb = decode_bits(fails[i], FAIL_NAMES)
        f_ = finding_for(known, ccases[i]["cls"], fb)
        if f_:
            known_hits[f_["id"]] = known_hits.get(f_["id"], 0) + 1
            res.known(f_, "the CLI refuses it only after source analysis (spec-and-routes has written the routes file by then)"
                      if ccases[i]["cls"].startswith("xfield:") else ccases[i]["cls"])
            continue
        if reported < 3:
            small = shrink_cli(ccases[i], fb)
            r_, o_, _, still, _, fl_ = eval_one(small)
            if not still:
                small, r_, o_, fl_ = ccases[i], runs[i], obs[i], {ccases[i]["id"]: fails[i]}
            res.violation({"kind": "property-fails-on-implementation", "input": case_input(small),
                           "implementation_output": obs_summary(o_, r_),
                           "clauses": decode_bits(list(fl_.values())[0], FAIL_NAMES),
                           "claim": "prop_C20: a configuration violating a declared constraint is refused before analysis, "
                                    "names the field and leaves nothing written; an accepted one is honoured literally "
                                    "(paths, permissions, package, engine, version, info/servers/securitySchemes, controllers of matched files)"})
        else:
            res.violation({"kind": "property-fails-on-implementation", "input": case_input(ccases[i]),
                           "implementation_output": obs_summary(obs[i], runs[i]), "clauses": fb})
        reported += 1
    for i in lib_viol[:3]:
        res.violation({"kind": "property-fails-on-implementation", "layer": "cmd.LoadGleeceConfig",
                       "input": {"config_text": ltexts[i], "config": lcases[i][1], "class": lcases[i][0],
                                 "command": "spec-and-routes", "project": "broken", "pre_existing": {}, "umask": "000"},
                       "implementation_output": {"verdict": lverdicts[i]},
                       "claim": "prop_C20_load: a document violating the declared schema is refused and every violated field is named"})

    unexplained_dis = [i for i in cdis if i not in cpf]
    if not res.violations and sq["disagree"]:
        hi, p_ = sq["disagree"][0]
        res.violation({"kind": "correspondence", "obligation": "corr:ConfigLoad.load1@history %d load %d" % (hi, p_),
                       "input": seq_input(shists[hi], sq["texts"][hi]),
                       "implementation_output": {"loads": seq_output(sq["results"][hi])}}, no_input=True)
    if not res.violations and (not obligation or unexplained_dis or ldis or not method_ok or ENUM_BREAKERS):
        # the property is no longer shown: widen the search before saying so
        found = False
        if a.tier == "quick":
            extra = lib_cases(random.Random(seed + 1), "thorough")
            _, ev, _, epf, _ = run_lib(extra, oracle, rng, "widen")
            epf = [i for i in epf if not extra[i][0].startswith("xfield:")]
            if epf:
                i = epf[0]
                found = True
                res.violation({"kind": "property-fails-on-implementation", "layer": "cmd.LoadGleeceConfig",
                               "input": {"config": extra[i][1], "class": extra[i][0], "command": "spec-and-routes",
                                         "project": "broken", "pre_existing": {}, "umask": "000"},
                               "implementation_output": {"verdict": ev[i]}})
        if not found:
            if not obligation:
                res.violation({"kind": "proof-obligation", "obligation": "Gen_tags.schema_at_least",
                               "detail": "declared_schema entries not covered by the translated tags (index in declared_schema): %s" % uncovered,
                               "note": "no configuration violating the declared constraint was accepted in %d library and %d CLI cases"
                                       % (len(lcases), len(ccases))}, no_input=True)
            elif ENUM_BREAKERS:
                res.violation({"kind": "proof-obligation", "obligation": "Config.enum_sound_on (hypothesis enum_sound of the C20 theorems)",
                               "detail": "the real validator accepts, for an enum-valued security scheme field, strings outside the "
                                         "exactly spelled enumeration: %s" % sorted(ENUM_BREAKERS)}, no_input=True)
            elif unexplained_dis:
                i = unexplained_dis[0]
                res.violation({"kind": "correspondence", "obligation": "corr:Config.cmd@case %d" % i,
                               "input": case_input(ccases[i]), "implementation_output": obs_summary(obs[i], runs[i]),
                               "differs_in": decode_bits(diffs[i], DIFF_NAMES)}, no_input=True)
            elif ldis:
                i = ldis[0]
                res.violation({"kind": "correspondence", "obligation": "corr:Config.validate@case %d" % i,
                               "input": {"config_text": ltexts[i], "class": lcases[i][0]},
                               "implementation_output": {"verdict": lverdicts[i]}}, no_input=True)
            else:
                res.violation({"kind": "correspondence", "obligation": "corr:observation-method",
                               "detail": "a valid configuration on the unparsable project did not show the parse error"},
                              no_input=True)

    # ---- evidence
    def count(xs):
        d = {}
        for x in xs:
            d[x] = d.get(x, 0) + 1
        return d
    status_count = count(o["status"] for o in obs)
    cls_count = count(c["cls"].split(":")[0] for c in ccases)
    lib_cls = count(c[0].split(":")[0] for c in lcases)
    distinct = len({t for t in ltexts}) + len({json.dumps(case_input(c), sort_keys=True, default=str) for c in ccases})
    res.coverage.update({
        "evaluations": len(lcases) + len(ccases) + sq["loads"],
        "distinct_nontrivial": distinct,
        "rule": "library layer: cmd.LoadGleeceConfig on every containment-closed subset of the 14 optional parts (thorough: all; "
                "quick: each alone, all-but-one, 250 random), every single-field corruption class x values x {maximal, minimal} "
                "base, random double corruptions, cross-field malformed schemes; history layer: sequences of 2-4 configurations loaded in "
                "ONE process each (per optional part: [all parts explicit, that part omitted] and [explicit, explicit with other values "
                "and list lengths, omitted]; glob lists of every length before a minimal / empty-list / shorter-list document; a refused "
                "document in between; random orders, repeated documents), every returned value judged against ITS document right after "
                "the call and after the rest of the history (ConfigLoad.prop_C20_loads), the last one also against a fresh process; CLI layer: the real binary in scratch projects "
                "(5 engines x 2 versions, permission strings x fresh/existing output x umask, the three commands, glob sets with "
                "decoy controllers, glob LISTS whose expressions split one directory between them (fixed shapes + generated, both "
                "orders; the per-expression matches are the oracle, the union over the list is the model's), output paths, "
                "corruptions on a project whose sources do not parse, every case variant of every legal value of the enum-valued "
                "fields (engine, scheme type/in/scheme) in the library layer and a rotation of them in the CLI layer). distinct = distinct "
                "configuration texts (library) + distinct (text, command, project, pre-existing files, umask) (CLI)",
        "samples": [case_input(ccases[i]) | {"observed": {k: v for k, v in obs_summary(obs[i], runs[i]).items() if k != "log_tail"}}
                    for i in (0, len(ccases) // 2, len(ccases) - 1)],
        "input_distribution": {
            "library_cases": len(lcases), "library_classes": lib_cls,
            "library_verdicts": count(v[0] for v in lverdicts),
            "library_declared_violations": lbad[0], "library_cross_field_malformed": lbad[1],
            "histories": len(shists), "history_loads": sq["loads"], "history_loads_accepted": sq["valid"],
            "history_lengths": count(len(h) for h in shists),
            "history_last_classes": count(h[-1][0].split(":")[1] for h in shists),
            "cli_cases": len(ccases), "cli_classes": cls_count, "cli_status": status_count,
            "cli_declared_violations": cbad[0], "cli_cross_field_malformed": cbad[1],
            "cli_projects": count(c["project"] for c in ccases), "cli_commands": count(c["command"] for c in ccases),
            "json5_styled": sum(1 for c in ccases if c["style"] == "json5"),
            "cli_glob_lists_splitting_a_directory": sum(1 for c in ccases if splits_a_directory(templates["good"], effective_globs(c["cfg"]))),
            "enum_case_variants": {cls: len(vals) for cls, _, _, vals in ENUM_CASE},
        },
        "traces_validated_against_impl": len(lcases) - len(ldis) + len(ccases) - len(cdis) + sq["loads"] - len(sq["disagree"]),
        "disagreements": {"library": len(ldis), "cli": len(cdis), "history": len(sq["disagree"])},
        "property_oracle_failures": {"library": len(lpf), "cli": len(cpf), "history": len(sq["propfail"]),
                                     "history_last_differs_from_fresh_process": len(sq["differs"])},
        "known_finding_hits": known_hits,
        "reflection_obligation": {"name": "schema_at_least declared_schema Gen_tags.config_schema", "holds": obligation,
                                  "uncovered_declared_entries": uncovered, "translated_entries": n_actual,
                                  "declared_entries": n_declared, "oracle_rows": len(oracle.ans)},
        "enum_claim": {"name": "Config.enum_sound_on orc <every string asked>", "holds": not ENUM_BREAKERS,
                       "breaking_strings": sorted(ENUM_BREAKERS)},
        "observation_method_validated": method_ok,
        "timings": timings,
    })
    res.assumptions += [
        "go-playground/validator predicates (url, email, filepath) and gleece's custom validators (regex, starts_with_letter, "
        "security_schema_type/in) are oracles: theorems quantify over them, the check asks the real validator per string",
        "JSON keys are matched exactly and are unique (encoding/json also matches case-insensitively; last duplicate wins)",
        "min on strings counts bytes (ASCII generator alphabet); rules after a failing non-dive rule on a dived slice are not modelled",
        "source analysis is observable from outside only through its failure: refusals are run on a project whose sources do not "
        "parse (the parse error would show), plus file-system snapshots before/after every run",
        "doublestar matching of ONE glob expression against a file is an oracle (Python glob, recursive) for the generated "
        "shapes; how the expressions of a list combine (union, order-free) is modelled and proved (C20_selected_ctrls)",
        "the custom enum validators (security_schema_type/in) keep the enumeration exactly (hypothesis enum_sound): evaluated on "
        "every string the check asks about, which includes all case variants of the legal values",
        "kin-openapi / libopenapi document validation is an oracle (w_spec_ok read from the run's log)",
        "routes-file permissions are modelled after patches/fix-F14.diff (chmod when outputFilePerms is configured)",
    ]
    shutil.rmtree(W, ignore_errors=True)
    sys.exit(res.finish())


if __name__ == "__main__":
    main()
