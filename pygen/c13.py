#!/usr/bin/env python3
"""C13 - output is a deterministic function of project and configuration."""
import hashlib
import copy
import json
import os
import random
import re
import sys

sys.path.insert(0, os.path.dirname(os.path.abspath(__file__)))
from common import *  # noqa
import project as P

PROP = "C13"
ENGINES = ["gin", "echo", "mux", "chi", "fiber"]


def md5(path):
    try:
        return hashlib.md5(open(path, "rb").read()).hexdigest()
    except OSError:
        return None


def observe_routes(text):
    """(controller, [methods...]) in emission order, and Param/Response import aliases."""
    order = []
    for m in re.finditer(r"controller := (\w+)\.(\w+)\{\}|opError := controller\.(\w+)\(", text):
        if m.group(2):
            cur = m.group(2)
            if not order or order[-1][0] != cur:
                order.append([cur, []])
        elif order:
            order[-1][1].append(m.group(3))
    aliases = re.findall(r"^\s*(Param|Response)(\d+)(\w+) \"([^\"]+)\"", text, re.M)
    return order, sorted(set((a == "Param", int(n), name) for a, n, name, _ in aliases))


def root_type(t):
    while t.startswith("*") or t.startswith("[]"):
        t = t[1:] if t.startswith("*") else t[2:]
    return t


def model_input(p, root):
    """files / ctrls of Model/Determinism.v for an abstract project rendered under root."""
    files = {}
    for c in p["controllers"]:
        for m in c["methods"]:
            path = os.path.join(root, c["pkg"], "%s_%d.go" % (c["name"].lower(), m["file"]))
            uses = []
            if m["ret"]:
                rt = root_type(m["ret"])
                # Response<serial><Type> aliases are only referenced with validateResponsePayload;
                # imports.Process drops unused ones, so they are not observable here
                uses.append((False, rt, rt, False))
            uses.append((False, "error", "error", False))
            for prm in m["params"]:
                rt = root_type(prm["type"])
                if prm["ctx"]:
                    uses.append((True, prm["name"], "Context", False))   # alias never referenced, dropped
                else:
                    uses.append((True, prm["name"], rt, rt == "Item" or rt in P.ENUMS))
            files.setdefault(path, []).append((c["name"], m["name"], uses))
    return files, [c["name"] for c in p["controllers"]]


def coq_files(files, ctrls, rng):
    items = list(files.items())
    rng.shuffle(items)
    cs = list(ctrls)
    rng.shuffle(cs)
    fl = coq_list(["mkFile %s %s" % (coq_bytes(path), coq_list(
        ["mkMeth %s %s %s" % (coq_bytes(c), coq_bytes(m), coq_list(
            ["mkUse %s %s %s %s" % (coq_bool(a), coq_bytes(n), coq_bytes(k), coq_bool(i)) for a, n, k, i in uses]))
         for c, m, uses in meths])) for path, meths in items])
    return fl, coq_list([coq_bytes(c) for c in cs])


def main():
    a, seed = args_for(PROP)
    res = Result(PROP, a.tier, seed)
    rng = random.Random(seed)
    build_coq()
    build_cli()
    proof_coverage(PROP, res)
    nproj = 10 if a.tier == "quick" else 60
    K = 4 if a.tier == "quick" else 10
    if a.replay:
        rin = json.load(open(a.replay))["input"]
        projects = [rin["sequence"][-1]["project"]] if "sequence" in rin else [rin]
    else:
        projects = []
        while len(projects) < nproj:
            p = P.gen_project(rng, {"multifile": True, "multipkg": True, "security": True, "params": True,
                                    "enums": True, "root_routes": True})
            p["flags"] = {"generateEnumValidator": rng.random() < 0.6, "validateTopLevelOnlyEnum": rng.random() < 0.3}
            for c in p["controllers"]:
                nf = rng.choice([1, 2, 3])
                for m in c["methods"]:
                    m["file"] = rng.randrange(nf)
                    if not m["route"].startswith("/") and not c["route"].startswith("/"):
                        m["route"] = "/" + m["route"]
            if len(set(c["name"] for c in p["controllers"])) != len(p["controllers"]):
                continue
            projects.append(p)
    if not a.replay:
        # deliberate: every enum type of the universe used by one project, both enum flags on (anything that orders
        # enums, their values or their validators by something else than a total key shows within a few runs)
        for both in (True, False):
            base = copy.deepcopy(projects[0 if both else 1])
            c0 = base["controllers"][0]
            c0["methods"].append({
                "name": "EnumAll", "verb": "GET", "route": "/enumall", "hidden": False, "deprecated": False, "security": [],
                "ret": "string", "errtype": "error", "response": None, "errors": [], "descr": "", "file": 0,
                "params": [{"name": "e%d" % i, "ctx": False, "loc": "query" if i % 2 == 0 else "header", "alias": None, "type": t,
                            "pointer": False, "validator": None, "slice": False} for i, t in enumerate(P.ENUMS)]})
            base["flags"] = {"generateEnumValidator": True, "validateTopLevelOnlyEnum": both}
            base["split_enums"] = True       # the constants of every enum are spread over three files of the package
            projects.append(base)
        # deliberate: MANY controllers (more than a handful) using several package-qualified types
        src = max(projects[:nproj], key=lambda q: len(q["controllers"]))
        big = copy.deepcopy(src)
        big["controllers"] = []
        j = 0
        while len(big["controllers"]) < 10:
            for c in src["controllers"]:
                c2 = copy.deepcopy(c)
                c2["name"] = "%sX%d" % (c["name"], j)
                c2["route"] = "/x%d" % j + (c["route"] if c["route"].startswith("/") or not c["route"] else "/" + c["route"])
                for m in c2["methods"]:
                    m["name"] = "%sX%d" % (m["name"], j)
                big["controllers"].append(c2)
            j += 1
        big["flags"] = {"generateEnumValidator": False, "validateTopLevelOnlyEnum": False}
        projects.append(big)
    if not a.replay:
        # deliberate: one type name declared in two packages (a collision in components.schemas, finding F16 of C07):
        # whatever is emitted for it must be the same on every run
        for base in projects:
            pk = set(c["pkg"] for c in base["controllers"] if c["methods"])
            if len(pk) >= 2:
                same = copy.deepcopy(base)
                same["local_same"] = True
                for c in same["controllers"]:
                    for m in c["methods"][:1]:
                        m["ret"] = "LocalSameDto"
                projects.append(same)
                break
    moddir = os.path.join(WORK, PROP, "mod")
    shutil.rmtree(moddir, ignore_errors=True)
    P.make_module(moddir)
    jobs, idx = [], []
    for k, p in enumerate(projects):
        root = os.path.join(moddir, "p%d" % k)
        P.render_project(p, root, "verifproj/p%d" % k)
        # K independent copies of the configuration so that runs can proceed in parallel
        # the deliberate enum projects are repeated more often: an order that follows token positions across files flips
        # only in a fraction of the runs
        for r in range(K if not p.get("split_enums") else max(K, 12)):
            name = P.render_config(p, root, "verifproj/p%d" % k, openapi="3.0.0")
            conf = json.load(open(os.path.join(root, name)))
            conf["routesConfig"]["outputPath"] = "./dist/run%d/routes.go" % r
            conf["experimentalConfig"] = dict(p.get("flags", {}))
            conf["openapiGeneratorConfig"]["specGeneratorConfig"]["outputPath"] = "./dist/run%d/spec.json" % r
            cn = "gleece-run%d.json" % r
            json.dump(conf, open(os.path.join(root, cn), "w"))
            jobs.append({"dir": root, "args": ["generate", "spec-and-routes", "-c", cn]})
            idx.append((k, "run", r))
        for e in ENGINES:
            for v in ("3.0.0", "3.1.0"):
                name = P.render_config(p, root, "verifproj/p%d" % k, openapi=v, engine=e)
                conf = json.load(open(os.path.join(root, name)))
                conf["openapiGeneratorConfig"]["specGeneratorConfig"]["outputPath"] = "./dist/eng-%s-%s/spec.json" % (e, v)
                conf["routesConfig"]["outputPath"] = "./dist/eng-%s-%s/routes.go" % (e, v)
                conf["experimentalConfig"] = dict(p.get("flags", {}))
                cn = "gleece-eng-%s-%s.json" % (e, v)
                json.dump(conf, open(os.path.join(root, cn), "w"))
                # the spec must not depend on the engine nor on which command produced it
                jobs.append({"dir": root, "args": ["generate", "spec-and-routes" if e != "gin" else "spec", "-c", cn]})
                idx.append((k, "eng", (e, v)))
    results = P.run_cli_many(jobs)
    per = [dict(run=[], eng={}, exits=[]) for _ in projects]
    for (k, kind, x), r in zip(idx, results):
        root = os.path.join(moddir, "p%d" % k)
        per[k]["exits"].append(r["exit"])
        if kind == "run":
            per[k]["run"].append((md5(os.path.join(root, "dist/run%d/routes.go" % x)),
                                  md5(os.path.join(root, "dist/run%d/spec.json" % x)), r["exit"]))
        else:
            per[k]["eng"][x] = (md5(os.path.join(root, "dist/eng-%s-%s/spec.json" % x)), r["exit"])

    cases = []
    nondet = []
    for k, p in enumerate(projects):
        root = os.path.join(moddir, "p%d" % k)
        rh = [str(h[0]) for h in per[k]["run"]]
        sh = [str(h[1]) for h in per[k]["run"]]
        e30 = [str(per[k]["eng"][(e, "3.0.0")][0]) for e in ENGINES]
        e31 = [str(per[k]["eng"][(e, "3.1.0")][0]) for e in ENGINES]
        exits = set(per[k]["exits"])
        text = ""
        try:
            text = open(os.path.join(root, "dist/run0/routes.go")).read()
        except OSError:
            pass
        order, aliases = observe_routes(text)
        files, ctrls = model_input(p, root)
        cases.append(dict(k=k, routes=rh, spec=sh, e30=e30, e31=e31, order=order, aliases=aliases,
                          files=files, ctrls=ctrls, exits=sorted(exits)))
    # one coqc: property oracle on the observed hashes, correspondence of the emission order
    body = ["From Gleece Require Import Base.Bytes Base.Sorting Model.Determinism.",
            "From Coq Require Import String.",
            "Definition obs_alias_eqb := alias_eqb.",
            "Definition sort_aliases (l : list (bool * N * str)) := l.",
            "Definition cases : list (nat * (list str * list str * list str * list str) * "
            "(list srcfile * list str) * (list (str * list str) * list (bool * N * str))) := ["]
    rows = []
    for c in cases:
        fl, cl = coq_files(c["files"], c["ctrls"], rng)
        order = coq_list(["(%s, %s)" % (coq_bytes(cn), coq_list([coq_bytes(m) for m in ms])) for cn, ms in c["order"]])
        al = coq_list(["(%s, %d%%N, %s)" % (coq_bool(isp), n, coq_bytes(nm)) for isp, n, nm in c["aliases"]])
        hs = lambda l: coq_list([coq_bytes(x) for x in l])
        rows.append("(%d, (%s, %s, %s, %s),\n  (%s,\n   %s),\n  (%s, %s))" % (
            c["k"], hs(c["routes"]), hs(c["spec"]), hs(c["e30"]), hs(c["e31"]), fl, cl, order, al))
    body.append(";\n".join(rows) + "].")
    body.append("""
Definition holds (c : nat * (list str * list str * list str * list str) * (list srcfile * list str) *
                      (list (str * list str) * list (bool * N * str))) : bool :=
  let '(_, (r, sp, e30, e31), _, _) := c in
  prop_C13 r && prop_C13 sp && prop_C13 e30 && prop_C13 e31.
Definition agrees (c : nat * (list str * list str * list str * list str) * (list srcfile * list str) *
                       (list (str * list str) * list (bool * N * str))) : bool :=
  let '(_, _, (files, ctrls), (order, al)) := c in
  let m := routes_file_order files ctrls in
  order_eqb (filter (fun x => negb (is_nil (snd x))) (fst m)) order &&
  mset_eqb alias_eqb (dedup alias_eqb (snd m)) al.
Definition cid (c : nat * (list str * list str * list str * list str) * (list srcfile * list str) *
                    (list (str * list str) * list (bool * N * str))) : nat := fst (fst (fst c)).
Definition disagree := Eval vm_compute in map cid (filter (fun c => negb (agrees c)) cases).
Definition propfail := Eval vm_compute in map cid (filter (fun c => negb (holds c)) cases).
Print disagree.
Print propfail.
""")
    out = run_coq_file(PROP, "cases", "\n".join(body))
    disagree = parse_nat_list(out, "disagree")
    # the deliberate same-name project uses a type the emission-order model has no entry for (its import serials are
    # not predicted); it takes part in the byte-equality oracle only
    disagree = [k for k in disagree if not projects[k].get("local_same")]
    propfail = parse_nat_list(out, "propfail")
    for k in propfail[:2]:
        c = cases[k]
        res.violation({"kind": "property-fails-on-implementation", "input": projects[k],
                       "routes_file_hashes_across_runs": c["routes"], "spec_hashes_across_runs": c["spec"],
                       "spec_hashes_across_engines_3.0": c["e30"], "spec_hashes_across_engines_3.1": c["e31"],
                       "claim": "byte-identical artifacts across %d fresh runs and across engines" % K})
    rejected = [c["k"] for c in cases if c["exits"] != [0]]
    if disagree and not propfail:
        k = disagree[0]
        c = cases[k]
        res.violation({"kind": "correspondence", "obligation": "corr:Determinism.routes_file_order",
                       "input": projects[k], "observed_order": c["order"], "observed_aliases": c["aliases"],
                       "cli_exits": c["exits"],
                       "note": "emission order / import serials differ from the model; all artifacts were "
                               "byte-identical across runs"}, no_input=True)
    # ---- sequences of generations in ONE process: every artifact must be the bytes a fresh process writes
    import seqleg
    import hashlib
    seqstats = {"sequences": 0, "steps": 0, "byte_differences": 0}
    if not a.replay or "sequence" in json.load(open(a.replay))["input"]:
        if a.replay:
            rp = json.load(open(a.replay))
            seqs = [(rp.get("engine", "gin"), [(x["edit"], x["project"], x.get("extra")) for x in rp["input"]["sequence"]])]
        else:
            # the first base is the deliberate all-enums project (package-qualified parameter types: import serials and
            # aliases are in play), then random ones
            delib = [p for p in projects if p.get("split_enums")][:1]
            bases = (delib + [p for p in projects if p["controllers"][0]["methods"] and not p.get("split_enums")])[:(1 if a.tier == "quick" else 8)]
            seqs = [(ENGINES[i % len(ENGINES)], seqleg.edits(rng, b)) for i, b in enumerate(bases)]
        import concurrent.futures
        with concurrent.futures.ThreadPoolExecutor(max_workers=4) as ex:
            ran = list(ex.map(lambda x: seqleg.run_sequence(PROP, "q%d" % x[0], x[1][1], engine=x[1][0], over=True), enumerate(seqs)))
        hrows, hmeta = [], []
        for (e, seq), steps in zip(seqs, ran):
            seqstats["sequences"] += 1
            seqstats["steps"] += len(steps)
            for si, st in enumerate(steps):
                for art in ("spec", "routes"):
                    # a refused edit writes nothing: the file of the previous edit may rightly still be there
                    ws = ("fresh", "inproc", "fresh_over") if st["fresh"]["exit"] == 0 else ("fresh", "inproc")
                    hs = [hashlib.md5(st[w][art]).hexdigest() if st[w][art] is not None else "absent" for w in ws]
                    hrows.append("(%d, %s)" % (len(hmeta), coq_list([coq_bytes(x) for x in hs])))
                    hmeta.append((e, steps, si, art, hs))
        sbody = ("From Gleece Require Import Base.Bytes Model.Determinism.\nFrom Coq Require Import String.\n"
                 "Definition cases : list (nat * list str) := [\n" + ";\n".join(hrows) + "].\n"
                 "Definition seqfail := Eval vm_compute in map fst (filter (fun c => negb (prop_C13 (snd c))) cases).\nPrint seqfail.\n")
        seqfail = parse_nat_list(run_coq_file(PROP, "sequences", sbody), "seqfail") if hrows else []
        seqstats["byte_differences"] = len(seqfail)
        for i in seqfail[:2]:
            e, steps, si, art, hs = hmeta[i]
            import difflib
            fa = (steps[si]["fresh"][art] or b"").decode("utf-8", "replace").splitlines()
            other = "inproc" if hs[0] != hs[1] else "fresh_over"
            ia = (steps[si][other][art] or b"").decode("utf-8", "replace").splitlines()
            res.violation({"kind": "property-fails-on-implementation", "leg": "sequence of generations in one process",
                           "engine": e, "input": {"sequence": seqleg.describe_sequence(steps, si)}, "failing_step": si,
                           "edit": steps[si]["label"], "artifact": art, "hashes_fresh__same_process__fresh_over_previous_output": hs,
                           "differs": other,
                           "diff": list(difflib.unified_diff(fa, ia, "fresh-process", other, lineterm="", n=0))[:30],
                           "claim": "the artifact is a function of the sources and the configuration on disk, regardless of "
                                    "process and of what an earlier run left at the output path: a generation that follows "
                                    "others in one process, or that overwrites an earlier output file, writes the bytes a fresh "
                                    "process writes into an empty directory"})
    res.coverage["generation_sequences"] = seqstats
    multi = sum(1 for p in projects if any(len(set(m["file"] for m in c["methods"])) > 1 for c in p["controllers"]))
    res.coverage.update({
        "evaluations": len(jobs), "distinct_nontrivial": multi,
        "rule": "seeded accepted projects with 1-4 controllers in 1-2 packages whose methods are spread over 1-3 "
                "files; each run %d times in fresh processes (routes + spec bytes compared) and once per engine and "
                "OpenAPI version (spec bytes compared across engines); non-trivial = some controller's methods "
                "live in more than one file" % K,
        "samples": [{"project": projects[0], "observed": {k2: cases[0][k2] for k2 in ("routes", "spec", "e30", "order", "aliases")}}],
        "traces_validated_against_impl": len(cases) - len(disagree),
        "disagreements": len(disagree), "property_oracle_failures": len(propfail),
        "input_distribution": {"projects": len(projects), "cli_runs": len(jobs), "repeats": K,
                               "multi_file_controller_projects": multi, "rejected_projects": rejected},
    })
    res.assumptions += ["Go's map iteration and goroutine scheduling supply the schedules: the check observes "
                        "%d fresh processes per project, it does not enumerate them" % K]
    shutil.rmtree(os.path.join(WORK, PROP), ignore_errors=True)
    sys.exit(res.finish())


if __name__ == "__main__":
    import shutil
    main()
