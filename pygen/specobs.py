"""Projection of an emitted OpenAPI document (3.0 or 3.1 JSON) onto the abstract operation
list of coq/Model/Spec.v, printed as a Coq term."""
from common import coq_bytes, coq_list, coq_bool, coq_option

VERB_KEYS = ["get", "post", "put", "delete", "patch", "head", "options", "trace"]


def schema_term(sch):
    if sch is None:
        return "SAnyObj"
    if "$ref" in sch:
        return "(SRef %s)" % coq_bytes(sch["$ref"].split("/")[-1])
    t = sch.get("type")
    if isinstance(t, list):
        t = [x for x in t if x != "null"]
        t = t[0] if len(t) == 1 else "|".join(t)
    if t == "array":
        return "(SArr %s)" % schema_term(sch.get("items"))
    if t == "object":
        ap = sch.get("additionalProperties")
        if isinstance(ap, dict) and ap:
            return "(SMap %s)" % schema_term(ap)
        return "SAnyObj"
    return "(SType %s %s)" % (coq_bytes(t or "?"), coq_bytes(sch.get("format", "")))


def op_obs(path, verb, op):
    """Plain-data observation of one operation."""
    secu = []
    for req in op.get("security") or []:
        keys = sorted(req.keys())
        if len(keys) == 1:
            secu.append((keys[0], list(req[keys[0]] or [])))
        else:
            secu.append(("<%d schemes>" % len(keys), []))
    params = []
    for pr in op.get("parameters") or []:
        params.append({"name": pr.get("name", ""), "in": pr.get("in", ""), "required": bool(pr.get("required", False)),
                       "schema": pr.get("schema")})
    body = None
    rb = op.get("requestBody")
    if rb:
        content = rb.get("content") or {}
        if "application/json" in content:
            body = {"kind": "json", "required": bool(rb.get("required", False)),
                    "schema": content["application/json"].get("schema")}
        elif "application/x-www-form-urlencoded" in content:
            sch = content["application/x-www-form-urlencoded"].get("schema") or {}
            body = {"kind": "form", "props": sorted((sch.get("properties") or {}).items()),
                    "required": list(sch.get("required") or [])}
        else:
            body = {"kind": "other", "types": sorted(content.keys())}
    responses = []
    default_noise = False
    for code, r in sorted((op.get("responses") or {}).items()):
        content = (r or {}).get("content") or {}
        if code == "default" and not content and (r or {}).get("description", "").strip() == "":
            default_noise = True
            continue
        sch = content.get("application/json", {}).get("schema") if content else None
        descr = (r or {}).get("description") or ""
        if descr == " ":        # 3.1 renders an empty description as a single blank
            descr = ""
        responses.append({"code": code, "descr": descr, "has_content": bool(content), "schema": sch})
    return {"path": path, "verb": verb.upper(), "id": op.get("operationId", ""), "tags": list(op.get("tags") or []),
            "deprecated": bool(op.get("deprecated", False)), "descr": op.get("description", "") or "",
            "security": secu, "security_present": "security" in op, "params": params, "body": body,
            "responses": responses, "default_noise": default_noise}


def doc_obs(spec):
    if spec is None:
        return None
    ops = []
    for path, item in sorted((spec.get("paths") or {}).items()):
        found = False
        for verb in VERB_KEYS:
            if verb in (item or {}):
                ops.append(op_obs(path, verb, item[verb]))
                found = True
        if not found:
            # a path item without any operation still publishes the path: shown as an operation of no annotated verb
            ops.append(op_obs(path, "<no-operation>", {}))
    return ops


def op_term(o):
    params = coq_list(["(mkOParam %s %s %s %s)" % (coq_bytes(p["name"]), coq_bytes(p["in"]), coq_bool(p["required"]),
                                                    schema_term(p["schema"])) for p in o["params"]])
    b = o["body"]
    if b is None:
        body = "BNone"
    elif b["kind"] == "json":
        body = "(BJson %s %s)" % (coq_bool(b["required"]), schema_term(b["schema"]))
    elif b["kind"] == "form":
        body = "(BForm %s %s)" % (coq_list(["(%s, %s)" % (coq_bytes(k), schema_term(v)) for k, v in b["props"]]),
                                  coq_list([coq_bytes(x) for x in b["required"]]))
    else:
        body = "(BJson false (SType (s \"?other\") []))"
    resps = coq_list(["(%s%%N, %s, %s)" % (r["code"] if r["code"].isdigit() else "0", coq_bytes(r["descr"]),
                                         ("(Some %s)" % schema_term(r["schema"])) if r["has_content"] else "None")
                      for r in o["responses"]])
    secu = coq_list(["(%s, %s)" % (coq_bytes(n), coq_list([coq_bytes(x) for x in sc])) for n, sc in o["security"]])
    return "(mkOp %s %s %s %s %s %s %s %s %s %s)" % (
        coq_bytes(o["path"]), coq_bytes(o["verb"]), coq_bytes(o["id"]), coq_list([coq_bytes(t) for t in o["tags"]]),
        coq_bool(o["deprecated"]), coq_bytes(o["descr"]), secu, params, body, resps)


def doc_term(ops):
    if ops is None:
        return "None"
    return "(Some [%s])" % ";\n      ".join(op_term(o) for o in ops)
