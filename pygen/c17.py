#!/usr/bin/env python3
"""C17 - the symbol graph's views stay mutually consistent under any sequence of edits."""
import concurrent.futures
import json
import os
import random
import re
import sys

sys.path.insert(0, os.path.dirname(os.path.abspath(__file__)))
from common import *  # noqa

PROP = "C17"
DECL = [0, 1, 2, 3, 4]          # declared bases N0..N4 (file p.go, versions 1 and 2)
PRIMS = [5, 6]                  # string, int
SPECIALS = [7, 8]               # error (universe), time.Time (non-universe built-in)
U = DECL + PRIMS + SPECIALS
KS = [0, 1, 2, 3, 4, 5, 6]      # Struct Field Enum Alias Constant Builtin Special
BASIC_KINDS = ["ty", "ref", "fld", "val"]   # kind numbers 0..3: the kinds the compound ops create (ETy ERef EFld EVal)
ADD_OPS = ("AddPrimitive", "AddSpecial", "AddStruct", "AddField", "AddEnum", "AddAlias", "AddEdge")


def read_edge_kinds(repo=None):
    """Every SymbolEdgeKind constant DECLARED by the tree under test (graphs/symboldg/*.go), as the
    list of kind names; position = the kind number used by the generator, the harness and the Coq
    terms.  0..3 are ty ref fld val (fixed: the model's compound ops name them), the others follow in
    declaration order.  The generator draws from ALL of them, so a kind added to the implementation
    later is exercised without touching this file."""
    d = os.path.join(repo or REPO, "graphs", "symboldg")
    names = []
    for fn in sorted(os.listdir(d)):
        if not fn.endswith(".go") or fn.endswith("_test.go"):
            continue
        src = open(os.path.join(d, fn), encoding="utf-8", errors="replace").read()
        src = re.sub(r"//[^\n]*", "", src)
        for m in re.finditer(r'\b\w+\s+SymbolEdgeKind\s*=\s*"([^"]*)"', src):
            names.append(m.group(1))
        for m in re.finditer(r'\b\w+\s*=\s*SymbolEdgeKind\(\s*"([^"]*)"\s*\)', src):
            names.append(m.group(1))
    missing = [k for k in BASIC_KINDS if k not in names]
    if missing or len(set(names)) != len(names):
        raise RuntimeError("C17: cannot read the edge kinds of %s (found %r)" % (d, names))
    return BASIC_KINDS + [k for k in names if k not in BASIC_KINDS]


KINDS = read_edge_kinds()
NK = len(KINDS)
# pairs of kinds whose NAMES are related as strings (one a proper prefix / suffix / substring of the
# other): the edge index keys an edge by text built from the kind name, so such kinds must be told
# apart by every lookup and removal.  Computed from whatever the tree under test declares.
NAME_RELATED = [(i, j) for i in range(NK) for j in range(NK)
                if i != j and KINDS[i] and KINDS[i] in KINDS[j]]
METAS = [0, 1, 2, 3]             # AddEdge metadata argument: nil, {"note":"first"}, {"note":"second"}, {} (see graph.go gMeta)
META_TEXT = {0: "nil", 1: '{"note":"first"}', 2: '{"note":"second"}', 3: "{}"}


# ---------------------------------------------------------------- generator

def gen_history(rng, maxlen=25):
    n = rng.choice([1, 2, 3, 4, 5, 6, 8, 10, 12, 15, 18, 20, 22, 25])
    n = min(n, maxlen)
    style = rng.random()
    # how often a key carries the "other" file version
    p_v2 = 0.0 if style < 0.35 else (0.12 if style < 0.75 else 0.4)
    nb = rng.choice([2, 3, 3, 4, 5])           # few bases => dense graphs, cycles, repeated ops
    bases = rng.sample(DECL, nb)
    cur = {}                                   # the version most recently used to add a base
    # the edge kinds of this history: a small palette drawn from ALL declared kinds (few kinds =>
    # several kinds between the same pair, removal by the kind that is / is not there)
    pstyle = rng.random()
    if pstyle < 0.3:
        palette = [0, 1, 2]
    elif pstyle < 0.9:
        palette = rng.sample(range(NK), min(NK, rng.choice([1, 2, 2, 3, 3, 4])))
    else:
        palette = list(range(NK))
    if NAME_RELATED and rng.random() < 0.3:
        # two kinds with string-related names together (and at most one more kind)
        palette = list(rng.choice(NAME_RELATED)) + [k for k in palette[:1] if rng.random() < 0.3]
        palette = sorted(set(palette))
    # metadata of the AddEdge calls of this history: all nil (what gleece itself passes) / mixed
    mstyle = rng.random()

    def emeta():
        if mstyle < 0.45:
            return 0
        return rng.choice(METAS) if rng.random() < 0.6 else 0

    def ekind():
        return rng.choice(palette) if rng.random() < 0.93 else rng.randrange(NK)

    def other_kind(k):
        ks = [x for x in palette if x != k]
        return rng.choice(ks) if ks else ekind()

    def with_meta(op):
        m = emeta()
        if m:
            op["meta"] = m
        else:
            op.pop("meta", None)
        return op

    def dkey(b=None):
        if b is None:
            b = rng.choice(bases)
        v = cur.get(b, 1)
        if rng.random() < p_v2:
            v = 3 - v
        return [b, v]

    def anykey():
        if rng.random() < 0.15:
            return [rng.choice(PRIMS + SPECIALS), 0]
        return dkey()

    h = []
    if rng.random() < 0.3 and n >= 6:
        # a coherent little type graph first (struct -> fields -> types), so that removals and
        # version changes later in the history hit dependants and the orphan cascade
        sb = list(bases)
        rng.shuffle(sb)
        st, fs = sb[0], sb[1:3]
        for f in fs:
            ty = [rng.choice(PRIMS + SPECIALS), 0] if rng.random() < 0.6 else [rng.choice(sb), cur.get(st, 1)]
            if ty[0] in DECL and rng.random() < 0.5:
                h.append({"op": "AddAlias", "k": ty})
                cur[ty[0]] = ty[1]
            h.append({"op": "AddField", "k": [f, 1], "ty": ty})
            cur[f] = 1
        h.append({"op": "AddStruct", "k": [st, 1], "fields": [[f, 1] for f in fs]})
        cur[st] = 1
        if len(sb) > 3 and rng.random() < 0.5:
            h.append({"op": "AddEnum", "k": [sb[3], 1], "p": rng.choice(PRIMS), "vals": [[x, 1] for x in sb[4:5]]})
            cur[sb[3]] = 1
        h = h[:n - 2]
    while len(h) < n:
        r = rng.random()
        adds = [o for o in h if o["op"] == "AddEdge"]
        if adds and rng.random() < 0.07:
            # an edge added earlier (other edges may have been added since) is added AGAIN, with
            # the same or other metadata, possibly under the other file version of its keys
            e = rng.choice(adds)
            op = with_meta({"op": "AddEdge", "f": list(e["f"]), "t": list(e["t"]), "kind": e["kind"]})
            if rng.random() < 0.15:
                op["f"] = dkey(op["f"][0]) if op["f"][0] in DECL else op["f"]
        elif h and r < 0.12:                    # repeat an earlier op (often the last one)
            op = dict(h[-1] if rng.random() < 0.5 else rng.choice(h))
            if op["op"] == "AddEdge" and rng.random() < 0.6:
                with_meta(op)                   # the same edge again, with whatever metadata
        elif r < 0.17:
            op = {"op": "AddPrimitive", "p": rng.choice(PRIMS)}
        elif r < 0.21:
            op = {"op": "AddSpecial", "p": rng.choice(SPECIALS)}
        elif r < 0.33:
            k = dkey()
            cur[k[0]] = k[1]
            op = {"op": "AddStruct", "k": k,
                  "fields": [dkey() for _ in range(rng.choice([0, 0, 1, 1, 2, 3]))]}
        elif r < 0.43:
            k = dkey()
            cur[k[0]] = k[1]
            op = {"op": "AddField", "k": k, "ty": anykey() if rng.random() < 0.8 else [rng.choice(PRIMS), 0]}
        elif r < 0.50:
            k = dkey()
            cur[k[0]] = k[1]
            op = {"op": "AddEnum", "k": k, "p": rng.choice(PRIMS),
                  "vals": [dkey() for _ in range(rng.choice([0, 1, 1, 2]))]}
        elif r < 0.57:
            k = dkey()
            cur[k[0]] = k[1]
            op = {"op": "AddAlias", "k": k}
        elif r < 0.77:
            op = with_meta({"op": "AddEdge", "f": anykey(), "t": anykey(), "kind": ekind()})
            if h and h[-1]["op"] == "AddEdge" and rng.random() < 0.3:
                # a second edge, of ANOTHER kind of the palette, between the pair just linked
                op["f"], op["t"] = list(h[-1]["f"]), list(h[-1]["t"])
                op["kind"] = other_kind(h[-1]["kind"])
            elif adds and rng.random() < 0.15:
                # ... or between a pair linked earlier; or another target from the same source
                e = rng.choice(adds)
                op["f"] = list(e["f"])
                if rng.random() < 0.5:
                    op["t"], op["kind"] = list(e["t"]), other_kind(e["kind"])
        elif r < 0.88:
            op = {"op": "RemoveEdge", "f": anykey(), "t": anykey()}
            if rng.random() < 0.6:
                op["kind"] = ekind()
            if adds and rng.random() < 0.5:
                # aimed at a pair that was linked: by the kind of that edge, by another kind of the
                # palette (there or not), or all kinds
                e = rng.choice(adds)
                op = {"op": "RemoveEdge", "f": list(e["f"]), "t": list(e["t"])}
                x = rng.random()
                if x < 0.5:
                    op["kind"] = e["kind"]
                elif x < 0.8:
                    op["kind"] = other_kind(e["kind"])
        else:
            if cur and rng.random() < 0.5:      # something that was added (often has dependants)
                b = rng.choice(sorted(cur))
                op = {"op": "RemoveNode", "k": dkey(b)}
            elif rng.random() < 0.4:
                op = {"op": "RemoveNode", "k": [rng.choice(PRIMS + SPECIALS), 0]}
            else:
                op = {"op": "RemoveNode", "k": anykey()}
        h.append(op)
    return h


def kinds_of(h):
    """the edge kinds a history can create or names"""
    ks = set()
    for o in h:
        t = o["op"]
        if t in ("AddEdge", "RemoveEdge") and o.get("kind") is not None:
            ks.add(o["kind"])
        elif t == "AddStruct" and o.get("fields"):
            ks.add(2)
        elif t == "AddField":
            ks.add(0)
        elif t == "AddEnum" and o.get("vals"):
            ks.update((1, 3))
    return sorted(ks)


def filters_for(h):
    """The edge-kind filters Children/Parents/Descendants are asked through after every op of h (a
    function of the history, so that replays and shrunk histories ask the same way): every kind of the
    history alone, every pair of them (at most 6), all of them together, one kind the history never
    uses, and the empty (non-nil) filter."""
    ks = kinds_of(h)
    fs = [[k] for k in ks]
    pairs = [[a, b] for i, a in enumerate(ks) for b in ks[i + 1:]]
    fs += pairs[:6]
    if len(ks) > 2:
        fs.append(list(ks))
    absent = next((k for k in range(NK) if k not in ks), None)
    if absent is not None:
        fs.append([absent])
        if ks:
            fs.append([absent, ks[-1]])
    fs.append([])
    out = []
    for f in fs:
        if f not in out:
            out.append(f)
    return out


# ---------------------------------------------------------------- Coq printing

def ck(k):
    return "(K %d %d)" % (k[0], k[1])


def coq_op(o):
    t = o["op"]
    if t == "AddPrimitive":
        return "AddBuiltin (K %d 0) 5" % o["p"]
    if t == "AddSpecial":
        return "AddBuiltin (K %d 0) 6" % o["p"]
    if t == "AddAlias":
        return "AddNode 3 %s" % ck(o["k"])
    if t == "AddStruct":
        return "AddStruct %s %s" % (ck(o["k"]), coq_list([ck(f) for f in o.get("fields", [])]))
    if t == "AddField":
        ty = o["ty"]
        bk = "None" if ty[0] in DECL else ("(Some 5)" if ty[0] in PRIMS else "(Some 6)")
        return "AddField %s %s %s" % (ck(o["k"]), ck(ty), bk)
    if t == "AddEnum":
        return "AddEnum %s (K %d 0) %s" % (ck(o["k"]), o["p"], coq_list([ck(f) for f in o.get("vals", [])]))
    if t == "AddEdge":
        # the metadata argument (o["meta"]) is not part of the model's op: whatever it is, AddEdge
        # is add_edge - a no-op on an existing (from, kind, to), ordinals included
        return "AddEdge %s %s %d" % (ck(o["f"]), ck(o["t"]), o["kind"])
    if t == "RemoveEdge":
        kd = o.get("kind")
        return "RemoveEdge %s %s %s" % (ck(o["f"]), ck(o["t"]), "None" if kd is None else "(Some %d)" % kd)
    if t == "RemoveNode":
        return "RemoveNode %s" % ck(o["k"])
    raise ValueError(t)


def sane(o):
    return all(o["flags"]) and not o["nondet"] and o["err"] != 2 and "node stored under" not in o.get("msg", "")


def rows(rs):
    return coq_list(["(%d,%s)" % (r[0], coq_list([str(x) for x in r[1:]])) for r in rs])


def edge_rows(rs):
    out = []
    for r in rs:
        b, n, flat = r[0], r[1], r[2:]
        es = ["E %d %d %d %d %d %d" % tuple(flat[6 * i:6 * i + 6]) for i in range(n)]
        out.append("(%d,%s)" % (b, coq_list(es)))
    return coq_list(out)


def coq_obs(o):
    return "Ob %d %s %s %s %s %s %s %s %s %s" % (
        min(o["err"], 2), coq_bool(sane(o)),
        coq_list(["(%d,%d,%d,%d)" % (x[0], x[1], x[2], x[3] + 1 if x[3] else 0) for x in o["nodes"]]),
        edge_rows(o["edges"]), rows(o["ch"]), rows(o["pa"]), rows(o["de"]), rows(o["fbk"]),
        coq_list(["(%d,%d,%d)" % tuple(x) for x in o["deps"]]),
        coq_list(["(%d,%d,%d)" % tuple(x) for x in o["rev"]]))


def coq_frows(o):
    return coq_list(["Fr %d %s %s %s %s" % (r["b"], nl(r["ks"]), nl(r["ch"]), nl(r["pa"]), nl(r["de"]))
                     for r in o.get("filt") or []])


def nl(xs):
    return coq_list([str(x) for x in xs])


HEADER = """From Gleece Require Import Base.Bytes Model.Graph Model.GraphFilter.
Local Open Scope N_scope.
Definition U : list N := %s.
Definition KS : list N := %s.
Definition E f fv t tv k o := Ed (K f fv) (K t tv) k o.
Definition case := (nat * list (list N) * list op * list obs * list (list frow))%%type.
Definition cid (c : case) : nat := let '(i, _, _, _, _) := c in i.
Definition c_agrees (c : case) := let '(_, _, h, os, _) := c in agrees U KS h os.
Definition c_dump (c : case) := let '(_, _, h, os, _) := c in agrees_dump U KS h os.
Definition c_holds (c : case) := let '(_, _, h, os, _) := c in prop_C17 U KS h os.
Definition c_filt (c : case) := let '(_, fs, h, _, fos) := c in prop_C17_filtered U fs h fos.
""" % (coq_list([str(x) for x in U]), coq_list([str(x) for x in KS]))


def coq_file(ids, cases, impl):
    body = [HEADER, "Definition cases : list case := ["]
    items = []
    for i in ids:
        items.append("(%d%%nat,\n  %s,\n  %s,\n  %s,\n  %s)" % (
            i, coq_list([nl(f) for f in filters_for(cases[i])]),
            coq_list([coq_op(o) for o in cases[i]]), coq_list([coq_obs(o) for o in impl[i]]).replace("; Ob", ";\n   Ob"),
            coq_list([coq_frows(o) for o in impl[i]])))
    body.append(";\n ".join(items))
    body.append("].\n")
    body.append("Definition disagree := Eval vm_compute in map cid (filter (fun c => negb (c_agrees c)) cases).\n"
                "Definition dumpdis := Eval vm_compute in map cid (filter (fun c => negb (c_dump c)) cases).\n"
                "Definition propfail := Eval vm_compute in map cid (filter (fun c => negb (c_holds c)) cases).\n"
                "Definition filtfail := Eval vm_compute in map cid (filter (fun c => negb (c_filt c)) cases).\n"
                "Print disagree.\nPrint dumpdis.\nPrint propfail.\nPrint filtfail.\n")
    return "\n".join(body)


def evaluate(cases, tag="cases", reps=2, chunk=60):
    """Runs the histories on the real graph, then model agreement and the property oracles in Coq.
    Returns (impl, disagree ids, dump-disagree ids, propfail ids, dump available); propfail = prop_C17
    fails or prop_C17_filtered (the answers through edge-kind filters) fails."""
    impl = run_graph(cases, reps)
    dump_ok = all(o["dump"] for h in impl for o in h)
    jobs = []
    for lo in range(0, len(cases), chunk):
        ids = list(range(lo, min(lo + chunk, len(cases))))
        jobs.append(("%s_%d" % (tag, lo), coq_file(ids, cases, impl)))
    disagree, dumpdis, propfail, filtfail = [], [], [], []
    with concurrent.futures.ThreadPoolExecutor(max_workers=min(12, max(1, len(jobs)))) as ex:
        outs = list(ex.map(lambda j: run_coq_file(PROP, j[0], j[1]), jobs))
    for out in outs:
        disagree += parse_nat_list(out, "disagree")
        dumpdis += parse_nat_list(out, "dumpdis")
        propfail += parse_nat_list(out, "propfail")
        filtfail += parse_nat_list(out, "filtfail")
    if not dump_ok:
        dumpdis = []
    LAST["filtfail"] = sorted(filtfail)
    LAST["propfail_plain"] = sorted(propfail)
    return impl, sorted(disagree), sorted(dumpdis), sorted(set(propfail) | set(filtfail)), dump_ok


LAST = {}
LAST0 = {}


def run_graph(cases, reps=1, timeout=600):
    return implrun("graph", {"reps": reps, "histories": cases, "kinds": KINDS,
                             "filters": [filters_for(h) for h in cases]}, timeout=timeout)


def shrink(case, which):
    """Greedy removal of ops while the history still fails (`which`: 3 = oracle, 1 = agreement,
    2 = dump agreement).  One implrun + one coqc per round: all single-op removals at once."""
    cur = list(case)
    while len(cur) > 1:
        cands = [cur[:k] + cur[k + 1:] for k in range(len(cur))]
        r = evaluate(cands, "shrink", reps=1, chunk=max(1, (len(cands) + 7) // 8))
        bad = r[which]
        if not bad:
            break
        cur = cands[bad[0]]
    return cur


# ---------------------------------------------------------------- known-finding matchers

def key_uses(h):
    """(position class, key) for every key an op mentions: 'node' = the node being added,
    'ref' = edge endpoint, field / value / type reference, removal target."""
    out = []
    for o in h:
        t = o["op"]
        if t in ("AddStruct", "AddField", "AddEnum", "AddAlias"):
            out.append(("node", tuple(o["k"])))
        for f in o.get("fields", []) + o.get("vals", []):
            out.append(("ref", tuple(f)))
        if t == "AddField":
            out.append(("ref", tuple(o["ty"])))
        if t in ("AddEdge", "RemoveEdge"):
            out.append(("ref", tuple(o["f"])))
            out.append(("ref", tuple(o["t"])))
        if t == "RemoveNode":
            out.append(("ref", tuple(o["k"])))
    return out


def match_remove_edge_other_kind(h, impl):
    """a RemoveEdge(from, to, &kind) executed while an edge of another kind links the same pair"""
    for i, o in enumerate(h):
        if o["op"] == "RemoveEdge" and o.get("kind") is not None and i > 0:
            for row in impl[i - 1]["edges"]:
                n, flat = row[1], row[2:]
                for j in range(n):
                    e = flat[6 * j:6 * j + 6]
                    if e[0] == o["f"][0] and e[2] == o["t"][0] and e[4] != o["kind"]:
                        return True
    return False


def match_stale_version_key(h, impl):
    """some op refers (edge endpoint, field/value/type reference, removal target) to a base under
    a file version while another op of the history mentions the same base under another version"""
    uses = key_uses(h)
    vers = {}
    for _, (b, v) in uses:
        vers.setdefault(b, set()).add(v)
    return any(cls == "ref" and len(vers[b]) > 1 for cls, (b, v) in uses)


MATCHERS = {
    "remove-edge-by-kind-with-other-kind-remaining": match_remove_edge_other_kind,
    "key-version-differs-from-version-in-graph": match_stale_version_key,
}


def classify(h, impl, findings):
    for f in findings:
        m = MATCHERS.get((f.get("match") or {}).get("kind"))
        if m and m(h, impl):
            return f
    return None


# ---------------------------------------------------------------- main

FCLAUSES = ["answers through an edge-kind filter: Children/Parents/Descendants(node, EdgeKinds=ks) equal the "
            "set-of-edges model restricted to the kinds ks (and nothing is answered for an absent node)",
            "children/parents duality through a filter: x in Children(b, ks) iff b in Parents(x, ks)"]
CLAUSES = ["harness consistency flags (version-independent key queries, Exists = (Get != nil), kind-filtered GetEdges, "
           "sorted traversals return the unsorted answers' nodes in the order of the ordinals GetEdges lists, "
           "node-kind filters, edge metadata is what the creating AddEdge gave and never changes, identical answers on "
           "re-execution, no panic)",
           "out/in agreement: every edge listed by GetEdges of some node is listed by both its source and its target",
           "query answers (Get/Exists, GetEdges, Children, Parents, Descendants, FindByKind) equal the "
           "set-of-nodes/set-of-edges model",
           "op-specific clause (RemoveNode removes the node and every touching edge / a (re-)added node is present "
           "under the version given / re-inserting an existing node or edge - whatever metadata the repeated AddEdge "
           "carries - changes nothing: same answers AND the same edge descriptors, ordinals included)"]


DIAG_RE = r"Some\s*\(\s*(\d+)(?:%nat)?\s*,\s*\[([^\]]*)\]\s*,(.*)\)\s*:\s*option"


def diagnose(h, impl_h):
    """Which clauses of prop_C17 / prop_C17_filtered fail first, and the plain model's state at that step."""
    fs = filters_for(h)
    body = HEADER + "Definition dh : list op := %s.\nDefinition dos : list obs := %s.\n" \
                    "Definition dfos : list (list frow) := %s.\n" % (
        coq_list([coq_op(o) for o in h]), coq_list([coq_obs(o) for o in impl_h]),
        coq_list([coq_frows(o) for o in impl_h])) + \
        "Definition d := Eval vm_compute in diag_C17 U KS dh dos.\nPrint d.\n" \
        "Definition df := Eval vm_compute in diag_C17_filtered U %s dh dfos.\nPrint df.\n" % coq_list([nl(f) for f in fs])
    try:
        out = run_coq_file(PROP, "diag", body)
    except Exception as ex:  # noqa
        return None
    cut = out.find("df =")
    m = re.search(DIAG_RE, out[:cut] if cut >= 0 else out, re.S)
    mf = re.search(DIAG_RE, out[cut:], re.S) if cut >= 0 else None
    if not m and not mf:
        return None
    step = min(int(x.group(1)) for x in (m, mf) if x)
    failed, res = [], {}
    if m and int(m.group(1)) == step:
        flags = [x.strip() == "true" for x in m.group(2).split(";") if x.strip()]
        failed = [CLAUSES[i] for i, f in enumerate(flags) if not f]
        if len(flags) > 0 and not flags[0]:
            bad = [FLAG_NAMES[j] for j, f in enumerate(impl_h[step]["flags"]) if not f]
            if bad:
                failed[0] += " -- failing flag(s): " + "; ".join(bad)
        res["plain_model_state_at_that_step"] = " ".join(m.group(3).split())
    if mf and int(mf.group(1)) == step:
        flags = [x.strip() == "true" for x in mf.group(2).split(";") if x.strip()]
        failed += [FCLAUSES[i] for i, f in enumerate(flags) if not f]
        res["filters_asked"] = [[KINDS[k] for k in f] for f in fs]
        res["implementation_filtered_answers_at_that_step"] = [
            {"node": r["b"], "edge_kinds": [KINDS[k] for k in r["ks"]], "children": r["ch"], "parents": r["pa"],
             "descendants": r["de"]} for r in impl_h[step].get("filt") or []]
        res["plain_model_state_at_that_step"] = " ".join(mf.group(3).split())
    res.update({"step": step, "failed_clauses": failed})
    return res


FLAG_NAMES = ["queries under the two file versions of a key differ", "Exists != (Get != nil)",
              "GetEdges(key, [kind]) != the edges of that kind in GetEdges(key, nil)",
              "a sorted Children/Parents returns other nodes than the unsorted one (same filter)",
              "a sorted Children/Parents (plain or through an edge-kind filter) does not list, in ordinal order, the nodes at the other end of the edges (of the admitted kinds) that GetEdges lists",
              "Children/Parents(node, NodeKinds=[k]) != the plain answer restricted to node kind k",
              "edge metadata: an edge (from, kind, to, ordinal) listed before the op is listed with other metadata after it, "
              "or a new edge does not carry the metadata its AddEdge call gave (nil for edges the compound ops create), "
              "or two listings of one edge disagree"]


def first_bad_step(h, impl_h):
    """index of the first step at which the observation looks inconsistent (for the replay text)"""
    for i, o in enumerate(impl_h):
        listed = {}
        for row in o["edges"]:
            n, flat = row[1], row[2:]
            listed[row[0]] = {tuple(flat[6 * j:6 * j + 6]) for j in range(n)}
        for b, es in listed.items():
            for e in es:
                if e not in listed.get(e[0], set()) or e not in listed.get(e[2], set()):
                    return i, "edge %s is listed by GetEdges(base %d) but not by both of its endpoints" % (list(e), b)
    return len(h) - 1, "an answer differs from the set-of-nodes/set-of-edges model (see prop_C17 / prop_C17_filtered clauses)"


def main():
    a, seed = args_for(PROP)
    res = Result(PROP, a.tier, seed)
    rng = random.Random(seed)
    build_coq()
    build_harness()
    proof_coverage(PROP, res)
    findings = known_for(PROP)

    cases = []
    corpus_file = os.path.join(CORPUS, "C17.json")
    if os.path.exists(corpus_file):
        cases += json.load(open(corpus_file))
    ncorpus = len(cases)
    if a.replay:
        cases = [json.load(open(a.replay))["input"]]
        ncorpus, n = 0, 0
    else:
        n = 300 if a.tier == "quick" else 6000
    for _ in range(n):
        cases.append(gen_history(rng))

    try:
        impl, disagree, dumpdis, propfail, dump_ok = evaluate(cases, reps=2 if a.tier == "quick" else 3)
        LAST0.update(LAST)
    except RuntimeError as ex:
        if "implrun graph failed" not in str(ex):
            raise
        # the harness process died (fatal Go error: stack overflow, concurrent map write, ...):
        # find a history that kills it and minimise it
        def dies(h):
            try:
                run_graph([h], 1, timeout=120)
                return False
            except Exception:  # noqa
                return True
        bad = next((h for h in cases if dies(h)), None)
        if bad is None:
            raise
        cur = list(bad)
        changed = True
        while changed and len(cur) > 1:
            changed = False
            for k in range(len(cur)):
                cand = cur[:k] + cur[k + 1:]
                if dies(cand):
                    cur, changed = cand, True
                    break
        res.violation({"kind": "property-fails-on-implementation", "input": cur,
                       "claim": "every op and query terminates normally (the harness process died)",
                       "what": str(ex)[-1500:]})
        res.coverage.update({"evaluations": len(cases), "distinct_nontrivial": 0, "rule": "see pygen/c17.py",
                             "samples": [], "input_distribution": {}})
        sys.exit(res.finish())

    reported = 0
    seen_small = set()
    known_examples = {}
    budget = [6 if a.tier == "quick" else 12]     # histories to shrink and classify

    def suspicion(i):
        """failing histories that cannot be explained by a listed finding come first, short ones first"""
        explained = any(m(cases[i], impl[i]) for m in
                        [MATCHERS.get((f.get("match") or {}).get("kind")) for f in findings] if m)
        return (explained, len(cases[i]))

    def report(i, which, kind, claim):
        nonlocal reported
        if budget[0] <= 0:
            return
        budget[0] -= 1
        small = shrink(cases[i], which)
        keyj = json.dumps(small, sort_keys=True)
        if keyj in seen_small:
            return
        seen_small.add(keyj)
        o = run_graph([small])[0]
        f = classify(small, o, findings)
        step, what = first_bad_step(small, o)
        if f is not None:
            known_examples.setdefault(f.get("id"), []).append(small)
            res.known(f, f.get("title", ""))
            return
        dg = diagnose(small, o)
        if dg:
            step = dg["step"]
            what = "after op %d (%s): fails %s" % (step, json.dumps(small[step]), "; ".join(dg["failed_clauses"]))
        rep = {"kind": kind, "input": small, "edge_kind_names": {str(k): KINDS[k] for k in kinds_of(small)},
               "add_edge_metadata": {str(m): META_TEXT[m] for m in sorted({o.get("meta", 0) for o in small if o["op"] == "AddEdge"})},
               "implementation_output": o, "claim": claim,
               "first_inconsistent_step": step, "what": what, "diagnosis": dg}
        if kind == "correspondence":
            rep["obligation"] = "corr:Graph.step/observe"
        res.violation(rep, no_input=(kind == "correspondence"))
        reported += 1

    for i in sorted(propfail, key=suspicion):
        if reported >= 3 or budget[0] <= 0:
            break
        report(i, 3, "property-fails-on-implementation",
               "prop_C17: out/in agreement of GetEdges, every query (plain and through an edge-kind filter) "
               "equals the set-of-nodes/set-of-edges model, removal removes the node and all touching edges, "
               "re-insertion changes nothing")
    only_dis = [i for i in disagree + dumpdis if i not in propfail]
    if not res.violations and only_dis:
        budget[0] = max(budget[0], 2)
        # the model no longer describes the code (or only the hidden indices differ): look harder
        extra = [gen_history(rng) for _ in range(1500)]
        _, _, _, pf2, _ = evaluate(extra, "widen")
        if pf2:
            cases_backup, cases[:] = list(cases), extra
            for i in pf2[:6]:
                if reported >= 3:
                    break
                report(i, 3, "property-fails-on-implementation", "prop_C17 (found after widening the search)")
            cases[:] = cases_backup
        if not res.violations:
            budget[0] = max(budget[0], 2)
            for i in only_dis[:6]:
                if reported >= 1:
                    break
                report(i, 1 if i in disagree else 2, "correspondence",
                       "model and implementation disagree (%s); the property oracle found no failing "
                       "history in %d + 1500 cases" % ("queries" if i in disagree else "deps/revDeps dump", len(cases)))

    # ------------------------------------------------------------ evidence
    opmix, lengths = {}, {}
    cascade = replaced = errors = edge_steps = stale = repeats = 0
    max_edges = 0
    distinct = set()
    kind_use, multi_kind_pair_steps, filt_rows, filt_queries = {}, 0, 0, 0
    meta_use, readd_other_meta, related_pair_steps, kind_removals_on_multi = {}, 0, 0, 0
    related = {(KINDS[a], KINDS[b]) for a, b in NAME_RELATED}
    for h, ob in zip(cases, impl):
        lengths[len(h)] = lengths.get(len(h), 0) + 1
        nf = len(filters_for(h))
        first_meta = {}
        for i, o in enumerate(h):
            if o["op"] == "AddEdge":
                kind_use[KINDS[o["kind"]]] = kind_use.get(KINDS[o["kind"]], 0) + 1
                mt = META_TEXT[o.get("meta", 0)]
                meta_use[mt] = meta_use.get(mt, 0) + 1
                # re-insertion of an edge the implementation lists, with metadata other than the stored one
                if i > 0:
                    for r in ob[i - 1]["edges"]:
                        for j in range(r[1]):
                            e = r[2 + 6 * j:8 + 6 * j]
                            if r[0] == e[0] == o["f"][0] and e[2] == o["t"][0] and e[4] == o["kind"]:
                                ek = (e[0], e[2], e[4], e[5])
                                if first_meta.get(ek, 0) != o.get("meta", 0):
                                    readd_other_meta += 1
                nw = {(e[0], e[2], e[4], e[5]) for r in ob[i]["edges"] for j in range(r[1])
                      for e in [r[2 + 6 * j:8 + 6 * j]]}
                for ek in nw:
                    if ek[:3] == (o["f"][0], o["t"][0], o["kind"]) and ek not in first_meta:
                        first_meta[ek] = o.get("meta", 0)
        for x in ob:
            filt_rows += len(x.get("filt") or [])
            filt_queries += 3 * nf * len(x["nodes"])
            es = {tuple(r[2 + 6 * j:8 + 6 * j]) for r in x["edges"] for j in range(r[1])}
            pairs = {}
            for e in es:
                pairs.setdefault((e[0], e[2]), set()).add(e[4])
            multi_kind_pair_steps += 1 if any(len(v) > 1 for v in pairs.values()) else 0
            related_pair_steps += 1 if any((KINDS[a], KINDS[b]) in related for v in pairs.values()
                                           for a in v for b in v if a < NK and b < NK) else 0
        prev_nodes = {}
        for i, (o, x) in enumerate(zip(h, ob)):
            opmix[o["op"]] = opmix.get(o["op"], 0) + 1
            if i > 0 and h[i - 1] == o:
                repeats += 1
            nodes = {r[0]: r[3] for r in x["nodes"]}
            gone = [b for b in prev_nodes if b not in nodes]
            if len(gone) >= 2 or (len(gone) == 1 and o["op"] != "RemoveNode"):
                cascade += 1
            if any(b in nodes and nodes[b] != v for b, v in prev_nodes.items()):
                replaced += 1
            errors += 1 if x["err"] else 0
            ne = len({tuple(r[2 + 6 * j:8 + 6 * j]) for r in x["edges"] for j in range(r[1])})
            edge_steps += 1 if ne else 0
            max_edges = max(max_edges, ne)
            prev_nodes = nodes
        if match_stale_version_key(h, ob):
            stale += 1
        if match_remove_edge_other_kind(h, ob):
            kind_removals_on_multi += 1
        if any(x["edges"] for x in ob):
            distinct.add(json.dumps(h, sort_keys=True))
    res.coverage.update({
        "evaluations": len(cases), "distinct_nontrivial": len(distinct),
        "observations_compared": sum(len(h) for h in cases),
        "rule": "seeded op histories (length 1-25) over 5 declared bases x 2 file versions + 2 primitives + 2 "
                "specials; edge kinds: ALL SymbolEdgeKind constants declared in graphs/symboldg of the tree under "
                "test (" + " ".join(KINDS) + "), a palette of 1-4 of them per history (30%: ty/ref/fld, 10%: all), "
                "30% of the histories draw two kinds whose NAMES are related as strings (one contains the other; computed "
                "from the declared names) together; 30% of the AddEdge ops after an AddEdge link the same pair again by "
                "another kind; AddEdge carries a metadata argument (nil / {note:first} / {note:second} / {}; 45% of the "
                "histories all nil), 7% of the ops re-add an edge added earlier (same or other metadata, after other edges); "
                "half of the RemoveEdge ops aim at a pair linked earlier (by that edge's kind / another kind / nil); ops AddPrimitive/AddSpecial/AddStruct(with "
                "fields)/AddField(declared or built-in type)/AddEnum(with values)/AddAlias/AddEdge/RemoveEdge(kind or "
                "nil)/RemoveNode; edges before nodes, removals of absent things, repeated ops (12%), stale and newer "
                "file versions in three intensities; each history executed on a fresh symboldg.SymbolGraph "
                "(twice or more: Go re-randomises map order); after EACH op Exists/Get/GetEdges(nil and per kind)/"
                "Children/Parents/Descendants/FindByKind for every base and both key versions + the deps/revDeps "
                "indices are compared with the model and prop_C17 is evaluated on the implementation's answers; "
                "Children/Parents/Descendants are also asked through edge-kind filters (every kind of the history alone, "
                "pairs, all, a kind the history does not use, the empty filter) and prop_C17_filtered is evaluated on "
                "those answers; sorted (asc/desc) variants of every traversal must list the same nodes in ordinal order; "
                "non-trivial = some observation has an edge; distinct = distinct histories",
        "samples": [{"input": cases[i], "implementation_last_observation": impl[i][-1] if impl[i] else None}
                    for i in range(ncorpus, min(len(cases), ncorpus + 2))],
        "traces_validated_against_impl": len(cases) - len(set(disagree)),
        "disagreements": len(disagree), "dump_disagreements": len(dumpdis),
        "property_oracle_failures": len(propfail), "adjacency_dump_available": dump_ok,
        "filtered_oracle_failures": len(LAST0.get("filtfail", [])),
        "filtered_traversal_queries": filt_queries, "filtered_traversal_nonempty_rows": filt_rows,
        "known_finding_examples": {k: v[:2] for k, v in known_examples.items()},
        "input_distribution": {
            "history_lengths": lengths, "op_mix": opmix, "immediate_repeats": repeats,
            "steps_hitting_orphan_cascade_or_eviction": cascade, "steps_replacing_a_node_version": replaced,
            "ops_returning_error": errors, "steps_with_edges": edge_steps, "max_distinct_edges": max_edges,
            "histories_using_stale_version_keys": stale, "corpus_cases": ncorpus,
            "edge_kinds_declared": KINDS, "add_edge_ops_per_kind": kind_use,
            "steps_with_two_kinds_between_one_pair": multi_kind_pair_steps,
            "kind_names_related_as_strings": sorted([a, b] for a, b in related),
            "steps_with_two_name_related_kinds_between_one_pair": related_pair_steps,
            "histories_with_a_kind_specific_remove_edge_on_a_pair_linked_by_another_kind_too": kind_removals_on_multi,
            "add_edge_ops_per_metadata_argument": meta_use,
            "add_edge_of_a_listed_edge_with_other_metadata": readd_other_meta},
    })
    res.assumptions += [
        "RemoveEdge(kind=nil) selects inner keys by the string suffix '::'+toBase; modelled as equality of the "
        "target base id (no base id of the universe is a '::'-suffix of another)",
        "edge ordinals are uint32 in Go and unbounded in the model",
        "Go map iteration order is not modelled: answers are compared as multisets (GetEdges as a set); each "
        "history is executed several times and any difference between executions fails the oracle (o_sane)",
        "edge-kind filters of Children/Parents/Descendants are evaluated by prop_C17_filtered (sets); ordinal "
        "sorting and node-kind filters are only checked in the harness (same nodes as the unsorted query, order = "
        "the ordinals GetEdges lists; node-kind filter = restriction of the plain answer); FilterFunc is not "
        "exercised; deps/revDeps are read with reflect+unsafe",
        "the edge kind names are read from the const declarations of graphs/symboldg/*.go of the tree under test "
        "(SymbolEdgeKind is a string type; the harness converts the names)",
    ]
    sys.exit(res.finish())


if __name__ == "__main__":
    main()
