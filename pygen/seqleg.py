"""Sequences of generations in ONE process (harness command `genseq`).

A base project is edited several times WITHOUT changing its file layout (same directory, same
package paths, same file names, doc blocks at the same positions): security names swapped among
same-length names, route literals changed, a hidden flag toggled, a method added, a scheme
declaration dropped while still used (expected rejection), and finally the base project again.
Every edit is generated (a) by a fresh CLI process and (b) by ONE process running all edits back to
back through the library entry points.  The in-process artifacts are handed to the calling check,
which evaluates its own property oracle on them: whatever one generation leaves behind in
package-level state (memoised annotations, cached packages, scheme tables) and a later one picks
up makes the later artifact describe another project than the one on disk.

    steps = run_sequence(prop, tag, seq, openapi="3.0.0", engine="gin")
    -> list of dict(label, project, fresh={exit, spec, routes}, inproc={error, spec, routes})
"""
import base64
import copy
import json
import os
import shutil

from common import *  # noqa
import project as P

LIVE_MOD = "verifproj/live"


def _swap_schemes(p):
    """Swap same-length scheme names in every annotation (config declarations stay)."""
    names = p["config"]["schemes"]
    pairs = {}
    for a in names:
        for b in names:
            if a < b and len(a) == len(b) and a not in pairs and b not in pairs:
                pairs[a], pairs[b] = b, a
    if not pairs:
        return False
    changed = False
    for c in p["controllers"]:
        for lst in [c["security"]] + [m["security"] for m in c["methods"]]:
            for sc in lst:
                if sc["name"] in pairs:
                    sc["name"] = pairs[sc["name"]]
                    changed = True
    d = p["config"]["default_security"]
    if d and d["name"] in pairs:
        d["name"] = pairs[d["name"]]
        changed = True
    return changed


def _retarget_routes(p):
    """Change one literal character of every method route (same length, same parameters)."""
    import re
    for c in p["controllers"]:
        for m in c["methods"]:
            def bump(mo):
                w = mo.group(0)
                ch = w[-1]
                return w[:-1] + ("z" if ch != "z" else "y")
            parts = re.split(r"(\{[^}]*\})", m["route"])
            for i, part in enumerate(parts):
                if not part.startswith("{") and re.search(r"[a-z0-9]", part):
                    parts[i] = re.sub(r"[A-Za-z0-9_-]+", bump, part, count=1)
                    break
            m["route"] = "".join(parts)


def prepare_base(base):
    """Make sure the base project declares two same-length schemes and uses one of them on a method."""
    p = copy.deepcopy(base)
    for n in ("sec1", "sec2"):
        if n not in p["config"]["schemes"]:
            p["config"]["schemes"].append(n)
    m = p["controllers"][0]["methods"][0]
    if not any(sc["name"] in ("sec1", "sec2") for sc in m["security"]):
        m["security"] = [{"name": "sec1", "scopes": ["read"]}] + m["security"]
    return p


def edits(rng, base):
    """Successive edits of base with the same file layout.  Returns list of (label, project)."""
    base = prepare_base(base)
    seq = [("base", copy.deepcopy(base))]
    e0 = copy.deepcopy(base)
    swapped = _swap_schemes(e0)
    if swapped:
        # nothing moves: every doc block keeps its file, line and column range
        seq.append(("schemes-swapped-in-place", e0))
    e1 = copy.deepcopy(e0)
    _retarget_routes(e1)
    for c in e1["controllers"]:
        for m in c["methods"][:1]:
            m["hidden"] = not m["hidden"]
            m["deprecated"] = not m["deprecated"]
    seq.append(("routes-retargeted+hidden-toggled", e1))
    e2 = copy.deepcopy(e1)
    c0 = e2["controllers"][0]
    if c0["methods"]:
        extra = copy.deepcopy(c0["methods"][-1])
        extra["name"] = extra["name"] + "Extra"
        extra["route"] = "/extra" + extra["route"]
        extra["hidden"] = False
        c0["methods"].append(extra)
        seq.append(("method-added", e2))
    used = set(sc["name"] for c in base["controllers"] for lst in [c["security"]] + [m["security"] for m in c["methods"]]
               for sc in lst)
    if base["config"]["default_security"]:
        used.add(base["config"]["default_security"]["name"])
    declared_used = [n for n in base["config"]["schemes"] if n in used]
    if declared_used and len(base["config"]["schemes"]) > 1:
        e3 = copy.deepcopy(base)
        e3["config"]["schemes"] = [n for n in e3["config"]["schemes"] if n != declared_used[0]]
        seq.append(("declaration-of-used-scheme-dropped", e3))
    # the same project with a template EXTENSION only (no template override): nothing of it may survive in the process
    seq.append(("template-extension-only", copy.deepcopy(base),
                {"conf": {"routesConfig": {"templateExtensions": {"RegisterRoutesExtension": "./ext.register.hbs"}}},
                 "files": {"ext.register.hbs": "// verif: extension of one generation only\n"}}))
    seq.append(("base-again", copy.deepcopy(base)))
    return seq


def _read(path):
    try:
        with open(path, "rb") as f:
            return f.read()
    except OSError:
        return None


def run_sequence(prop, tag, seq, openapi="3.0.0", engine="gin", mode="spec-and-routes", over=False):
    build_cli()
    build_harness()
    moddir = os.path.join(WORK, prop, "seq_" + tag, "mod")
    shutil.rmtree(moddir, ignore_errors=True)
    P.make_module(moddir)
    live = os.path.join(moddir, "live")
    stages = []
    cfgname = None
    seq = [tuple(x) + (None,) * (3 - len(x)) for x in seq]
    for i, (label, p, extra) in enumerate(seq):
        st = os.path.join(moddir, "stage%d" % i)
        P.render_project(p, st, LIVE_MOD)
        cfgname = P.render_config(p, st, LIVE_MOD, openapi=openapi, engine=engine)
        if extra:
            cf = os.path.join(st, cfgname)
            conf = json.load(open(cf))
            for k, v in (extra.get("conf") or {}).items():
                conf.setdefault(k, {}).update(v)
            json.dump(conf, open(cf, "w"), indent=1)
            for rel, content in (extra.get("files") or {}).items():
                with open(os.path.join(st, rel), "w") as f:
                    f.write(content)
        stages.append(st)
    outputs = ["dist/spec-%s.json" % openapi, "dist/routes.go"]
    steps = []
    # (a) fresh process per edit, in the live directory
    for i, (label, p, extra) in enumerate(seq):
        shutil.rmtree(live, ignore_errors=True)
        shutil.copytree(stages[i], live)
        r = P.run_cli_one({"dir": live, "args": ["generate", mode, "-c", cfgname]})
        steps.append({"label": label, "project": p, "extra": extra,
                      "fresh": {"exit": r["exit"], "out": r["out"][-800:],
                                "spec": _read(os.path.join(live, outputs[0])), "routes": _read(os.path.join(live, outputs[1]))}})
    # (a') fresh process per edit again, but the OUTPUT files of the previous edit are still in place (a user re-running
    # the tool over its own earlier output): what is written must be the same bytes
    shutil.rmtree(live, ignore_errors=True)
    os.makedirs(live)
    for i, (label, p, extra) in enumerate(seq if over else []):
        for name in os.listdir(live):
            if name != "dist":
                q = os.path.join(live, name)
                shutil.rmtree(q) if os.path.isdir(q) else os.remove(q)
        shutil.copytree(stages[i], live, dirs_exist_ok=True)
        r = P.run_cli_one({"dir": live, "args": ["generate", mode, "-c", cfgname]})
        steps[i]["fresh_over"] = {"exit": r["exit"], "spec": _read(os.path.join(live, outputs[0])),
                                  "routes": _read(os.path.join(live, outputs[1]))}
    # (b) one process, all edits back to back
    jobs = [{"live": live, "stage": stages[i], "config": cfgname, "mode": mode, "outputs": outputs} for i in range(len(seq))]
    results = implrun("genseq", jobs, timeout=900)
    for st, r in zip(steps, results):
        files = r.get("files_b64") or {}
        st["inproc"] = {"error": r["error"], "panic": r["panic"],
                        "spec": base64.b64decode(files[outputs[0]]) if outputs[0] in files else None,
                        "routes": base64.b64decode(files[outputs[1]]) if outputs[1] in files else None}
    shutil.rmtree(os.path.join(WORK, prop, "seq_" + tag), ignore_errors=True)
    return steps


def differences(steps, artifact):
    """Indices of steps whose in-process artifact differs from the fresh-process one (bytes or presence)."""
    return [i for i, st in enumerate(steps) if st["fresh"][artifact] != st["inproc"][artifact]]


def describe_sequence(steps, upto):
    return [{"step": i, "edit": st["label"], "project": st["project"], "extra": st.get("extra")}
            for i, st in enumerate(steps[:upto + 1])]
