#!/usr/bin/env python3
"""Re-inserts DESIGN_asbuilt.md between the AS-BUILT markers of DESIGN.md."""
import os
V = os.path.dirname(os.path.dirname(os.path.abspath(__file__)))
s = open(os.path.join(V, "DESIGN.md")).read()
a = s.index("<!-- AS-BUILT-BEGIN -->") + len("<!-- AS-BUILT-BEGIN -->\n")
b = s.index("<!-- AS-BUILT-END -->")
s = s[:a] + open(os.path.join(V, "DESIGN_asbuilt.md")).read() + s[b:]
open(os.path.join(V, "DESIGN.md"), "w").write(s)
