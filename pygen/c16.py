#!/usr/bin/env python3
"""C16 - annotation comments parse back to exactly what was written.

Correspondence: Model/Annot.v (model_obs) against annotations.NewAnnotationHolder + accessors, per line
and per block.  Oracle: prop_C16 (written from the property text; the generator knows what it wrote)
evaluated in Coq on the implementation's own output.  The JSON5 library is an oracle: the harness
applies the real json5.Unmarshal to the exact bytes and the answers are handed to the model as a table.
"""
import json
import os
import random
import re
import sys
import zlib
from concurrent.futures import ThreadPoolExecutor

sys.path.insert(0, os.path.dirname(os.path.abspath(__file__)))
from common import *  # noqa

PROP = "C16"

# ------------------------------------------------------------------ byte-level helpers (port of Annot.v)

RE_WS = b"\t\n\x0c\r "
ASCII_WS = RE_WS + b"\x0b"
WS2 = [b"\xc2\x85", b"\xc2\xa0"]
WS3 = [b"\xe1\x9a\x80"] + [bytes([0xe2, 0x80, x]) for x in list(range(0x80, 0x8b)) + [0xa8, 0xa9, 0xaf]] + \
      [b"\xe2\x81\x9f", b"\xe3\x80\x80"]
WORD = set(b"0123456789ABCDEFGHIJKLMNOPQRSTUVWXYZabcdefghijklmnopqrstuvwxyz_")
VALC = WORD | set(b"-/\\{} ")


def go_trim_space(t):
    i = 0
    while i < len(t):
        if t[i] in ASCII_WS:
            i += 1
        elif t[i:i + 2] in WS2:
            i += 2
        elif t[i:i + 3] in WS3:
            i += 3
        else:
            break
    t = t[i:]
    while t:
        if t[-1] in ASCII_WS:
            t = t[:-1]
        elif len(t) >= 2 and t[-2:] in WS2:
            t = t[:-2]
        elif len(t) >= 3 and t[-3:] in WS3:
            t = t[:-3]
        else:
            break
    return t


def span(cls, t, i):
    j = i
    while j < len(t) and t[j] in cls:
        j += 1
    return j


def py_tail(t, q):
    """(?:\\s+(.+))?$ at q: returns None (fail) or (descr_start or -1)."""
    if q == len(t):
        return -1
    e = span(RE_WS, t, q)
    if e == q:
        return None
    if e < len(t):
        return e if b"\n" not in t[e:] else None
    if e - q >= 2 and t[-1:] != b"\n":
        return len(t) - 1
    return None


def py_match(t):
    """Port of Annot.match_text: offsets (name, value, json, descr) as (start, end) or None."""
    if not t.startswith(b"// @"):
        return None
    p = span(WORD, t, 4)
    if p == 4:
        return None
    name = (4, p)
    if p < len(t) and t[p] == 0x28:
        ve = span(VALC, t, p + 1)
        if ve == p + 1:
            return None
        value = (p + 1, ve)
        # with JSON5 part
        q = span(RE_WS, t, ve)
        if q < len(t) and t[q] == 0x2c:
            b = span(RE_WS, t, q + 1)
            if b < len(t) and t[b] == 0x7b:
                lim = t.find(b"\n", b + 1)
                lim = len(t) if lim < 0 else lim
                e = lim - 1
                while e >= b + 1:
                    if t[e] == 0x7d and e + 1 < len(t) and t[e + 1] == 0x29:
                        tl = py_tail(t, e + 2)
                        if tl is not None:
                            return dict(name=name, value=value, json=(b, e + 1),
                                        descr=None if tl < 0 else (tl, len(t)))
                    e -= 1
        if ve < len(t) and t[ve] == 0x29:
            tl = py_tail(t, ve + 1)
            if tl is not None:
                return dict(name=name, value=value, json=None, descr=None if tl < 0 else (tl, len(t)))
        return None
    tl = py_tail(t, p)
    if tl is None:
        return None
    return dict(name=name, value=None, json=None, descr=None if tl < 0 else (tl, len(t)))


def py_groups(raw):
    """Port of Annot.parse_line: groups cut out of the untrimmed text with offsets of the trimmed one."""
    m = py_match(go_trim_space(raw))
    if m is None:
        return None
    cut = lambda r: raw[r[0]:r[1]] if r else None
    return dict(name=cut(m["name"]), value=cut(m["value"]) or b"", json=cut(m["json"]), descr=cut(m["descr"]) or b"")


# the same expression for Python's backtracking engine (same priorities as RE2's leftmost-first);
# \s is spelled out because Python's bytes \s also contains \v
PY_RE = re.compile(rb"^// @(\w+)(?:(?:\(([\w\-_/\\{} ]+))(?:[\t\n\f\r ]*,[\t\n\f\r ]*(\{.*\}))?\))?(?:[\t\n\f\r ]+(.+))?\Z")


def shaped(raw):
    return PY_RE.match(go_trim_space(raw)) is not None


def false_close(d):
    for m in re.finditer(rb"\}\)", d):
        e = m.end()
        if e == len(d) or d[e] in RE_WS:
            return True
    return False


def free_value(raw):
    t = raw[2:] if raw.startswith(b"//") else raw
    return t.strip(b" ")


# ------------------------------------------------------------------ generator

NAMES = ["Query", "Path", "Route", "Description", "Method", "Security", "Response", "ErrorResponse", "Tag",
         "Header", "Body", "FormField", "Deprecated", "Hidden", "TemplateContext"]
WORDCH = "abcdefghijklmnopqrstuvwxyzABCDEFGHIJKLMNOPQRSTUVWXYZ0123456789_"
VALCH = WORDCH + "-/\\{} "
UNI = ["é", "ü", "ß", "日本", "語", "Ω", "→", "😀", "ñ", "ç", "Ж", "中"]
UNI_WS = ["\u00a0", "\u0085", "\u1680", "\u2000", "\u2003", "\u200a", "\u2028", "\u2029", "\u202f", "\u205f", "\u3000"]


def gen_name(rng):
    r = rng.random()
    if r < 0.55:
        return rng.choice(NAMES)
    if r < 0.65:
        return "Description"
    return "".join(rng.choice(WORDCH) for _ in range(rng.choice([1, 1, 2, 3, 5, 9])))


def gen_value(rng):
    r = rng.random()
    if r < 0.25:
        return rng.choice(["/users/{id}", "id", "GET", "POST", "x-api-key", "200", "a b", "secSchema", "/a//b/",
                           "{}", "}", "{", " lead", "trail ", "a\\d", "_", "-", " ", "a  b  ", "/{a}/{b}"])
    return "".join(rng.choice(VALCH if rng.random() < 0.3 else WORDCH + "/-") for _ in range(rng.choice([1, 2, 3, 5, 8, 13])))


def gen_jstring(rng):
    pool = ["a", "b", "name", "x y", "}", "{", ")", "(", ",", "})", "}) ", "({[", "]})", ":", "@", "é", "日本", "😀",
            "it's", 'say "hi"', "\\", "/", "//", "/*", "*/", "read:users", "0", " ", "B", "Id", "URL"]
    return "".join(rng.choice(pool) for _ in range(rng.choice([0, 1, 1, 2, 3])))


def gen_jvalue(rng, depth):
    r = rng.random()
    if depth <= 0 or r < 0.35:
        k = rng.random()
        if k < 0.45:
            return gen_jstring(rng)
        if k < 0.65:
            return rng.randint(-99999, 99999)
        if k < 0.75:
            return rng.randint(-400, 400) / 4.0
        return rng.choice([True, False, None])
    if r < 0.65:
        return [gen_jvalue(rng, depth - 1) for _ in range(rng.choice([0, 1, 2, 3]))]
    return gen_jobject(rng, depth - 1)


KEYS = ["name", "scopes", "validate", "a", "b", "k_1", "$x", "x y", "}", "})", "é", "if",
        # property names are case sensitive: the object is kept as written
        "maxAge", "Name", "NAME", "X", "x", "A", "Content-Type", "content-type", "isOK", "K_1", "É", "Scopes"]


def case_variant(rng, key):
    """A different key that equals [key] up to letter case (None when there is none)."""
    alts = {key.upper(), key.lower(), key.swapcase(), key.capitalize(), key.title()} - {key}
    return rng.choice(sorted(alts)) if alts else None


def gen_jobject(rng, depth):
    o = {}
    for _ in range(rng.choice([0, 1, 1, 2, 2, 3])):
        key = rng.choice(KEYS) if rng.random() < 0.8 else gen_jstring(rng)
        o[key] = gen_jvalue(rng, depth)
        if rng.random() < 0.12:
            # two keys that differ in letter case only are two properties
            k2 = case_variant(rng, key)
            if k2 is not None:
                o[k2] = gen_jvalue(rng, min(depth, 1))
    return o


def j5_plain(v):
    """A plain JSON5 rendering (shrinking)."""
    if isinstance(v, dict):
        return "{" + ", ".join((k if IDENT.match(k) else json.dumps(k, ensure_ascii=False)) + ": " + j5_plain(e)
                               for k, e in v.items()) + "}"
    if isinstance(v, list):
        return "[" + ", ".join(j5_plain(e) for e in v) + "]"
    return json.dumps(v, ensure_ascii=False)


IDENT = re.compile(r"^[A-Za-z_$][A-Za-z0-9_$]*$")


def j5_string(rng, x):
    q = '"' if rng.random() < 0.6 else "'"
    out = []
    for ch in x:
        if ch == q or ch == "\\":
            out.append("\\" + ch)
        else:
            out.append(ch)
    return q + "".join(out) + q


def j5_number(rng, x):
    if isinstance(x, int):
        r = rng.random()
        if r < 0.1 and x >= 0:
            return "+%d" % x
        if r < 0.2 and x >= 0:
            return "0x%X" % x
        if r < 0.25:
            return "%d." % x
        return str(x)
    t = repr(x)
    if t.endswith(".0"):
        t = t[:-2] if rng.random() < 0.5 else t
    elif rng.random() < 0.2 and (t.startswith("0.") or t.startswith("-0.")):
        t = t.replace("0.", ".", 1)
    return t


def j5_render(rng, v):
    sp = lambda: rng.choice(["", "", " ", "  ", "\t"]) if rng.random() < 0.5 else ""
    if isinstance(v, bool):
        return "true" if v else "false"
    if v is None:
        return "null"
    if isinstance(v, (int, float)):
        return j5_number(rng, v)
    if isinstance(v, str):
        return j5_string(rng, v)
    if isinstance(v, list):
        parts = [sp() + j5_render(rng, e) + sp() for e in v]
        trailing = "," if parts and rng.random() < 0.2 else ""
        return "[" + ",".join(parts) + trailing + sp() + "]"
    parts = []
    for k, e in v.items():
        ks = k if (IDENT.match(k) and rng.random() < 0.6) else j5_string(rng, k)
        parts.append(sp() + ks + sp() + ":" + sp() + j5_render(rng, e) + sp())
    trailing = "," if parts and rng.random() < 0.2 else ""
    cm = " /* c }) */ " if rng.random() < 0.04 else ""
    return "{" + cm + ",".join(parts) + trailing + sp() + "}"


def canon(v):
    """The harness' canonical form (sorted keys, Go's string escapes, 'g' number format)."""
    if isinstance(v, bool):
        return "true" if v else "false"
    if v is None:
        return "null"
    if isinstance(v, int):
        return str(v)
    if isinstance(v, float):
        return str(int(v)) if v == int(v) else repr(v)
    if isinstance(v, str):
        return '"' + v.replace("\\", "\\\\").replace('"', '\\"') + '"'
    if isinstance(v, list):
        return "[" + ",".join(canon(e) for e in v) + "]"
    return "{" + ",".join(canon(k) + ":" + canon(v[k]) for k in sorted(v, key=lambda z: z.encode())) + "}"


BROKEN_J5 = ['{a:}', '{a 1}', '{a:1,,}', '{"a:1}', "{a:[1,2}", "{a:'x}", "{a:1 b:2}", "{a:01x}", "{:1}", "{a:tru}",
             "{a:{b:1}", "{a:1}}", "{[}", '{a:"x" "y"}', "{a:@}", "{{}", "{a:1} }"]


def gen_descr(rng, allow_close=False):
    words = ["the", "user", "id", "see", "(opt)", "{x}", "a,b", "@Query", "v1.2", "{", "}", ")", "(", "})x", "}}",
             "//", "/*", "\x0b", "-", "200", "OK", "e.g.", "k:v", '"q"', "'", "\\"] + UNI
    n = rng.choice([1, 1, 2, 3, 4, 6])
    seps = [" ", " ", " ", "  ", "\t", "\u00a0", "\u3000"]
    out = rng.choice(words)
    for _ in range(n - 1):
        out += rng.choice(seps) + rng.choice(words)
    b = out.encode()
    b = go_trim_space(b)
    if not b or b[0] in RE_WS or b"\n" in b:
        return b"text"
    if not allow_close and false_close(b):
        return b.replace(b"})", b"}>")
    return b


def annot_item(rng, n, v, jt, d, fancy=True):
    """Build the raw line for the labelled parts.  jt: bytes or None."""
    raw = b"// @" + n
    if v:
        raw += b"(" + v
        if jt is not None:
            raw += (rng.choice([b"", b"", b"\t"]) if fancy else b"") + b"," + \
                   (rng.choice([b" ", b" ", b"", b"  ", b"\t", b" \t"]) if fancy else b" ") + jt
        raw += b")"
    if d:
        raw += (rng.choice([b" ", b" ", b" ", b"  ", b"\t", b" \t ", b"\x0c", b"\r "]) if fancy else b" ") + d
    if fancy and rng.random() < 0.15:
        raw += rng.choice([" ", "\t", "  ", "\x0b"] + UNI_WS).encode()
    return {"kind": "annot", "raw": raw, "n": n, "v": v, "j": jt, "d": d}


def gen_annot(rng, broken=False, f7=False):
    n = gen_name(rng).encode()
    has_v = rng.random() < 0.75 or broken or f7
    v = gen_value(rng).encode() if has_v else b""
    jt, jval = None, None
    if has_v and (rng.random() < 0.5 or broken or f7):
        if broken:
            jt = rng.choice(BROKEN_J5).encode()
        else:
            jval = gen_jobject(rng, rng.choice([0, 1, 1, 2, 3]))
            jt = j5_render(rng, jval).encode()
    has_d = rng.random() < 0.6 or f7
    d = gen_descr(rng) if has_d else b""
    if f7:
        d = rng.choice([b"see {x})", b"(opt {a:1}) here", b"}) tail", b"x })", b"a}) b}) c"])
    it = annot_item(rng, n, v, jt, d)
    it["jval"] = jval
    it["f7"] = bool(jt is not None and false_close(d))
    return it


FREE_FIXED = ["//", "// ", "//  ", "// some text", "//   indented text", "/// triple", "//no space", "// @", "// @ Name",
              "//@Name", "// @Name(", "// @Name()", "// @Name(a", "// @Name(a,b)", "// @Name(a, {x:1)", "// @Name(a, x:1})",
              "// @Näme", "// @Name(a!b)", "// @Name(a){x}", "/* @Name */", "// @Name(a) desc\nmore", "// @Name.x",
              "//  @Name", "// @Name(a, {x:1}", "// @Name(a, {x:1}))", "// @Name(a,, {x:1})", "// @Name(a)x", "// @Name(é)",
              "// @Name(a, {x:1}) d\ne", "// @Name(a, [1])", "// @Name (a)", "// @Name({x:1})", "// TODO: fix (later)",
              "// returns {id} for the user, see @Route", "", "/", "@Name", "// @Name\x0bd", "// @Name\u00a0d"]


# Free text that merely BEGINS the way a tool directive does (go/ast: "line ", "extern ", "export ", or
# [a-z0-9]+:[a-z0-9] right after the marker).  The property knows no such class: a comment line that is not
# of the annotation form is free text, with or without a blank after the marker - wrapped prose
# (`// line items of the order`, `// 16:30 on working days`) and genuine directives (`//go:generate x`,
# which go/parser leaves in the Doc list; only CommentGroup.Text() drops them) alike.
DIR_WORDS = ["line", "export", "extern"]
DIR_TOOLS = ["go", "nolint", "lint", "todo", "note", "see", "08", "16", "20", "0", "x", "a1", "9z", "http"]
DIR_REST = ["items of the order", "format of the report (csv or xlsx)", "warehouse and books the", "file.go:10", "name",
            "declaration; cut-off is at", "", " ", "x", "@Route(/x)", "résumé"]
DIR_AFTER = ["generate stringer -type=T", "build linux && amd64", "errcheck", "00 and 20:00 only", "9 video", "this is prose",
             "fix", "30 on working days", "embed x", "a", "0", "v", "1", "b c", "x  "]


def gen_directive_like(rng):
    """One line comment (bytes) that starts like a directive, next to near misses that do not."""
    lead = rng.choice(["", " ", " ", " ", "  ", "\t"])
    r = rng.random()
    if r < 0.4:
        w = rng.choice(DIR_WORDS)
        k = rng.random()
        if k < 0.15:
            w = w.capitalize()                       # near miss: upper case
        elif k < 0.25:
            w = w + rng.choice(["s", "ed", ":", "-"])    # near miss: another word
        rest = rng.choice(DIR_REST)
        body = w + (" " + rest if rest != "" or rng.random() < 0.5 else "")
    elif r < 0.9:
        t = rng.choice(DIR_TOOLS) if rng.random() < 0.7 else \
            "".join(rng.choice("abcxyz0189") for _ in range(rng.choice([1, 2, 3, 6])))
        k = rng.random()
        if k < 0.12:
            t = t.capitalize() if t.capitalize() != t else t + "X"     # near miss: `Note:this`
        after = rng.choice(DIR_AFTER)
        if k > 0.9:
            after = rng.choice([" spaced", "Upper", "", "é", ":", "-x"])   # near misses after the colon
        body = t + ":" + after
    else:
        body = rng.choice(["line", "export", "extern", "a:", ":a", "a:b", "0:0", "go:generate", "a b:c", "//go:build x",
                           "line\tx", "export\u00a0x", "-a:b", "_a:b", "é:a"])
    return ("//" + lead + body).encode()


DIRECTIVE_RE = re.compile(rb"(?:line |extern |export |[a-z0-9]+:[a-z0-9])")


def directive_like(raw):
    """None, "no blank" (go/ast's directive form) or "after blanks" (prose that begins the same way)."""
    if not raw.startswith(b"//") or shaped(raw):
        return None
    if DIRECTIVE_RE.match(raw[2:]):
        return "no blank"
    return "after blanks" if raw[2:3] in (b" ", b"\t") and DIRECTIVE_RE.match(raw[2:].lstrip(b" \t")) else None


def mutate_bytes(rng, b):
    if not b:
        return b
    k = rng.randrange(len(b) + 1)
    r = rng.random()
    if r < 0.4:
        return b[:k] + b[k + 1:]
    if r < 0.8:
        return b[:k] + rng.choice([b")", b"(", b"}", b"{", b",", b" ", b"\t", b"@", b"/", b"\n", b"x", b"\xc3\xa9"]) + b[k:]
    return b[:k] + b[k:k + 3] + b[k:]


def gen_free(rng):
    """A line meant to be free text; classified afterwards (a near miss may be shaped by accident)."""
    r = rng.random()
    if r < 0.15:
        raw = gen_directive_like(rng)
    elif r < 0.45:
        raw = rng.choice(FREE_FIXED).encode()
    elif r < 0.75:
        words = ["the", "quick", "fox", "@Query", "(a)", "{b}", "see", "TODO", "x,y"] + UNI
        raw = ("//" + rng.choice(["", " ", " ", "  "]) + " ".join(rng.choice(words) for _ in range(rng.randint(0, 5))) +
               rng.choice(["", "", " ", "  "])).encode()
    else:
        raw = gen_annot(rng)["raw"]
        for _ in range(rng.choice([1, 1, 2])):
            raw = mutate_bytes(rng, raw)
    return classify_raw(raw)


def classify_raw(raw):
    if shaped(raw):
        return {"kind": "other", "raw": raw}
    return {"kind": "free", "raw": raw}


def gen_other(rng):
    """Correspondence-only lines: leading white space (the groups are then cut at shifted offsets),
    unicode white space around, arbitrary mutations."""
    raw = gen_annot(rng)["raw"] if rng.random() < 0.7 else rng.choice(FREE_FIXED).encode()
    r = rng.random()
    if r < 0.4:
        raw = rng.choice([" ", "  ", "\t", "\u00a0", "\u3000 ", "\x0b"]).encode() + raw
    elif r < 0.7:
        for _ in range(rng.choice([1, 2, 3])):
            raw = mutate_bytes(rng, raw)
    else:
        raw = raw + rng.choice([" ", "\n", "\u2003", "\x0b\x0b", " \u0085 "]).encode()
    return {"kind": "other", "raw": raw}


def source_clean(b):
    """Bytes that may stand inside a general comment of a Go source text and come back unchanged."""
    return b.replace(b"*/", b"*|").replace(b"\r", b" ").replace(b"\x00", b" ")


GC_ONE = ["/**/", "/* */", "/* text */", "/*text*/", "/* @Route(/x) */", "/*// @Method(GET)*/", "/* // @Description no */",
          "/* a }) b */", "/** doc **/", "/* résumé 日本 */", "/*@Name*/", "/* @Name(a, {x:1}) d */", "/*\t*/", "/* * */"]


def gen_gcomment(rng, multi=None):
    """A general comment /* ... */ as go/ast hands it over: ONE comment of the list whatever it contains
    (line feeds, lines that look like annotations); it is free text and never an attribute."""
    if multi is None:
        multi = rng.random() < 0.55
    if not multi:
        if rng.random() < 0.6:
            return rng.choice(GC_ONE).encode()
        return b"/*" + source_clean(gen_annot(rng)["raw"].replace(b"\n", b" ")) + rng.choice([b"*/", b" */"])
    lines = []
    for _ in range(rng.choice([1, 1, 2, 2, 3, 4])):
        r = rng.random()
        if r < 0.35:
            lines.append(rng.choice([b"Lists the widgets.", b"ordered by time", "résumé (x)".encode(), b"", b" ", b"  indented",
                                     b"see @Route", b"TODO: }) later"]))
        elif r < 0.6:
            lines.append(rng.choice([b"// @Description not a description", b"// @Method(GET)", b"// @Route(/inside)",
                                     b"@Query(a) b", b"// @Hidden", b"// plain"]))
        elif r < 0.8:
            lines.append(gen_annot(rng)["raw"].replace(b"\n", b" "))
        else:
            lines.append(b" * " + rng.choice([b"starred", b"@Route(/x)", b"", b"// @Tag(t)"]))
    style = rng.random()
    if style < 0.5:
        raw = b"/*\n" + b"\n".join(lines) + b"\n*/"
    elif style < 0.8:
        raw = b"/* " + b"\n".join(lines) + b" */"
    else:
        raw = b"/*" + b"\n".join(lines) + b"\n\n */"
    return b"/*" + source_clean(raw[2:-2]) + b"*/"


def gen_lead(rng, more=()):
    """A line of the leading free-text run (the wrapped description GetDescription reads)."""
    if rng.random() < 0.25:
        return classify_raw(gen_directive_like(rng))
    return classify_raw(rng.choice([b"//", b"// ", b"// lead text", "// résumé (x)".encode(), b"//  two"] + list(more)))


def gen_cblock(rng):
    """Blocks with general comments among the lines, mostly in the leading free-text run (where
    GetDescription reads them) and followed by more free text; now and then the next comment stands on
    the line on which the general comment ends."""
    items = []
    for _ in range(rng.choice([1, 1, 2, 2, 3, 4])):
        if rng.random() < 0.5:
            items.append(classify_raw(gen_gcomment(rng)))
        else:
            items.append(gen_lead(rng, [b"// Archived widgets are left out."]))
    for _ in range(rng.choice([0, 1, 2, 3, 5])):
        r = rng.random()
        if r < 0.45:
            items.append(gen_annot(rng))
        elif r < 0.7:
            items.append(classify_raw(gen_gcomment(rng)))
        else:
            items.append(gen_free(rng))
    if rng.random() < 0.3:
        rng.shuffle(items)
    for k in range(1, len(items)):
        if items[k - 1]["raw"].startswith(b"/*") and items[k]["raw"][:2] in (b"//", b"/*") and rng.random() < 0.2:
            items[k] = dict(items[k], join=True)
    return items


def gen_block(rng, kind):
    """kind: line (one annotation), free1, block, malformed, f7, other, cblock (general comments)"""
    if kind == "cblock":
        return gen_cblock(rng)
    if kind == "line":
        return [gen_annot(rng)]
    if kind == "free1":
        return [gen_free(rng)]
    if kind == "f7":
        pre = [x for x in (gen_free(rng) for _ in range(rng.choice([0, 1]))) if x["kind"] == "free"]
        return pre + [gen_annot(rng, f7=True)] + [gen_annot(rng) for _ in range(rng.choice([0, 1]))]
    n = rng.choice([0, 1, 2, 3, 3, 4, 5, 6, 8])
    items = []
    lead = rng.choice([0, 0, 1, 2, 3]) if kind != "other" else 0
    for _ in range(lead):
        items.append(gen_lead(rng))
    for _ in range(n):
        r = rng.random()
        if kind == "other" and r < 0.4:
            items.append(gen_other(rng))
        elif r < 0.6:
            items.append(gen_annot(rng))
        else:
            items.append(gen_free(rng))
    if kind == "malformed":
        items.insert(rng.randrange(len(items) + 1), gen_annot(rng, broken=True))
    if kind == "other" and not any(i["kind"] == "other" for i in items):
        items.append(gen_other(rng))
    return items


def oracle_applicable(block):
    return all(it["kind"] != "other" for it in block)


def lead_multiline(block):
    """A multi-line general comment inside the leading free-text run, non-empty free text after it."""
    seen = False
    for it in block:
        if it["kind"] != "free":
            return False
        if seen and free_value(it["raw"]):
            return True
        if it["raw"].startswith(b"/*") and b"\n" in it["raw"]:
            seen = True
    return False


def leading_run(block):
    out = []
    for it in block:
        if it["kind"] != "free":
            break
        out.append(it)
    return out


def key_stats(blocks):
    objs = [it["jval"] for b in blocks for it in b if it["kind"] == "annot" and isinstance(it.get("jval"), dict)]
    return {"objects": len(objs),
            "with_an_upper_case_letter_in_a_top_level_key": sum(1 for o in objs if any(k != k.lower() for k in o)),
            "with_two_top_level_keys_equal_up_to_case": sum(1 for o in objs if len({k.lower() for k in o}) < len(o)),
            "with_an_upper_case_letter_in_a_nested_key": sum(1 for o in objs if any(nested_upper(e) for e in o.values()))}


def nested_upper(v):
    if isinstance(v, dict):
        return any(k != k.lower() or nested_upper(e) for k, e in v.items())
    return isinstance(v, list) and any(nested_upper(e) for e in v)


DECLS = ["func", "func", "type", "field", "const"]


def comment_in_source(raw):
    """The bytes are one comment of a Go source text and go/scanner hands them back unchanged."""
    try:
        t = raw.decode("utf-8")
    except UnicodeDecodeError:
        return False
    if "\x00" in t or "\r" in t or "\ufeff" in t:
        return False
    if raw.startswith(b"//"):
        return b"\n" not in raw
    return len(raw) >= 4 and raw.startswith(b"/*") and raw.find(b"*/", 2) == len(raw) - 2


def source_spec(block):
    """How the block is written as the doc comment of a declaration (None: it cannot be - e.g. text with
    leading white space, which go/ast never hands over)."""
    if not all(comment_in_source(it["raw"]) for it in block):
        return None
    joins = [bool(it.get("join")) for it in block]
    for k, j in enumerate(joins):
        if j and (k == 0 or not block[k - 1]["raw"].startswith(b"/*")):
            return None          # only a general comment leaves room on its line
    crc = zlib.crc32(b"\x00".join(it["raw"] for it in block))
    decl = DECLS[crc % len(DECLS)]
    # go/scanner itself obeys `//line file:n` when the comment starts in column 1 (and `/*line file:n*/` anywhere):
    # the positions of what follows change and go/parser no longer sees one comment group.  Such a comment
    # is written where it is an ordinary comment: in front of an indented declaration.
    if any(it["raw"].startswith(b"/*line ") for it in block):
        return None
    if decl in ("func", "type") and any(it["raw"].startswith(b"//line ") and not j for it, j in zip(block, joins)):
        decl = ("field", "const")[(crc >> 8) & 1]
    return {"joins": joins, "decl": decl}


# ------------------------------------------------------------------ evaluation

HEADER = """From Gleece Require Import Base.Bytes Model.Annot.
From Coq Require Import String.
Definition A raw n v j d := IAnnot raw n v j d.
Definition F raw := IFree raw.
Definition OA n v p d := {| o_name := n; o_value := v; o_props := p; o_descr := d |}.
Definition OB e a f d := {| ob_err := e; ob_attrs := a; ob_frees := f; ob_description := d |}.
(* id, what was written, the holder of the hand-built comment list, the holder of the comment block that
   go/parser + gast.MapDocListToCommentBlock give for the same comments written in a source text *)
Definition case := (nat * (list item + list str) * obs * option obs)%type.
Definition cid (c : case) : nat := fst (fst (fst c)).
Definition inp (c : case) := snd (fst (fst c)).
Definition hand (c : case) : obs := snd (fst c).
Definition parsed (c : case) : option obs := snd c.
Definition lines_of (c : case) : list str :=
  match inp c with inl its => map item_raw its | inr ls => ls end.
"""

FOOTER = """Definition on_parsed (c : case) (f : obs -> bool) : bool :=
  match parsed c with Some o => f o | None => true end.
Record verdict := { v_id : nat; v_agree : bool; v_pagree : bool; v_holds : bool; v_pholds : bool }.
Definition judge (c : case) : verdict :=
  let m := model_obs tbl (lines_of c) in
  {| v_id := cid c;
     v_agree := obs_eqb m (hand c);
     v_pagree := on_parsed c (obs_eqb m);
     v_holds := match inp c with inl its => prop_C16 its (hand c) | inr _ => true end;
     v_pholds := match inp c with inl its => on_parsed c (prop_C16 its) | inr _ => true end |}.
Definition wfgen (c : case) : bool :=
  match inp c with inl its => forallb wf_item its | inr _ => true end.
Definition verdicts := Eval vm_compute in map judge cases.
Definition disagree := Eval vm_compute in map v_id (filter (fun v => negb (v_agree v)) verdicts).
Definition pdisagree := Eval vm_compute in map v_id (filter (fun v => negb (v_pagree v)) verdicts).
Definition propfail := Eval vm_compute in map v_id (filter (fun v => negb (v_holds v)) verdicts).
Definition ppropfail := Eval vm_compute in map v_id (filter (fun v => negb (v_pholds v)) verdicts).
Definition wffail := Eval vm_compute in map cid (filter (fun c => negb (wfgen c)) cases).
Definition tags := Eval vm_compute in flat_map (fun c => map branch_tag (lines_of c)) cases.
Print disagree.
Print pdisagree.
Print propfail.
Print ppropfail.
Print wffail.
Print tags.
"""


def hexs(b):
    return b.hex()


def unhex(h):
    return bytes.fromhex(h)


def obs_of(o):
    return {"err": o["err"], "errmsg": o.get("errmsg", ""),
            "attrs": [(unhex(a["name"]), unhex(a["value"]),
                       None if a["props"] is None else unhex(a["props"]), unhex(a["descr"]))
                      for a in o["attrs"]],
            "frees": [(f["index"], unhex(f["value"])) for f in o["frees"]],
            "description": unhex(o["description"])}


def run_impl(blocks, j5texts):
    """Returns (hand-built path, parsed-source path (None where not applicable, {"skip":..} where the
    parser did not give the comments back), json5 answers)."""
    out = implrun("annot", {"blocks": [[hexs(it["raw"]) for it in b] for b in blocks],
                            "json5": [hexs(t) for t in j5texts],
                            "source": [source_spec(b) for b in blocks]})
    obs = [obs_of(o) for o in out["blocks"]]
    parsed = []
    for o in out["parsed"]:
        if o is None:
            parsed.append(None)
        elif o.get("skip"):
            parsed.append({"skip": o["skip"], "source": unhex(o.get("source", ""))})
        else:
            po = obs_of(o)
            po["source"] = unhex(o.get("source", ""))
            po["lines"] = o.get("lines") or []
            parsed.append(po)
    j5 = [None if x is None else unhex(x) for x in out["json5"]]
    return obs, parsed, j5


def coq_opt(x, f):
    return "None" if x is None else "(Some %s)" % f(x)


def coq_item(it, j5ans):
    if it["kind"] == "annot":
        if it["j"] is None:
            j = "None"
        else:
            j = "(Some (%s, %s))" % (coq_bytes(it["j"]), coq_opt(j5ans[it["j"]], coq_bytes))
        return "A %s %s %s %s %s" % (coq_bytes(it["raw"]), coq_bytes(it["n"]), coq_bytes(it["v"]), j, coq_bytes(it["d"]))
    return "F %s" % coq_bytes(it["raw"])


def coq_obs(o):
    attrs = coq_list(["OA %s %s %s %s" % (coq_bytes(n), coq_bytes(v), coq_opt(p, coq_bytes), coq_bytes(d))
                      for (n, v, p, d) in o["attrs"]])
    frees = coq_list([coq_bytes(v) for (_, v) in o["frees"]])
    return "(OB %s %s %s %s)" % (coq_bool(o["err"]), attrs, frees, coq_bytes(o["description"]))


def evaluate(blocks, tag="cases"):
    """Returns dict(impl, parsed, disagree, propfail, wffail, tags, j5ans, path).  disagree / propfail name
    the blocks that fail on either path; path[i] says on which ("hand-built", "parsed-source")."""
    # JSON5 texts the oracle has to answer for: what the generator wrote, and what the model's matcher
    # takes as group 3 (a Python port computes it; a text the Coq model asks for and the table lacks
    # becomes a marker no implementation output equals, i.e. a disagreement, never a silent pass)
    texts = {}
    for b in blocks:
        for it in b:
            if it["kind"] == "annot" and it["j"] is not None:
                texts[it["j"]] = None
            g = py_groups(it["raw"])
            if g and g["json"] is not None:
                texts[g["json"]] = None
    tl = list(texts)
    impl, parsed, j5 = run_impl(blocks, tl)
    j5ans = dict(zip(tl, j5))
    res = dict(impl=impl, parsed=parsed, disagree=[], propfail=[], wffail=[], tags=[], j5ans=j5ans, path={},
               skipped=[i for i, p in enumerate(parsed) if p is not None and "skip" in p])
    SH = 300
    jobs = []
    for lo in range(0, len(blocks), SH):
        chunk = range(lo, min(lo + SH, len(blocks)))
        used = {}
        for i in chunk:
            for it in blocks[i]:
                if it["kind"] == "annot" and it["j"] is not None:
                    used[it["j"]] = None
                g = py_groups(it["raw"])
                if g and g["json"] is not None:
                    used[g["json"]] = None
        tbl = coq_list(["(%s, %s)" % (coq_bytes(t), coq_opt(j5ans[t], coq_bytes)) for t in used]).replace("; (", ";\n (")
        cs = []
        for i in chunk:
            if oracle_applicable(blocks[i]):
                body = "inl " + coq_list([coq_item(it, j5ans) for it in blocks[i]])
            else:
                body = "inr " + coq_list([coq_bytes(it["raw"]) for it in blocks[i]])
            po = parsed[i]
            cs.append("(%d, %s, %s, %s)" % (i, body, coq_obs(impl[i]),
                                            "None" if po is None or "skip" in po else "(Some %s)" % coq_obs(po)))
        text = HEADER + "Definition tbl : list (str * option str) :=\n " + tbl + ".\n" + \
            "Definition cases : list case :=\n [" + ";\n  ".join(cs) + "].\n" + FOOTER
        jobs.append(("%s_%d" % (tag, lo), text))
    # the chunks are independent Coq files: evaluate a few at a time
    with ThreadPoolExecutor(max_workers=min(6, max(1, len(jobs)))) as ex:
        outs = list(ex.map(lambda j: run_coq_file(PROP, j[0], j[1]), jobs))
    for out in outs:
        for key, name, path in [("disagree", "disagree", "hand-built"), ("disagree", "pdisagree", "parsed-source"),
                                ("propfail", "propfail", "hand-built"), ("propfail", "ppropfail", "parsed-source")]:
            for i in parse_nat_list(out, name):
                if i not in res[key]:
                    res[key].append(i)
                res["path"].setdefault((key, i), []).append(path)
        res["wffail"] += parse_nat_list(out, "wffail")
        res["tags"] += parse_nat_list(out, "tags")
    res["disagree"].sort()
    res["propfail"].sort()
    return res


def show_block(block):
    out = []
    for it in block:
        e = {"kind": it["kind"], "raw": it["raw"].decode("utf-8", "backslashreplace"), "raw_hex": hexs(it["raw"])}
        if it.get("join"):
            e["same_source_line_as_previous_comment"] = True
        if it["kind"] == "annot":
            e.update(name=it["n"].decode(), value=it["v"].decode("utf-8", "backslashreplace"),
                     json5=None if it["j"] is None else it["j"].decode("utf-8", "backslashreplace"),
                     description=it["d"].decode("utf-8", "backslashreplace"))
        out.append(e)
    return out


def show_obs(o):
    dec = lambda b: None if b is None else b.decode("utf-8", "backslashreplace")
    return {"error": o["err"], "errmsg": o["errmsg"],
            "attributes": [dict(name=dec(n), value=dec(v), properties=dec(p), description=dec(d)) for (n, v, p, d) in o["attrs"]],
            "free_text": [dict(index=i, value=dec(v)) for (i, v) in o["frees"]],
            "GetDescription": dec(o["description"])}


def block_from_replay(rp):
    items = []
    for e in rp["input"]:
        raw = unhex(e["raw_hex"])
        if e["kind"] == "annot":
            items.append({"kind": "annot", "raw": raw, "n": e["name"].encode(), "v": e["value"].encode(),
                          "j": None if e["json5"] is None else e["json5"].encode(),
                          "d": e["description"].encode(), "f7": False})
            items[-1]["f7"] = bool(items[-1]["j"] is not None and false_close(items[-1]["d"]))
        else:
            items.append(classify_raw(raw) if e["kind"] != "other" else {"kind": "other", "raw": raw})
        if e.get("same_source_line_as_previous_comment"):
            items[-1]["join"] = True
    return items


def show_parsed(p):
    """The parsed-source path of one block, for a replay."""
    if p is None:
        return None
    if "skip" in p:
        return {"skipped": p["skip"], "go_source": p["source"].decode("utf-8", "backslashreplace")}
    o = show_obs(p)
    o["go_source"] = p["source"].decode("utf-8", "backslashreplace")
    o["source_line_of_each_comment"] = p["lines"]
    return o


# ------------------------------------------------------------------ shrinking

def simpler_items(it):
    """Smaller variants of one item (labels stay consistent: annotation lines are re-rendered plainly)."""
    out = []
    if it["kind"] == "annot":
        rr = random.Random(0)
        n, v, j, d = it["n"], it["v"], it["j"], it["d"]
        plain = annot_item(rr, n, v, j, d, fancy=False)
        if plain["raw"] != it["raw"]:
            out.append(plain)
        if d:
            out.append(annot_item(rr, n, v, j, b"", fancy=False))
            ws = d.split(b" ")
            for k in range(len(ws)):
                nd = b" ".join(ws[:k] + ws[k + 1:])
                if nd and nd[0] not in RE_WS and go_trim_space(nd) == nd:
                    out.append(annot_item(rr, n, v, j, nd, fancy=False))
        if j is not None:
            out.append(annot_item(rr, n, v, None, d, fancy=False))
            out.append(annot_item(rr, n, v, b"{}", d, fancy=False))
            out.append(annot_item(rr, n, v, b"{a:1}", d, fancy=False))
            jv = it.get("jval")
            if isinstance(jv, dict):
                # smaller objects: one key less, one key alone, scalar values; then the same object spelled plainly
                subs = [{k: e for k, e in jv.items() if k != drop} for drop in jv] if len(jv) > 1 else []
                subs += [{k: jv[k]} for k in jv] if len(jv) > 1 else []
                subs += [dict(jv, **{k: 1}) for k in jv if isinstance(jv[k], (dict, list, str)) and jv[k] != 1]
                subs.append(jv)
                for sub in subs:
                    c = annot_item(rr, n, v, j5_plain(sub).encode(), d, fancy=False)
                    if c["raw"] != it["raw"] and b"\n" not in c["j"]:
                        c["jval"] = sub
                        out.append(c)
        if v and j is None:
            out.append(annot_item(rr, n, b"", None, d, fancy=False))
        if len(v) > 1:
            out.append(annot_item(rr, n, v[:1], j, d, fancy=False))
            out.append(annot_item(rr, n, b"a", j, d, fancy=False))
        if len(n) > 1 and n != b"Description":
            out.append(annot_item(rr, b"A", v, j, d, fancy=False))
        for o in out:
            o["f7"] = bool(o["j"] is not None and false_close(o["d"]))
            if o["j"] == j and "jval" in it:
                o["jval"] = it["jval"]
    else:
        raw = it["raw"]
        if raw.startswith(b"/*"):
            # a general comment: the smallest ones of its kind first
            for cand in ([b"/*\n*/", b"/*\na\n*/"] if b"\n" in raw else []) + [b"/**/", b"// a", b"//"]:
                if cand != raw and len(cand) < len(raw):
                    out.append(classify_raw(cand))
        L = len(raw)
        step = max(1, L // 4)
        while step >= 1:
            for k in range(0, L, step):
                cand = raw[:k] + raw[k + step:]
                try:
                    cand.decode("utf-8")
                except UnicodeDecodeError:
                    continue
                if raw[:3] == b"// " and cand[:2] == b"//" and len(cand) > 2 and cand[2:3] != b" ":
                    continue      # prose stays prose: `// x:y` is not shrunk to the directive form `//x:y`
                c = classify_raw(cand)
                if it["kind"] == "other":
                    c = {"kind": "other", "raw": cand}
                out.append(c)
            step //= 2
    return out[:40]


def shrink(block, fails_many):
    """Greedy: drop lines, then simplify lines.  fails_many(list of blocks) -> list of bool (one batch run)."""
    cur = list(block)
    for _ in range(30):
        cands = [cur[:k] + cur[k + 1:] for k in range(len(cur))] if len(cur) > 1 else []
        for k, it in enumerate(cur):
            for s_ in simpler_items(it):
                cands.append(cur[:k] + [s_] + cur[k + 1:])
        if not cands:
            break
        verdict = fails_many(cands)
        pick = next((c for c, bad in zip(cands, verdict) if bad), None)
        if pick is None:
            break
        cur = pick
    return cur


# ------------------------------------------------------------------ main

PATHS = {"hand-built": "annotations.NewAnnotationHolder on a hand-built gast.CommentBlock (Index = position in the list)",
         "parsed-source": "the comments written as the doc comment of a declaration, go/parser, "
                          "gast.MapDocListToCommentBlock / GetCommentsFromNode, annotations.NewAnnotationHolder"}

F7_TITLE = "a description containing a later '})' makes the greedy JSON5 group over-capture"


def f7_class(block):
    return any(it["kind"] == "annot" and it.get("f7") for it in block)


def without_f7(block):
    return [it for it in block if not (it["kind"] == "annot" and it.get("f7"))]


def main():
    a, seed = args_for(PROP)
    res = Result(PROP, a.tier, seed)
    rng = random.Random(seed)
    if not os.environ.get("VERIF_SKIP_COQ_BUILD"):      # development switch only
        build_coq()
    build_harness()
    if os.path.exists(os.path.join(COQ, "Properties", PROP + ".v")):
        proof_coverage(PROP, res)
    else:
        res.violation({"kind": "proof-obligation", "obligation": "coq/Properties/C16.v is missing"}, no_input=True)
    known_f7 = next((f for f in known_for(PROP) if f.get("id") == "F7"), None)

    blocks, kinds = [], []
    corpus_file = os.path.join(CORPUS, "C16.json")
    if os.path.exists(corpus_file):
        for rp in json.load(open(corpus_file)):
            blocks.append(block_from_replay(rp))
            kinds.append("corpus")
    ncorpus = len(blocks)
    if a.replay:
        blocks, kinds, ncorpus = [block_from_replay(json.load(open(a.replay)))], ["replay"], 0
    else:
        scale = 1 if a.tier == "quick" else 20
        plan = [("line", 440), ("free1", 160), ("block", 300), ("malformed", 80), ("other", 120), ("cblock", 200)]
        for kind, n in plan:
            for _ in range(n * scale):
                blocks.append(gen_block(rng, kind))
                kinds.append(kind)
        # the known finding's class is produced deliberately (F7), next to near misses of it
        for _ in range(2):
            blocks.append(gen_block(rng, "f7"))
            kinds.append("f7")
        blocks.append([annot_item(rng, b"Query", b"a", b'{name:"b"}', b"see {x})", fancy=False)])
        blocks[-1][0]["f7"] = True
        kinds.append("f7")
        blocks.append([annot_item(rng, b"Query", b"a", b'{name:"b"}', b"see {x})y and })z", fancy=False)])
        blocks[-1][0]["f7"] = False
        kinds.append("line")

        # the shapes of the parsed-source path, written out: a general comment is one entry of the list
        # whatever it spans, free text, and what follows it still belongs to the leading free-text run
        F_ = lambda t, **kw: dict(classify_raw(t.encode()), **kw)
        for fixed in [
            [F_("/*\nListWidgets returns every widget.\nOrdered by creation time.\n*/"), F_("// Archived widgets are left out."),
             annot_item(rng, b"Method", b"GET", None, b"", fancy=False)],
            [F_("/* one line */"), F_("// after"), F_("//"), annot_item(rng, b"Route", b"/list", None, b"", fancy=False), F_("// late")],
            [F_("// first"), F_("/*\n// @Description not this one\n// @Method(POST)\n*/"), F_("// third")],
            [F_("/* a */"), F_("// same line", join=True), F_("/* b\n c */"), F_("/* d */", join=True), F_("// last")],
            [F_("/*\n\n\n*/"), F_("/**/"), F_("// x"), annot_item(rng, b"Description", b"", None, b"the text", fancy=False)],
            # wrapped prose whose lines begin like tool directives, and genuine directives: free text all the same
            [F_("// Ships the parcel to an"), F_("// extern warehouse and books the"), F_("// export declaration; cut-off is at"),
             F_("// 16:30 on working days"), F_("//"), annot_item(rng, b"Method", b"POST", None, b"", fancy=False),
             F_("// see the carrier contract"), annot_item(rng, b"Route", b"/ship", None, b"", fancy=False)],
            [F_("// line items of the order")],
            [F_("//go:generate stringer -type=T"), F_("// Lists the widgets."), F_("//nolint:errcheck"),
             annot_item(rng, b"Method", b"GET", None, b"", fancy=False), F_("//line file.go:10"), F_("//export name")],
        ]:
            blocks.append(fixed)
            kinds.append("cblock")

    ev = evaluate(blocks)
    impl, j5ans = ev["impl"], ev["j5ans"]
    if ev["skipped"] and not a.replay:
        i = ev["skipped"][0]
        raise RuntimeError("generator: go/parser does not hand back the comments of a block that was taken for "
                           "writable as a doc comment (%s): %r" % (ev["parsed"][i]["skip"], show_block(blocks[i])))
    if ev["wffail"]:
        i = ev["wffail"][0]
        raise RuntimeError("generator produced an ill-labelled block (wf_item fails): %r" % show_block(blocks[i]))

    # generator self-check: the library oracle agrees with the value the generator rendered
    j5_mismatch = []
    for b in blocks:
        for it in b:
            if it["kind"] == "annot" and it.get("jval") is not None:
                want = canon(it["jval"]).encode()
                if j5ans.get(it["j"]) != want:
                    j5_mismatch.append((it["j"], j5ans.get(it["j"]), want))
    if j5_mismatch:
        raise RuntimeError("json5 oracle differs from the generator's own value (generator or canonical form "
                           "is off): %r" % (j5_mismatch[:3],))

    def fails_prop_many(cands):
        r = evaluate(cands, "shrink")
        bad = set(r["propfail"]) | set(r["wffail"])
        return [(i in set(r["propfail"])) and (i not in set(r["wffail"])) for i in range(len(cands))]

    def fails_agree_many(cands):
        r = evaluate(cands, "shrink")
        return [i in set(r["disagree"]) for i in range(len(cands))]

    def claim_of(block, o):
        if any(it["kind"] == "annot" and it["j"] is not None and j5ans.get(it["j"], 0) is None for it in block):
            return "malformed JSON5 must be reported as an error"
        if o["err"]:
            return "a block whose JSON5 parts are all well formed must not fail (error: %s)" % o["errmsg"]
        return "attributes (name, value, properties, description; source order), free-text lines and " \
               "GetDescription must equal what was written"

    # oracle failures: split into the known finding's class and everything else
    propfail = list(ev["propfail"])
    known_hits, real = [], []
    if propfail:
        cand = [i for i in propfail if f7_class(blocks[i])]
        if cand:
            r2 = evaluate([without_f7(blocks[i]) for i in cand], "f7")
            still = set(r2["propfail"])
            for k, i in enumerate(cand):
                (real if k in still else known_hits).append(i)
        real += [i for i in propfail if not f7_class(blocks[i])]
    if known_hits and known_f7 is None:
        real += known_hits          # no entry in known_findings.json: an ordinary violation
        known_hits = []
    for i in known_hits[:2]:
        it = next(x for x in blocks[i] if x["kind"] == "annot" and x.get("f7"))
        res.known(known_f7, "%s: %r -> %s" % (F7_TITLE, it["raw"].decode("utf-8", "backslashreplace"),
                                              "error: " + impl[i]["errmsg"] if impl[i]["err"] else "wrong attribute"))

    for i in sorted(real)[:3]:
        small = shrink(blocks[i], fails_prop_many)
        r3 = evaluate([small], "final")
        paths = r3["path"].get(("propfail", 0), [])
        shown = r3["parsed"][0] if paths == ["parsed-source"] else r3["impl"][0]
        res.violation({"kind": "property-fails-on-implementation", "input": show_block(small),
                       "fails_on": [PATHS[p_] for p_ in paths],
                       "implementation_output": show_obs(r3["impl"][0]),
                       "implementation_output_parsed_source": show_parsed(r3["parsed"][0]),
                       "claim": claim_of(small, shown),
                       "f7_class": f7_class(small)})

    disagree = [i for i in ev["disagree"]]
    if not real and disagree:
        # the model no longer describes the code: look harder for an input on which the property fails
        extra, ek = [], []
        for kind, n in [("line", 1500), ("block", 900), ("malformed", 300), ("free1", 300), ("cblock", 600)]:
            for _ in range(n):
                extra.append(gen_block(rng, kind))
        r4 = evaluate(extra, "widen")
        pf = [i for i in r4["propfail"] if i not in set(r4["wffail"]) and not f7_class(extra[i])]
        if pf:
            small = shrink(extra[pf[0]], fails_prop_many)
            r5 = evaluate([small], "final")
            res.violation({"kind": "property-fails-on-implementation", "input": show_block(small),
                           "fails_on": [PATHS[p_] for p_ in r5["path"].get(("propfail", 0), [])],
                           "implementation_output": show_obs(r5["impl"][0]),
                           "implementation_output_parsed_source": show_parsed(r5["parsed"][0]),
                           "claim": claim_of(small, r5["impl"][0])})
        else:
            small = shrink(blocks[disagree[0]], fails_agree_many)
            r5 = evaluate([small], "final")
            res.violation({"kind": "correspondence", "obligation": "corr:Annot.model_obs (parse_line / holder / description)",
                           "input": show_block(small), "implementation_output": show_obs(r5["impl"][0]),
                           "disagrees_on": [PATHS[p_] for p_ in r5["path"].get(("disagree", 0), [])],
                           "implementation_output_parsed_source": show_parsed(r5["parsed"][0]),
                           "note": "model and implementation disagree on %d of %d blocks; the property oracle found no "
                                   "failing input in %d + %d blocks" % (len(disagree), len(blocks), len(blocks), len(extra))},
                          no_input=True)

    # evidence
    tagnames = ["not-attribute", "name", "name+descr", "value", "value+descr", "value+json", "value+json+descr"]
    tagc = {}
    for t in ev["tags"]:
        tagc[tagnames[t]] = tagc.get(tagnames[t], 0) + 1
    kindc, sizes = {}, {}
    for k, b in zip(kinds, blocks):
        kindc[k] = kindc.get(k, 0) + 1
        sizes[len(b)] = sizes.get(len(b), 0) + 1
    nonascii = sum(1 for b in blocks for it in b if any(c >= 0x80 for c in it["raw"]))
    distinct = set()
    for b, o in zip(blocks, impl):
        if o["err"] or o["attrs"]:
            distinct.add(b"\n".join(it["raw"] for it in b))
    nlines = sum(len(b) for b in blocks)
    res.coverage.update({
        "evaluations": len(blocks), "lines": nlines, "distinct_nontrivial": len(distinct),
        "rule": "seeded comment blocks: single annotation lines from the grammar (names, values over [\\w-_/\\\\{} ], "
                "nested JSON5 with braces/parentheses/commas/'})' inside strings and comments, multibyte descriptions, "
                "\\s and unicode white space as separators/trailers), single free/near-miss lines, blocks of 0-11 "
                "lines interleaving both (leading free text, @Description, empty comments), a malformed stream "
                "(broken JSON5, byte-level mutations) and correspondence-only lines (leading white space); JSON5 keys in "
                "lower, upper and mixed case incl. keys of one object that differ in case only; blocks with general "
                "comments /* */ (one line, several lines, annotation-shaped lines inside, the next comment on the same "
                "source line); free-text lines that begin the way tool directives do (`// line items ...`, `// 16:30 on ...`, "
                "`//go:generate x`), alone, inside blocks and in the leading description run; every block that can be written as a doc comment is ALSO written into a Go source text "
                "(doc comment of a method, type, struct field or constant), parsed with go/parser and mapped by "
                "gast.MapDocListToCommentBlock / GetCommentsFromNode, and judged by the same model and oracle; "
                "non-trivial = the implementation returned at least one attribute or an error; distinct = distinct "
                "byte-exact blocks",
        "samples": [{"input": show_block(blocks[i]), "implementation": show_obs(impl[i])}
                    for i in range(ncorpus, min(len(blocks), ncorpus + 3))],
        "traces_validated_against_impl": len(blocks) - len(disagree),
        "disagreements": len(disagree), "property_oracle_failures": len(propfail),
        "property_oracle_failures_in_known_class_F7": len(known_hits),
        "oracle_evaluated_on_blocks": sum(1 for b in blocks if oracle_applicable(b)),
        "parsed_source_path": {
            "what": PATHS["parsed-source"] + "; judged by the same model and oracle as the hand-built list",
            "blocks": sum(1 for p_ in ev["parsed"] if p_ is not None and "skip" not in p_),
            "not_writable_as_a_doc_comment": sum(1 for p_ in ev["parsed"] if p_ is None),
            "identical_to_hand_built_path": sum(1 for p_, o in zip(ev["parsed"], impl) if p_ is not None and "skip" not in p_ and
                                                all(p_[k_] == o[k_] for k_ in ("err", "attrs", "frees", "description"))),
            "blocks_with_a_general_comment": sum(1 for b, p_ in zip(blocks, ev["parsed"]) if p_ is not None and
                                                 any(it["raw"].startswith(b"/*") for it in b)),
            "blocks_with_a_multi_line_general_comment": sum(1 for b, p_ in zip(blocks, ev["parsed"]) if p_ is not None and
                                                            any(it["raw"].startswith(b"/*") and b"\n" in it["raw"] for it in b)),
            "multi_line_general_comment_in_the_leading_free_run_followed_by_free_text":
                sum(1 for b, p_ in zip(blocks, ev["parsed"]) if p_ is not None and lead_multiline(b)),
            "comments_sharing_a_source_line": sum(1 for b, p_ in zip(blocks, ev["parsed"]) if p_ is not None
                                                  for it in b if it.get("join")),
            "declaration_kinds": {d: sum(1 for b, p_ in zip(blocks, ev["parsed"]) if p_ is not None and
                                         source_spec(b)["decl"] == d) for d in sorted(set(DECLS))},
        },
        "free_text_lines_starting_like_a_tool_directive": {
            "what": "`line `/`extern `/`export ` or [a-z0-9]+:[a-z0-9] at the start of the text: free text like any other line",
            "right_after_the_marker": sum(1 for b in blocks for it in b if directive_like(it["raw"]) == "no blank"),
            "after_blanks": sum(1 for b in blocks for it in b if directive_like(it["raw"]) == "after blanks"),
            "of_these_in_a_parsed_source_block": sum(1 for b, p_ in zip(blocks, ev["parsed"]) if p_ is not None and "skip" not in p_
                                                     for it in b if directive_like(it["raw"])),
            "of_these_in_the_leading_free_text_run": sum(1 for b in blocks for it in leading_run(b) if directive_like(it["raw"])),
        },
        "json5_top_level_keys": key_stats(blocks),
        "json5_oracle_texts": len(j5ans), "json5_oracle_errors": sum(1 for v in j5ans.values() if v is None),
        "input_distribution": {"block_kinds": kindc, "lines_per_block": sizes, "matcher_branch_per_line": tagc,
                               "lines_with_non_ascii_bytes": nonascii,
                               "blocks_with_error": sum(1 for o in impl if o["err"]),
                               "corpus_cases": ncorpus},
    })
    res.assumptions += [
        "titanous/json5 is an oracle: the harness applies the real json5.Unmarshal to the exact bytes of the model's group 3",
        "Go regexp leftmost-first semantics are modelled by the hand-written scanner Annot.match_text (validated by this "
        "correspondence run); go/parser (ParseComments) is trusted to hand over the comments of a doc comment group as "
        "written (the harness checks that it does, for every block)",
    ]
    sys.exit(res.finish())


if __name__ == "__main__":
    main()
