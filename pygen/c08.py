#!/usr/bin/env python3
"""C08 - Whenever a spec is emitted it is a valid, closed OpenAPI document."""
import copy
import json
import os
import random
import shutil
import sys

sys.path.insert(0, os.path.dirname(os.path.abspath(__file__)))
import common
from common import *  # noqa
import typegen as T
import schemacheck as S
import c07 as C07

PROP = "C08"
if os.environ.get("VERIF_KNOWN_FILE"):          # development only: try proposed entries
    common.KNOWN = os.environ["VERIF_KNOWN_FILE"]

CLS_ENUM30 = C07.CLS_ENUM30
CLS_PATHS = "path-template-and-path-parameters-differ-with-equal-counts"
CLAUSES = {1: "a $ref does not resolve", 2: "path template and required path parameters do not match one to one",
           3: "two parameters share a name in one location", 4: "a response has no description",
           5: "an enum value does not belong to the schema's type", 6: "info/servers/securitySchemes differ from the configuration",
           7: "a member of the document has not the JSON kind the OpenAPI schema prescribes (a security requirement maps each "
              "scheme to an ARRAY of scope names, required / tags are arrays of names, ...)"}


# ------------------------------------------------------------------ perturbations

def template_names(path):
    out, cur = [], None
    for ch in path:
        if cur is None:
            if ch == "{":
                cur = ""
        elif ch == "}":
            out.append(cur)
            cur = None
        else:
            cur += ch
    return out


def full_path(c, r):
    p = c["prefix"] + r["path"]
    while "//" in p:
        p = p.replace("//", "/")
    return p


def wire(p):
    return p["alias"] or p["name"]


def f6_paths(u):
    """F6 class: the documented routes whose template names differ from their path parameters although
    there are as many of each (which is all kin-openapi compares) AND whose own @Route is linked correctly:
    every variable of the METHOD's template is the name of one of its path parameters, so that what differs
    are variables of the controller's @Route (the part gleece never matches).  Returns their full paths."""
    out = set()
    for c in u["ctrls"]:
        for r in c["routes"]:
            if r["hidden"]:
                continue
            names = sorted(set(template_names(full_path(c, r))))
            ps = sorted(wire(p) for p in r["params"] if p["loc"] == "path")
            if names != ps and len(names) == len(ps) and set(template_names(r["path"])) <= set(ps):
                out.add(full_path(c, r))
    return out


def doc_paths_failing_clause2(spec):
    """Clause 2 read off the raw file, per path: the paths with an operation whose required path parameters
    are not exactly the variables of the template (python twin of Schema.paths_match, used ONLY to decide
    whether a clause-2 failure reported by the Coq oracle is confined to the routes of the F6 class)."""
    bad = set()
    paths = spec.get("paths") if isinstance(spec, dict) else None
    if not isinstance(paths, dict):
        return bad
    for path, item in paths.items():
        if not isinstance(item, dict):
            continue
        shared = item.get("parameters") if isinstance(item.get("parameters"), list) else []
        for verb in T.VERB_KEYS:
            op = item.get(verb)
            if not isinstance(op, dict):
                continue
            ps = [p for p in shared + (op.get("parameters") if isinstance(op.get("parameters"), list) else [])
                  if isinstance(p, dict) and p.get("in") == "path"]
            if sorted(template_names(path)) != sorted(str(p.get("name")) for p in ps) \
                    or not all(p.get("required") is True for p in ps):
                bad.add(path)
    return bad


def clause2_is_f6(u, spec):
    """The document's clause-2 failures all sit on routes of the F6 class of this project."""
    def norm(p):
        while "//" in p:
            p = p.replace("//", "/")
        return p.rstrip("/") or "/"
    f6 = set(norm(p) for p in f6_paths(u))
    bad = set(norm(p) for p in doc_paths_failing_clause2(spec))
    return bool(f6) and bool(bad) and bad <= f6


def neutralise(spec, v, u):
    """C07's neutraliser restricted to the classes that matter for C08 (the Rfc7807Error component stays)."""
    spec2, applied = C07.neutralise(spec, v, u)
    if C07.CLS_RFC in applied:
        applied.discard(C07.CLS_RFC)
        spec2["components"]["schemas"]["Rfc7807Error"] = spec["components"]["schemas"]["Rfc7807Error"]
    return spec2, applied


def scopeless_in_effect(u):
    """A documented route whose effective security comes from a @Security annotation (its own or the
    controller's) that has no scopes property."""
    for c in u["ctrls"]:
        for r in c["routes"]:
            eff = r["security"] or c["security"]
            if not r["hidden"] and any(not sc["scopes"] for sc in eff):
                return True
    return False


def pick_route(rng, u, want=None):
    cands = [(ci, ri) for ci, c in enumerate(u["ctrls"]) for ri, r in enumerate(c["routes"])
             if not r["hidden"] and (want is None or want(r))]
    return rng.choice(cands) if cands else None


def perturb(rng, base, kind):
    """Returns the perturbed universe or None when the kind does not apply."""
    u = copy.deepcopy(base)
    P = T.prim
    if kind == "missing-path-param":
        at = pick_route(rng, u, lambda r: any(p["loc"] == "path" for p in r["params"]))
        if at is None:
            at = pick_route(rng, u)
            if at is None:
                return None
            u["ctrls"][at[0]]["routes"][at[1]]["path"] += "/{zz}"
            return u
        r = u["ctrls"][at[0]]["routes"][at[1]]
        r["params"] = [p for p in r["params"] if p["loc"] != "path"][:] + [p for p in r["params"] if p["loc"] == "path"][1:]
        return u
    at = pick_route(rng, u)
    if at is None:
        return None
    c = u["ctrls"][at[0]]
    r = c["routes"][at[1]]
    if kind == "extra-path-param":
        r["params"].append({"name": "zz", "loc": "path", "alias": None, "type": P("string"), "validate": None})
    elif kind == "duplicate-query-name":
        r["params"].append({"name": "da", "loc": "query", "alias": "dup", "type": P("string"), "validate": None})
        r["params"].append({"name": "db", "loc": "query", "alias": "dup", "type": P("int"), "validate": None})
    elif kind == "same-name-two-locations":
        r["params"].append({"name": "da", "loc": "query", "alias": "dup", "type": P("string"), "validate": None})
        r["params"].append({"name": "db", "loc": "header", "alias": "dup", "type": P("int"), "validate": None})
    elif kind == "undeclared-scheme":
        r["security"] = [{"name": "ghost", "scopes": []}]
    elif kind == "no-leading-slash":
        c["prefix"] = ""
        for x in c["routes"]:
            x["path"] = x["path"].lstrip("/")
    elif kind == "prefix-param-unmatched":
        c["prefix"] = "/t/{tenant}"
    elif kind == "prefix-param-other-name":            # F6
        c["prefix"] = "/t/{tenant}"
        for x in c["routes"]:
            x["params"].append({"name": "ident", "loc": "path", "alias": None, "type": P("string"), "validate": None})
    elif kind == "prefix-param-matched":
        c["prefix"] = "/t/{tenant}"
        for x in c["routes"]:
            x["params"].append({"name": "tenant", "loc": "path", "alias": None, "type": P("string"), "validate": None})
    elif kind == "path-alias-not-in-url":
        r["path"] += "/{pa}"
        r["params"].append({"name": "pa", "loc": "path", "alias": "elsewhere", "type": P("string"), "validate": None})
    elif kind == "template-variable-named-by-other-annotation":
        # {tv} of the method's template is the name of NO path parameter; a query / header parameter goes
        # by that name (its own or through the name property) and, mostly, an un-aliased @Path names something the
        # template does not have, so that there are as many path parameters as template variables
        r["path"] += "/{tv}"
        loc = rng.choice(["query", "header"])
        if rng.random() < 0.5:
            r["params"].append({"name": "tv", "loc": loc, "alias": None, "type": P("string"), "validate": None})
        else:
            r["params"].append({"name": "tvArg", "loc": loc, "alias": "tv", "type": P("string"), "validate": None})
        if rng.random() < 0.8:
            r["params"].append({"name": "tvOther", "loc": "path", "alias": None, "type": P(rng.choice(["string", "int"])),
                                "validate": None})
        if rng.random() < 0.5:
            rng.shuffle(r["params"])
    elif kind == "duplicate-url-param":
        r["path"] += "/{pd}/x/{pd}"
        r["params"].append({"name": "pd", "loc": "path", "alias": None, "type": P("string"), "validate": None})
    elif kind == "duplicate-route":
        r2 = copy.deepcopy(r)
        r2["name"] = r["name"] + "Twin"
        c["routes"].append(r2)
    elif kind in ("time-alias", "byte-field", "oneof-on-later-struct"):
        structs = [d for d in u["decls"] if d["kind"] == "struct" and d["pkg"] == "types"
                   and (d["pkg"], d["name"]) in T.py_reach(u)]
        if not structs:
            return None
        d = rng.choice(structs)
        if kind == "time-alias":
            u["decls"].append({"pkg": "types", "name": "Stamp", "kind": "alias", "assigned": False, "rhs": ["time"]})
            d["fields"].append({"name": "When", "embedded": False, "json": "when", "validate": "",
                                "type": T.named("types", "Stamp")})
        elif kind == "byte-field":
            d["fields"].append({"name": "Octet", "embedded": False, "json": "octet", "validate": "", "type": P("byte")})
        else:
            u["decls"].append({"pkg": "types", "name": "Zzlast", "kind": "struct", "fields": [
                {"name": "N", "embedded": False, "json": "n", "validate": "", "type": P("int")}]})
            d["fields"].append({"name": "Late", "embedded": False, "json": "late", "validate": "oneof=a b",
                                "type": T.named("types", "Zzlast")})
    elif kind == "template-variable-renamed":
        # a second route, other verb, same template up to the names of its variables
        src = pick_route(rng, u, lambda x: any(p["loc"] == "path" for p in x["params"]))
        if src is None:
            r["path"] += "/{pv}"
            r["params"].append({"name": "pv", "loc": "path", "alias": None, "type": P("string"), "validate": None})
            src = at
        c = u["ctrls"][src[0]]
        r = c["routes"][src[1]]
        twin = {"name": r["name"] + "Twin", "verb": rng.choice([v for v in ("GET", "DELETE", "PUT", "PATCH") if v != r["verb"]]),
                "path": r["path"], "hidden": False, "params": [], "ret": None, "err": r["err"], "errors": [],
                "security": []}
        for p in r["params"]:
            if p["loc"] == "path":
                new = wire(p) + "Id"
                twin["path"] = twin["path"].replace("{" + wire(p) + "}", "{" + new + "}")
                twin["params"].append({"name": new, "loc": "path", "alias": None, "type": p["type"], "validate": None})
        c["routes"].append(twin)
    elif kind == "all-hidden":
        for x in T.all_routes(u):
            x["hidden"] = True
    elif kind == "non-ascii-type-name":
        # legal Go, not an OpenAPI component key (^[a-zA-Z0-9._-]+$): refused, or written under a name every $ref uses
        reach = [k for k in T.py_reach(u) if k[0] != "ctl"]
        if not reach:
            return None
        key = rng.choice(sorted(reach))
        return T.rename_type(u, key, rng.choice(NON_ASCII_NAMES) + "".join(ch for ch in key[1] if ch.isdigit()))
    elif kind == "context-param-first":
        # a context.Context parameter in front of path / query / header parameters
        r["params"] = [p for p in r["params"] if p["loc"] != "ctx"]
        if not any(p["loc"] in ("path", "query", "header") for p in r["params"]) or rng.random() < 0.5:
            r["params"].append({"name": "qc", "loc": rng.choice(["query", "header"]), "alias": None,
                                "type": P(rng.choice(["string", "bool", "int"])), "validate": None})
        r["params"].insert(0, T.ctx_param())
        if rng.random() < 0.3:
            r["params"].insert(rng.randint(1, len(r["params"])), T.ctx_param("ctx2"))
    else:
        raise ValueError(kind)
    return u


NON_ASCII_NAMES = ["Gr\u00f6\u00dfe", "\u00dcnit", "Na\u00efve", "\u0414\u043e\u043c", "Taille\u00c9"]

KINDS = ["missing-path-param", "extra-path-param", "duplicate-query-name", "same-name-two-locations",
         "undeclared-scheme", "no-leading-slash", "prefix-param-unmatched", "prefix-param-other-name",
         "prefix-param-matched", "path-alias-not-in-url", "duplicate-url-param", "duplicate-route", "time-alias",
         "byte-field", "oneof-on-later-struct", "all-hidden", "template-variable-renamed", "non-ascii-type-name",
         "context-param-first", "template-variable-named-by-other-annotation"]


def f6_universe():
    P = T.prim
    return {"cfg": {"title": "API", "version": "1.0.0", "base_url": "https://api.example.com",
                    "schemes": [{"name": "sec1", "type": "apiKey", "in": "header", "field": "x-sec1", "flows": []},
                                copy.deepcopy(C07.OAUTH_SCHEME)], "default": None},
            "decls": [],
            "ctrls": [{"name": "Ctl", "prefix": "/users/{tenant}", "security": [], "routes": [
                {"name": "M0", "verb": "GET", "path": "/plain", "hidden": False,
                 "params": [{"name": "id", "loc": "path", "alias": None, "type": P("string"), "validate": None}],
                 "ret": P("string"), "err": None, "errors": [], "security": []}]}]}


def renamed_variable_universe():
    """GET /items/{id} + DELETE /items/{itemId}: gleece accepts, kin-openapi must refuse the 3.0 document."""
    P = T.prim
    u = f6_universe()
    u["ctrls"][0]["prefix"] = ""
    u["ctrls"][0]["routes"] = [
        {"name": "GetItem", "verb": "GET", "path": "/items/{id}", "hidden": False,
         "params": [{"name": "id", "loc": "path", "alias": None, "type": P("string"), "validate": None}],
         "ret": P("string"), "err": None, "errors": [], "security": [{"name": "oauthy", "scopes": ["read"]}]},
        {"name": "DeleteItem", "verb": "DELETE", "path": "/items/{itemId}", "hidden": False,
         "params": [{"name": "itemId", "loc": "path", "alias": None, "type": P("string"), "validate": None}],
         "ret": None, "err": None, "errors": [], "security": []}]
    return u


def context_first_universe():
    """GetItem(ctx context.Context, id string, verbose bool) and Touch(ctx, id): the context parameter is not
    documented, the parameters after it are documented once each.  The controller and two routes carry a
    @Security annotation WITHOUT the optional scopes property (the natural spelling for apiKey schemes; also on
    an oauth2 scheme), the third one spells an empty scope list out through the controller's annotation."""
    P = T.prim
    u = f6_universe()
    u["ctrls"][0]["prefix"] = "/inventory"
    u["ctrls"][0]["security"] = [{"name": "sec1", "scopes": []}]

    def par(name, loc, ty):
        return {"name": name, "loc": loc, "alias": None, "type": P(ty), "validate": None}
    u["ctrls"][0]["routes"] = [
        {"name": "GetItem", "verb": "GET", "path": "/items/{id}", "hidden": False,
         "params": [T.ctx_param(), par("id", "path", "string"), par("verbose", "query", "bool")],
         "ret": P("string"), "err": None, "errors": [], "security": [{"name": "sec1", "scopes": []}]},
        {"name": "Touch", "verb": "PUT", "path": "/items/{id}", "hidden": False,
         "params": [T.ctx_param(), par("id", "path", "string")],
         "ret": None, "err": None, "errors": [], "security": [{"name": "oauthy", "scopes": []},
                                                              {"name": "sec1", "scopes": ["read"]}]},
        {"name": "Find", "verb": "GET", "path": "/find", "hidden": False,
         "params": [par("q", "query", "string"), T.ctx_param(), par("trace", "header", "string"), par("n", "query", "int")],
         "ret": P("string"), "err": None, "errors": [], "security": []}]
    return u


def non_ascii_universe():
    """type Größe struct, used as a field and as the item type of a response: not a legal component key."""
    P = T.prim
    name = NON_ASCII_NAMES[0]
    u = f6_universe()
    u["ctrls"][0]["prefix"] = "/catalogue"
    u["decls"] = [{"pkg": "types", "name": name, "kind": "struct", "fields": [
                      {"name": "Label", "embedded": False, "json": "label", "validate": "", "type": P("string")}]},
                  {"pkg": "types", "name": "Garment", "kind": "struct", "fields": [
                      {"name": "Size", "embedded": False, "json": "size", "validate": "", "type": T.named("types", name)}]}]
    u["ctrls"][0]["routes"] = [
        {"name": "ListSizes", "verb": "GET", "path": "/sizes", "hidden": False, "params": [],
         "ret": ["slice", T.named("types", name)], "err": None, "errors": [], "security": []},
        {"name": "GetGarment", "verb": "GET", "path": "/garment", "hidden": False, "params": [],
         "ret": T.named("types", "Garment"), "err": None, "errors": [], "security": []}]
    return u


def named_by_query_universe():
    """GET /statements/by-account/{id} with @Path(accountId) and @Query(id): {id} is linked to no path parameter
    (a query parameter has its name), accountId is in no template; one path parameter, one variable."""
    P = T.prim
    u = f6_universe()
    u["ctrls"][0]["prefix"] = "/statements"

    def par(name, loc, alias=None):
        return {"name": name, "loc": loc, "alias": alias, "type": P("string"), "validate": None}
    u["ctrls"][0]["routes"] = [
        {"name": "ListStatements", "verb": "GET", "path": "/by-account/{id}", "hidden": False,
         "params": [par("accountId", "path"), par("id", "query")],
         "ret": ["slice", P("string")], "err": None, "errors": [], "security": []},
        {"name": "GetStatement", "verb": "GET", "path": "/one/{no}", "hidden": False,
         "params": [par("number", "path"), par("trace", "header", "no")],
         "ret": P("string"), "err": None, "errors": [], "security": []}]
    return u


# ------------------------------------------------------------------ sequences over one output path

def drop_unreachable(u):
    """Keeps what the routes reach, and what the Go compiler needs for it: a field that the document leaves out
    (json:"-", unexported) still names its type."""
    reach = set(T.py_reach(u))
    todo = list(reach) + [(d["pkg"], d["name"]) for d in u["decls"] if d["pkg"] == "ctl"]
    while todo:
        d = T.find_decl(u, *todo.pop())
        if d is None:
            continue
        refs = []
        for f in d.get("fields") or []:
            refs += T.texpr_refs(f["type"])
        if d.get("rhs"):
            refs += T.texpr_refs(d["rhs"])
        for k in refs:
            if k not in reach:
                reach.add(k)
                todo.append(k)
    u["decls"] = [d for d in u["decls"] if (d["pkg"], d["name"]) in reach or d["pkg"] == "ctl"]
    return u


def smaller(rng, base, how):
    """The same project after something left it: a controller, routes, the models of the results, the
    descriptions of the configuration.  Every edit makes the emitted document shorter."""
    u = copy.deepcopy(base)
    if how == "one-route":
        c = rng.choice(u["ctrls"])
        c["routes"] = [rng.choice(c["routes"])]
        u["ctrls"] = [c]
        drop_unreachable(u)
    elif how == "drop-controller-or-route":
        if len(u["ctrls"]) > 1:
            del u["ctrls"][rng.randrange(len(u["ctrls"]))]
        else:
            c = u["ctrls"][0]
            if len(c["routes"]) > 1:
                del c["routes"][rng.randrange(len(c["routes"]))]
            else:
                c["routes"][0]["params"] = [p for p in c["routes"][0]["params"] if p["loc"] in ("path", "ctx")]
                c["routes"][0]["ret"] = None
        drop_unreachable(u)
    elif how == "no-models":
        for r in T.all_routes(u):
            r["ret"] = None
            r["err"] = None
            r["params"] = [p for p in r["params"] if not T.texpr_refs(p["type"])]
            r["errors"] = []
        u["decls"] = []
    elif how == "shorter-configuration":
        u["cfg"]["title"] = "A"
        u["cfg"]["version"] = "1"
        used = set(sc["name"] for c in u["ctrls"] for lst in [c["security"]] + [r["security"] for r in c["routes"]]
                   for sc in lst)
        if u["cfg"]["default"]:
            used.add(u["cfg"]["default"]["name"])
        u["cfg"]["schemes"] = [x for x in u["cfg"]["schemes"] if x["name"] in used] or u["cfg"]["schemes"][:1]
        for r in T.all_routes(u):
            r["errors"] = []
    else:
        raise ValueError(how)
    return u


SMALLER = ["one-route", "drop-controller-or-route", "no-models", "shorter-configuration"]


def gen_sequence(rng, base):
    """base, a smaller project, (an edit of it that is usually refused,) base again, the smallest project: every step is written
    to the SAME output path by a fresh process, over what the step before left there."""
    seq = [("base", base)]
    b = smaller(rng, base, rng.choice(SMALLER))
    seq.append(("smaller", b))
    if rng.random() < 0.5:
        bad = perturb(rng, b, rng.choice(["undeclared-scheme", "missing-path-param", "duplicate-route"]))
        if bad is not None:
            seq.append(("edit-usually-refused", bad))
    seq.append(("base-again", copy.deepcopy(base)))
    seq.append(("smallest", smaller(rng, smaller(rng, base, "one-route"), "no-models")))
    return seq


def fixed_sequence():
    """The inventory project of context_first_universe; then only its Find route is left; then all of it again."""
    a = context_first_universe()
    b = copy.deepcopy(a)
    b["ctrls"][0]["routes"] = [r for r in b["ctrls"][0]["routes"] if r["name"] == "Find"]
    b["ctrls"][0]["security"] = []
    return [("base", a), ("smaller", b), ("base-again", copy.deepcopy(a))]


def run_sequences(prop, seqs, versions=T.VERSIONS, tag="seq", command="spec"):
    """seqs: list of lists of (label, universe).  Step s of every sequence is rendered into the sequence's one
    directory (sources and configuration replaced, ./dist kept as the step before left it) and generated by a
    fresh CLI process per version.  Returns per sequence a list of steps: dict version -> observation with the
    keys of T.run_universes; `sentinel` = a file was at the output path before the step, `untouched` = the
    step FAILED and the bytes at the output path are those from before the step."""
    T.build_cli()
    moddir = os.path.join(WORK, prop, tag)
    shutil.rmtree(moddir, ignore_errors=True)
    T.P.make_module(moddir)
    out = [[] for _ in seqs]

    def read(path):
        try:
            with open(path, "rb") as f:
                return f.read()
        except OSError:
            return None

    for s in range(max([len(q) for q in seqs] or [0])):
        jobs, index, before = [], [], {}
        for k, q in enumerate(seqs):
            if s >= len(q):
                continue
            root = os.path.join(moddir, "q%d" % k)
            keep = os.path.join(moddir, "q%d.dist" % k)
            shutil.rmtree(keep, ignore_errors=True)
            if os.path.isdir(os.path.join(root, "dist")):
                shutil.move(os.path.join(root, "dist"), keep)
            T.render_universe(q[s][1], root, "verifproj/q%d" % k)       # removes the directory first
            if os.path.isdir(keep):
                shutil.move(keep, os.path.join(root, "dist"))
            for v in versions:
                cfgname = T.render_config(q[s][1], root, "verifproj/q%d" % k, v)
                before[(k, v)] = read(os.path.join(root, "dist", "spec-%s.json" % v))
                jobs.append({"dir": root, "args": ["generate", command, "-c", cfgname]})
                index.append((k, v))
        results = T.P.run_cli_many(jobs)
        step = {}
        for (k, v), r in zip(index, results):
            path = os.path.join(moddir, "q%d" % k, "dist", "spec-%s.json" % v)
            r = dict(r)
            after = read(path)
            r["spec_exists"] = after is not None
            r["sentinel"] = before[(k, v)] is not None
            r["untouched"] = r["exit"] != 0 and after == before[(k, v)] and after is not None
            r["spec"] = None if r["untouched"] else T.P.load_json(path)
            r["unparsable"] = r["spec_exists"] and not r["untouched"] and r["spec"] is None
            r["bytes_before"] = len(before[(k, v)]) if before[(k, v)] is not None else None
            r["bytes_after"] = len(after) if after is not None else None
            r["tail"] = after[-160:].decode(errors="replace") if r["unparsable"] else None
            r["dir"] = os.path.join(moddir, "q%d" % k)
            step.setdefault(k, {})[v] = r
        for k in step:
            out[k].append(step[k])
    return out


# ------------------------------------------------------------------ main

def main():
    a, seed = args_for(PROP)
    res = Result(PROP, a.tier, seed)
    rng = random.Random(seed)
    build_coq()
    proof_coverage(PROP, res)
    known = C07.known_by_class(PROP)
    quick = a.tier == "quick"

    items = []        # (label, universe)
    seqs = []         # lists of (label, universe): steps generated one after the other over ONE output path
    if a.replay:
        inp = json.load(open(a.replay))["input"]
        if isinstance(inp, dict) and "sequence" in inp:
            seqs.append([(l, u) for l, u in inp["sequence"]])
        else:
            items.append(("replay", inp))
    else:
        corpus_file = os.path.join(CORPUS, PROP + ".json")
        if os.path.exists(corpus_file):
            items += [("corpus", u) for u in json.load(open(corpus_file))]
        items.append(("F6-witness", f6_universe()))
        items.append(("template-variable-renamed", renamed_variable_universe()))
        items.append(("context-param-first", context_first_universe()))
        items.append(("non-ascii-type-name", non_ascii_universe()))
        items.append(("template-variable-named-by-other-annotation", named_by_query_universe()))
        items.append(("tricky", C07.tricky_universe()))
        items.append(("same-named", C07.same_named_universe()))
        nacc = 12 if quick else 200
        bases = []
        while len(bases) < nacc:
            u = T.gen_universe(rng, {"tricky_enum_values": True, "custom_error": 0.08})
            if not C07.has_same_named(u):
                bases.append(u)
        items += [("accepted-stream", u) for u in bases]
        rounds = 2 if quick else 12
        for _ in range(rounds):
            for kind in KINDS:
                for _try in range(6):
                    v = perturb(rng, rng.choice(bases), kind)
                    if v is not None:
                        items.append((kind, v))
                        break

        # sequences draw from their own stream (the items above stay what they were for a given seed)
        srng = random.Random(seed * 7919 + 8)
        seqs.append(fixed_sequence())
        seqs += [gen_sequence(srng, b) for b in srng.sample(bases, 4 if quick else 40)]

    universes = [u for _, u in items]
    sentinel = set(k for k, (label, _) in enumerate(items) if label not in ("accepted-stream",) and rng.random() < 0.5)
    obs = T.run_universes(PROP, universes, sentinel=sentinel)
    # every step of a sequence is one more observed project: the universe of the step against whatever file is at
    # the output path after the step (all clauses below apply to it as they are)
    seq_of = {}       # index in universes -> (sequence, step)
    for qi, steps in enumerate(run_sequences(PROP, seqs)):
        for si, step in enumerate(steps):
            seq_of[len(universes)] = (qi, si)
            items.append(("sequence:" + seqs[qi][si][0], seqs[qi][si][1]))
            universes.append(seqs[qi][si][1])
            obs.append(step)

    def seq_bad(pred, v):
        """pred on the observation of the LAST step of a sequence run afresh for version v."""
        def run(q):
            steps = run_sequences(PROP + "_shrink", [q], versions=[v])[0]
            return pred(q[-1][1], steps[-1][v])
        return run

    def seq_input(k, v, pred):
        """The failing input of a sequence step: the project alone when it fails by itself, else the step before
        and the step, else the sequence up to the step."""
        qi, si = seq_of[k]
        q = [[l, u] for l, u in seqs[qi][:si + 1]]
        if a.replay:
            return {"sequence": q}
        bad = seq_bad(pred, v)
        try:
            if bad(q[-1:]):
                return q[-1][1]
            for lo in range(si - 1, 0, -1):
                if bad(q[lo:]):
                    return {"sequence": q[lo:]}
        except Exception:
            pass
        return {"sequence": q}

    cases, meta = [], []
    hard = []         # violations that need no oracle
    outcome = {}
    for k, u in enumerate(universes):
        for v in T.VERSIONS:
            o = obs[k][v]
            key = "%s exit=%s file=%s" % (items[k][0], "0" if o["exit"] == 0 else "nonzero",
                                          "untouched" if o["untouched"] else "written" if o["spec_exists"] else "none")
            outcome[key] = outcome.get(key, 0) + 1
            if o["timeout"]:
                continue            # C14's business
            if o["exit"] != 0 and o["spec_exists"] and not o["untouched"]:
                hard.append((k, v, "the command failed (exit %s) but a spec file %s" %
                             (o["exit"], "replaced the one of an earlier run" if o["sentinel"] else "was written")))
            if o["exit"] != 0 and o["sentinel"] and not o["spec_exists"]:
                hard.append((k, v, "the command failed (exit %s) and the spec file of an earlier run is gone" % o["exit"]))
            if o["exit"] == 0 and (not o["spec_exists"] or o["untouched"]):
                hard.append((k, v, "the command reported success but wrote no spec file"))
            if o["unparsable"]:
                hard.append((k, v, "the spec file is not JSON" + (
                    " (%s bytes at the output path before the run, %s after; the file ends with %r)"
                    % (o["bytes_before"], o["bytes_after"], o["tail"]) if k in seq_of else "")))
            cases.append((v, u, o["spec"]))
            meta.append((k, v, "raw", set()))
            spec2, applied = neutralise(o["spec"], v, u)
            if applied:
                cases.append((v, u, spec2))
                meta.append((k, v, "neutral", applied))
    ev = S.evaluate(PROP, cases)
    neutral_of = {(k, v): i for i, (k, v, kind, _) in enumerate(meta) if kind == "neutral"}

    def observe(u, v):
        return T.run_universes(PROP + "_shrink", [u], versions=[v])[0][v]

    def unexplained_failure(u, v, spec):
        """Clauses failing after neutralising the known classes, or a text for an unprojectable file."""
        spec2, applied = neutralise(spec, v, u)
        e = S.evaluate(PROP, [(v, u, spec2)], "shrink")
        if e["unprojectable"]:
            return "unprojectable: " + e["unprojectable"][0]
        cl = set(e["c08_fail"].get(0, []))
        if 2 in cl and clause2_is_f6(u, spec):
            cl.discard(2)
        if T.shape_errors(spec):
            cl.add(7)
        return sorted(cl) or None

    def still_fails(v):
        def pred(u):
            o = observe(u, v)
            return o["spec"] is not None and unexplained_failure(u, v, o["spec"]) is not None
        return pred

    class_hits = {}
    unexplained = []
    shape_failures = 0
    for i, (k, v, kind, _) in enumerate(meta):
        if kind != "raw":
            continue
        # clause 7 is decided on the raw JSON (the abstract document is typed: it cannot hold a null where a
        # list has to stand); no known finding excuses it
        shape = T.shape_errors(cases[i][2]) if cases[i][2] is not None else []
        if shape:
            shape_failures += 1
            unexplained.append((i, CLAUSES[7] + ": " + "; ".join(shape[:3])))
            continue
        if i in ev["unprojectable"]:
            unexplained.append((i, "the written file cannot be read as an OpenAPI document: " + ev["unprojectable"][i]))
            continue
        if i not in ev["c08_fail"]:
            continue
        u = universes[k]
        classes = set()
        j = neutral_of.get((k, v))
        rest = set(ev["c08_fail"][i])
        if j is not None and j not in ev["unprojectable"]:
            rest = set(ev["c08_fail"].get(j, []))
            classes |= set(meta[j][3])
        if 2 in rest and clause2_is_f6(u, cases[i][2]):
            rest.discard(2)
            classes.add(CLS_PATHS)
        if rest:
            unexplained.append((i, "; ".join(CLAUSES[c] for c in sorted(rest))))
            continue
        missing = [c for c in classes if c not in known]
        replay = {"kind": "property-fails-on-implementation", "openapi": v, "input": u, "label": items[k][0],
                  "failed_clauses": [CLAUSES[c] for c in ev["c08_fail"][i]], "document": obs[k][v]["spec"]}
        if missing:
            replay["unlisted_finding_classes"] = missing
            res.violation(replay)
        else:
            for c in classes:
                class_hits[c] = class_hits.get(c, 0) + 1
                res.known(known[c], "the %s document written for a '%s' project: %s" %
                          (v, items[k][0], "; ".join(CLAUSES[x] for x in ev["c08_fail"][i])))
    def hard_pred(u, o):
        return (o["exit"] != 0 and o["spec_exists"] and not o["untouched"]) or o["unparsable"] \
            or (o["exit"] != 0 and o["sentinel"] and not o["spec_exists"]) \
            or (o["exit"] == 0 and (not o["spec_exists"] or o["untouched"]))

    for k, v, why in hard[:2]:
        res.violation({"kind": "property-fails-on-implementation", "openapi": v,
                       "input": seq_input(k, v, hard_pred) if k in seq_of else universes[k],
                       "label": items[k][0], "why": why, "cli_exit": obs[k][v]["exit"],
                       "cli_output": obs[k][v]["out"][-1500:],
                       "claim": "whatever file is at specGeneratorConfig.outputPath after a generate command is a valid, "
                                "closed document (after a failed command: the bytes that were there before)"})
    reported = 0
    for i, why in unexplained:
        if reported >= 2:
            break
        reported += 1
        k, v, _, _ = meta[i]
        if k in seq_of:
            inp = seq_input(k, v, lambda u, o: o["spec"] is not None and unexplained_failure(u, v, o["spec"]) is not None)
            res.violation({"kind": "property-fails-on-implementation", "openapi": v, "input": inp, "label": items[k][0],
                           "why": why, "json_kind_errors": T.shape_errors(obs[k][v]["spec"]),
                           "document": obs[k][v]["spec"], "cli_exit": obs[k][v]["exit"],
                           "cli_output": obs[k][v]["out"][-1200:],
                           "claim": "prop_C08 on the file at outputPath after every step of a sequence of generations"})
            continue
        small = universes[k] if a.replay else T.shrink_universe(universes[k], still_fails(v))
        o = observe(small, v)
        res.violation({"kind": "property-fails-on-implementation", "openapi": v, "input": small, "label": items[k][0],
                       "why": why, "after_shrinking": unexplained_failure(small, v, o["spec"]) if o["spec"] else None,
                       "json_kind_errors": T.shape_errors(o["spec"]) if o["spec"] else [],
                       "document": o["spec"], "cli_exit": o["exit"], "cli_output": o["out"][-1200:],
                       "claim": "prop_C08: every $ref resolves, path templates and required path parameters match, "
                                "parameter names are unique per location, responses are described, enum values fit "
                                "the schema type, info/servers/securitySchemes are the configuration's; every member has "
                                "the JSON kind the OpenAPI schema prescribes"})

    # ---- correspondence: the model of the command (document or failure) against the implementation
    retyped = set((m[0], m[1]) for m in meta if m[2] == "neutral" and C07.CLS_YAML31 in m[3])
    disagree = [i for i in ev["disagree_doc"] if meta[i][2] == "raw" and not C07.has_same_named(universes[meta[i][0]])
                and (meta[i][0], meta[i][1]) not in retyped]
    if disagree and not res.violations:
        i = disagree[0]
        k, v, _, _ = meta[i]
        res.violation({"kind": "correspondence", "obligation": "corr:Schema.cmd (document or failure)", "openapi": v,
                       "input": universes[k], "label": items[k][0], "document": obs[k][v]["spec"],
                       "cli_exit": obs[k][v]["exit"], "cli_output": obs[k][v]["out"][-1200:],
                       "note": "model and implementation disagree on %d of %d runs; prop_C08 holds on every file "
                               "written in this run" % (len(disagree), len([m for m in meta if m[2] == 'raw']))},
                      no_input=True)

    raw = [i for i, m in enumerate(meta) if m[2] == "raw"]
    written = [i for i in raw if cases[i][2] is not None]
    distinct = set(json.dumps(cases[i][1], sort_keys=True) for i in written)
    labels = {}
    for l, _ in items:
        labels[l] = labels.get(l, 0) + 1
    res.coverage.update({
        "evaluations": len(raw), "distinct_nontrivial": len(distinct),
        "rule": "type universes of the C07 generator with their controllers (accepted stream; methods may take a "
                "context.Context parameter at any position) and perturbed copies: "
                + ", ".join(KINDS) + "; each rendered to Go and run through the real CLI for 3.0.0 and 3.1.0, half of "
                "the perturbed projects with a foreign spec file already at outputPath; @Security annotations are written "
                "with and without the optional scopes property, on controllers and routes; wf + configuration sections "
                "(prop_C08) are evaluated by vm_compute on whatever file is at outputPath afterwards and the JSON kind of "
                "every security / required / tags / parameters / responses member on the raw file, failed commands "
                "must leave the path untouched; sequences (base, a smaller project: "
                + ", ".join(SMALLER) + "; an edit that is usually refused; base again; the smallest project) are generated step by step by "
                "fresh processes over ONE output path and every clause is evaluated on the file that is there after each "
                "step; non-trivial = a document was written; distinct = distinct projects",
        "samples": [{"openapi": cases[i][0], "label": items[meta[i][0]][0], "universe": cases[i][1],
                     "cli_exit": obs[meta[i][0]][cases[i][0]]["exit"]} for i in raw[6:8]],
        "traces_validated_against_impl": len(raw) - len([i for i in ev["disagree_doc"] if meta[i][2] == "raw"]),
        "disagreements": len(disagree),
        "property_oracle_failures_raw": len([i for i in raw if i in ev["c08_fail"] or i in ev["unprojectable"]]),
        "property_oracle_failures_unexplained": len(unexplained) + len(hard),
        "known_finding_class_hits": class_hits,
        "input_distribution": {"projects": len(universes), "cli_runs": len(raw), "labels": labels,
                               "documents_written": len(written), "commands_failed": len(raw) - len(written),
                               "runs_with_foreign_file_in_place": 2 * len(sentinel),
                               "sequences": len(seqs), "sequence_steps": len(seq_of),
                               "sequence_runs_writing_over_a_longer_file": len(
                                   [1 for k in seq_of for v in T.VERSIONS if v in obs[k] and obs[k][v]["exit"] == 0
                                    and obs[k][v]["bytes_before"] and obs[k][v]["bytes_after"] is not None
                                    and obs[k][v]["bytes_before"] > obs[k][v]["bytes_after"]]),
                               "sequence_runs_failing_over_an_existing_file": len(
                                   [1 for k in seq_of for v in T.VERSIONS if v in obs[k] and obs[k][v]["exit"] != 0
                                    and obs[k][v]["sentinel"]]),
                               "projects_with_a_scope_less_security_annotation_in_effect": len(
                                   [1 for u in universes if scopeless_in_effect(u)]),
                               "documents_failing_the_json_kind_clause": shape_failures,
                               "outcomes": outcome,
                               "model_predicts_failure": len([i for i in ev["model_none"] if meta[i][2] == "raw"]),
                               "runs_satisfying_well_linked (C08_wf_partial)":
                                   len([i for i in ev["well_linked"] if meta[i][2] == "raw"])},
    })
    res.assumptions += [
        "the kin-openapi and libopenapi validators are an oracle: the check observes their verdict through the "
        "command's exit status; only the fragment in Schema.lib_model_ok_v is modelled for the correspondence",
        "a timed-out run is left to C14",
        "the abstract document keeps schemas up to type/format/$ref/items/additionalProperties; unknown keys in a "
        "component are a hard error of the projection",
    ]
    T.cleanup(PROP)
    T.cleanup(PROP + "_shrink")
    sys.exit(res.finish())


if __name__ == "__main__":
    main()
