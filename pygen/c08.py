#!/usr/bin/env python3
"""C08 - Whenever a spec is emitted it is a valid, closed OpenAPI document."""
import copy
import json
import os
import random
import sys

sys.path.insert(0, os.path.dirname(os.path.abspath(__file__)))
import common
from common import *  # noqa
import typegen as T
import schemacheck as S
import c07 as C07

PROP = "C08"
if os.environ.get("VERIF_KNOWN_FILE"):          # development only: try proposed entries
    common.KNOWN = os.environ["VERIF_KNOWN_FILE"]

CLS_ENUM30 = C07.CLS_ENUM30
CLS_PATHS = "path-template-and-path-parameters-differ-with-equal-counts"
CLAUSES = {1: "a $ref does not resolve", 2: "path template and required path parameters do not match one to one",
           3: "two parameters share a name in one location", 4: "a response has no description",
           5: "an enum value does not belong to the schema's type", 6: "info/servers/securitySchemes differ from the configuration",
           7: "a member of the document has not the JSON kind the OpenAPI schema prescribes (a security requirement maps each "
              "scheme to an ARRAY of scope names, required / tags are arrays of names, ...)"}


# ------------------------------------------------------------------ perturbations

def template_names(path):
    out, cur = [], None
    for ch in path:
        if cur is None:
            if ch == "{":
                cur = ""
        elif ch == "}":
            out.append(cur)
            cur = None
        else:
            cur += ch
    return out


def full_path(c, r):
    p = c["prefix"] + r["path"]
    while "//" in p:
        p = p.replace("//", "/")
    return p


def wire(p):
    return p["alias"] or p["name"]


def paths_mismatch_equal_counts(u):
    """F6 class: a documented route whose template names differ from its path parameters although
    there are as many of each (which is all kin-openapi compares)."""
    for c in u["ctrls"]:
        for r in c["routes"]:
            if r["hidden"]:
                continue
            names = sorted(set(template_names(full_path(c, r))))
            ps = sorted(wire(p) for p in r["params"] if p["loc"] == "path")
            if names != ps and len(names) == len(ps):
                return True
    return False


def neutralise(spec, v, u):
    """C07's neutraliser restricted to the classes that matter for C08 (the Rfc7807Error component stays)."""
    spec2, applied = C07.neutralise(spec, v, u)
    if C07.CLS_RFC in applied:
        applied.discard(C07.CLS_RFC)
        spec2["components"]["schemas"]["Rfc7807Error"] = spec["components"]["schemas"]["Rfc7807Error"]
    return spec2, applied


def scopeless_in_effect(u):
    """A documented route whose effective security comes from a @Security annotation (its own or the
    controller's) that has no scopes property."""
    for c in u["ctrls"]:
        for r in c["routes"]:
            eff = r["security"] or c["security"]
            if not r["hidden"] and any(not sc["scopes"] for sc in eff):
                return True
    return False


def pick_route(rng, u, want=None):
    cands = [(ci, ri) for ci, c in enumerate(u["ctrls"]) for ri, r in enumerate(c["routes"])
             if not r["hidden"] and (want is None or want(r))]
    return rng.choice(cands) if cands else None


def perturb(rng, base, kind):
    """Returns the perturbed universe or None when the kind does not apply."""
    u = copy.deepcopy(base)
    P = T.prim
    if kind == "missing-path-param":
        at = pick_route(rng, u, lambda r: any(p["loc"] == "path" for p in r["params"]))
        if at is None:
            at = pick_route(rng, u)
            if at is None:
                return None
            u["ctrls"][at[0]]["routes"][at[1]]["path"] += "/{zz}"
            return u
        r = u["ctrls"][at[0]]["routes"][at[1]]
        r["params"] = [p for p in r["params"] if p["loc"] != "path"][:] + [p for p in r["params"] if p["loc"] == "path"][1:]
        return u
    at = pick_route(rng, u)
    if at is None:
        return None
    c = u["ctrls"][at[0]]
    r = c["routes"][at[1]]
    if kind == "extra-path-param":
        r["params"].append({"name": "zz", "loc": "path", "alias": None, "type": P("string"), "validate": None})
    elif kind == "duplicate-query-name":
        r["params"].append({"name": "da", "loc": "query", "alias": "dup", "type": P("string"), "validate": None})
        r["params"].append({"name": "db", "loc": "query", "alias": "dup", "type": P("int"), "validate": None})
    elif kind == "same-name-two-locations":
        r["params"].append({"name": "da", "loc": "query", "alias": "dup", "type": P("string"), "validate": None})
        r["params"].append({"name": "db", "loc": "header", "alias": "dup", "type": P("int"), "validate": None})
    elif kind == "undeclared-scheme":
        r["security"] = [{"name": "ghost", "scopes": []}]
    elif kind == "no-leading-slash":
        c["prefix"] = ""
        for x in c["routes"]:
            x["path"] = x["path"].lstrip("/")
    elif kind == "prefix-param-unmatched":
        c["prefix"] = "/t/{tenant}"
    elif kind == "prefix-param-other-name":            # F6
        c["prefix"] = "/t/{tenant}"
        for x in c["routes"]:
            x["params"].append({"name": "ident", "loc": "path", "alias": None, "type": P("string"), "validate": None})
    elif kind == "prefix-param-matched":
        c["prefix"] = "/t/{tenant}"
        for x in c["routes"]:
            x["params"].append({"name": "tenant", "loc": "path", "alias": None, "type": P("string"), "validate": None})
    elif kind == "path-alias-not-in-url":
        r["path"] += "/{pa}"
        r["params"].append({"name": "pa", "loc": "path", "alias": "elsewhere", "type": P("string"), "validate": None})
    elif kind == "duplicate-url-param":
        r["path"] += "/{pd}/x/{pd}"
        r["params"].append({"name": "pd", "loc": "path", "alias": None, "type": P("string"), "validate": None})
    elif kind == "duplicate-route":
        r2 = copy.deepcopy(r)
        r2["name"] = r["name"] + "Twin"
        c["routes"].append(r2)
    elif kind in ("time-alias", "byte-field", "oneof-on-later-struct"):
        structs = [d for d in u["decls"] if d["kind"] == "struct" and d["pkg"] == "types"
                   and (d["pkg"], d["name"]) in T.py_reach(u)]
        if not structs:
            return None
        d = rng.choice(structs)
        if kind == "time-alias":
            u["decls"].append({"pkg": "types", "name": "Stamp", "kind": "alias", "assigned": False, "rhs": ["time"]})
            d["fields"].append({"name": "When", "embedded": False, "json": "when", "validate": "",
                                "type": T.named("types", "Stamp")})
        elif kind == "byte-field":
            d["fields"].append({"name": "Octet", "embedded": False, "json": "octet", "validate": "", "type": P("byte")})
        else:
            u["decls"].append({"pkg": "types", "name": "Zzlast", "kind": "struct", "fields": [
                {"name": "N", "embedded": False, "json": "n", "validate": "", "type": P("int")}]})
            d["fields"].append({"name": "Late", "embedded": False, "json": "late", "validate": "oneof=a b",
                                "type": T.named("types", "Zzlast")})
    elif kind == "template-variable-renamed":
        # a second route, other verb, same template up to the names of its variables
        src = pick_route(rng, u, lambda x: any(p["loc"] == "path" for p in x["params"]))
        if src is None:
            r["path"] += "/{pv}"
            r["params"].append({"name": "pv", "loc": "path", "alias": None, "type": P("string"), "validate": None})
            src = at
        c = u["ctrls"][src[0]]
        r = c["routes"][src[1]]
        twin = {"name": r["name"] + "Twin", "verb": rng.choice([v for v in ("GET", "DELETE", "PUT", "PATCH") if v != r["verb"]]),
                "path": r["path"], "hidden": False, "params": [], "ret": None, "err": r["err"], "errors": [],
                "security": []}
        for p in r["params"]:
            if p["loc"] == "path":
                new = wire(p) + "Id"
                twin["path"] = twin["path"].replace("{" + wire(p) + "}", "{" + new + "}")
                twin["params"].append({"name": new, "loc": "path", "alias": None, "type": p["type"], "validate": None})
        c["routes"].append(twin)
    elif kind == "all-hidden":
        for x in T.all_routes(u):
            x["hidden"] = True
    elif kind == "non-ascii-type-name":
        # legal Go, not an OpenAPI component key (^[a-zA-Z0-9._-]+$): refused, or written under a name every $ref uses
        reach = [k for k in T.py_reach(u) if k[0] != "ctl"]
        if not reach:
            return None
        key = rng.choice(sorted(reach))
        return T.rename_type(u, key, rng.choice(NON_ASCII_NAMES) + "".join(ch for ch in key[1] if ch.isdigit()))
    elif kind == "context-param-first":
        # a context.Context parameter in front of path / query / header parameters
        r["params"] = [p for p in r["params"] if p["loc"] != "ctx"]
        if not any(p["loc"] in ("path", "query", "header") for p in r["params"]) or rng.random() < 0.5:
            r["params"].append({"name": "qc", "loc": rng.choice(["query", "header"]), "alias": None,
                                "type": P(rng.choice(["string", "bool", "int"])), "validate": None})
        r["params"].insert(0, T.ctx_param())
        if rng.random() < 0.3:
            r["params"].insert(rng.randint(1, len(r["params"])), T.ctx_param("ctx2"))
    else:
        raise ValueError(kind)
    return u


NON_ASCII_NAMES = ["Gr\u00f6\u00dfe", "\u00dcnit", "Na\u00efve", "\u0414\u043e\u043c", "Taille\u00c9"]

KINDS = ["missing-path-param", "extra-path-param", "duplicate-query-name", "same-name-two-locations",
         "undeclared-scheme", "no-leading-slash", "prefix-param-unmatched", "prefix-param-other-name",
         "prefix-param-matched", "path-alias-not-in-url", "duplicate-url-param", "duplicate-route", "time-alias",
         "byte-field", "oneof-on-later-struct", "all-hidden", "template-variable-renamed", "non-ascii-type-name",
         "context-param-first"]


def f6_universe():
    P = T.prim
    return {"cfg": {"title": "API", "version": "1.0.0", "base_url": "https://api.example.com",
                    "schemes": [{"name": "sec1", "type": "apiKey", "in": "header", "field": "x-sec1", "flows": []},
                                copy.deepcopy(C07.OAUTH_SCHEME)], "default": None},
            "decls": [],
            "ctrls": [{"name": "Ctl", "prefix": "/users/{tenant}", "security": [], "routes": [
                {"name": "M0", "verb": "GET", "path": "/plain", "hidden": False,
                 "params": [{"name": "id", "loc": "path", "alias": None, "type": P("string"), "validate": None}],
                 "ret": P("string"), "err": None, "errors": [], "security": []}]}]}


def renamed_variable_universe():
    """GET /items/{id} + DELETE /items/{itemId}: gleece accepts, kin-openapi must refuse the 3.0 document."""
    P = T.prim
    u = f6_universe()
    u["ctrls"][0]["prefix"] = ""
    u["ctrls"][0]["routes"] = [
        {"name": "GetItem", "verb": "GET", "path": "/items/{id}", "hidden": False,
         "params": [{"name": "id", "loc": "path", "alias": None, "type": P("string"), "validate": None}],
         "ret": P("string"), "err": None, "errors": [], "security": [{"name": "oauthy", "scopes": ["read"]}]},
        {"name": "DeleteItem", "verb": "DELETE", "path": "/items/{itemId}", "hidden": False,
         "params": [{"name": "itemId", "loc": "path", "alias": None, "type": P("string"), "validate": None}],
         "ret": None, "err": None, "errors": [], "security": []}]
    return u


def context_first_universe():
    """GetItem(ctx context.Context, id string, verbose bool) and Touch(ctx, id): the context parameter is not
    documented, the parameters after it are documented once each.  The controller and two routes carry a
    @Security annotation WITHOUT the optional scopes property (the natural spelling for apiKey schemes; also on
    an oauth2 scheme), the third one spells an empty scope list out through the controller's annotation."""
    P = T.prim
    u = f6_universe()
    u["ctrls"][0]["prefix"] = "/inventory"
    u["ctrls"][0]["security"] = [{"name": "sec1", "scopes": []}]

    def par(name, loc, ty):
        return {"name": name, "loc": loc, "alias": None, "type": P(ty), "validate": None}
    u["ctrls"][0]["routes"] = [
        {"name": "GetItem", "verb": "GET", "path": "/items/{id}", "hidden": False,
         "params": [T.ctx_param(), par("id", "path", "string"), par("verbose", "query", "bool")],
         "ret": P("string"), "err": None, "errors": [], "security": [{"name": "sec1", "scopes": []}]},
        {"name": "Touch", "verb": "PUT", "path": "/items/{id}", "hidden": False,
         "params": [T.ctx_param(), par("id", "path", "string")],
         "ret": None, "err": None, "errors": [], "security": [{"name": "oauthy", "scopes": []},
                                                              {"name": "sec1", "scopes": ["read"]}]},
        {"name": "Find", "verb": "GET", "path": "/find", "hidden": False,
         "params": [par("q", "query", "string"), T.ctx_param(), par("trace", "header", "string"), par("n", "query", "int")],
         "ret": P("string"), "err": None, "errors": [], "security": []}]
    return u


def non_ascii_universe():
    """type Größe struct, used as a field and as the item type of a response: not a legal component key."""
    P = T.prim
    name = NON_ASCII_NAMES[0]
    u = f6_universe()
    u["ctrls"][0]["prefix"] = "/catalogue"
    u["decls"] = [{"pkg": "types", "name": name, "kind": "struct", "fields": [
                      {"name": "Label", "embedded": False, "json": "label", "validate": "", "type": P("string")}]},
                  {"pkg": "types", "name": "Garment", "kind": "struct", "fields": [
                      {"name": "Size", "embedded": False, "json": "size", "validate": "", "type": T.named("types", name)}]}]
    u["ctrls"][0]["routes"] = [
        {"name": "ListSizes", "verb": "GET", "path": "/sizes", "hidden": False, "params": [],
         "ret": ["slice", T.named("types", name)], "err": None, "errors": [], "security": []},
        {"name": "GetGarment", "verb": "GET", "path": "/garment", "hidden": False, "params": [],
         "ret": T.named("types", "Garment"), "err": None, "errors": [], "security": []}]
    return u


# ------------------------------------------------------------------ main

def main():
    a, seed = args_for(PROP)
    res = Result(PROP, a.tier, seed)
    rng = random.Random(seed)
    build_coq()
    proof_coverage(PROP, res)
    known = C07.known_by_class(PROP)
    quick = a.tier == "quick"

    items = []        # (label, universe)
    if a.replay:
        items.append(("replay", json.load(open(a.replay))["input"]))
    else:
        corpus_file = os.path.join(CORPUS, PROP + ".json")
        if os.path.exists(corpus_file):
            items += [("corpus", u) for u in json.load(open(corpus_file))]
        items.append(("F6-witness", f6_universe()))
        items.append(("template-variable-renamed", renamed_variable_universe()))
        items.append(("context-param-first", context_first_universe()))
        items.append(("non-ascii-type-name", non_ascii_universe()))
        items.append(("tricky", C07.tricky_universe()))
        items.append(("same-named", C07.same_named_universe()))
        nacc = 12 if quick else 200
        bases = []
        while len(bases) < nacc:
            u = T.gen_universe(rng, {"tricky_enum_values": True, "custom_error": 0.08})
            if not C07.has_same_named(u):
                bases.append(u)
        items += [("accepted-stream", u) for u in bases]
        rounds = 2 if quick else 12
        for _ in range(rounds):
            for kind in KINDS:
                for _try in range(6):
                    v = perturb(rng, rng.choice(bases), kind)
                    if v is not None:
                        items.append((kind, v))
                        break

    universes = [u for _, u in items]
    sentinel = set(k for k, (label, _) in enumerate(items) if label not in ("accepted-stream",) and rng.random() < 0.5)
    obs = T.run_universes(PROP, universes, sentinel=sentinel)

    cases, meta = [], []
    hard = []         # violations that need no oracle
    outcome = {}
    for k, u in enumerate(universes):
        for v in T.VERSIONS:
            o = obs[k][v]
            key = "%s exit=%s file=%s" % (items[k][0], "0" if o["exit"] == 0 else "nonzero",
                                          "untouched" if o["untouched"] else "written" if o["spec_exists"] else "none")
            outcome[key] = outcome.get(key, 0) + 1
            if o["timeout"]:
                continue            # C14's business
            if o["exit"] != 0 and o["spec_exists"] and not o["untouched"]:
                hard.append((k, v, "the command failed (exit %s) but a spec file %s" %
                             (o["exit"], "replaced the one of an earlier run" if o["sentinel"] else "was written")))
            if o["exit"] == 0 and (not o["spec_exists"] or o["untouched"]):
                hard.append((k, v, "the command reported success but wrote no spec file"))
            if o["unparsable"]:
                hard.append((k, v, "the spec file is not JSON"))
            cases.append((v, u, o["spec"]))
            meta.append((k, v, "raw", set()))
            spec2, applied = neutralise(o["spec"], v, u)
            if applied:
                cases.append((v, u, spec2))
                meta.append((k, v, "neutral", applied))
    ev = S.evaluate(PROP, cases)
    neutral_of = {(k, v): i for i, (k, v, kind, _) in enumerate(meta) if kind == "neutral"}

    def observe(u, v):
        return T.run_universes(PROP + "_shrink", [u], versions=[v])[0][v]

    def unexplained_failure(u, v, spec):
        """Clauses failing after neutralising the known classes, or a text for an unprojectable file."""
        spec2, applied = neutralise(spec, v, u)
        e = S.evaluate(PROP, [(v, u, spec2)], "shrink")
        if e["unprojectable"]:
            return "unprojectable: " + e["unprojectable"][0]
        cl = set(e["c08_fail"].get(0, []))
        if paths_mismatch_equal_counts(u):
            cl.discard(2)
        if T.shape_errors(spec):
            cl.add(7)
        return sorted(cl) or None

    def still_fails(v):
        def pred(u):
            o = observe(u, v)
            return o["spec"] is not None and unexplained_failure(u, v, o["spec"]) is not None
        return pred

    class_hits = {}
    unexplained = []
    shape_failures = 0
    for i, (k, v, kind, _) in enumerate(meta):
        if kind != "raw":
            continue
        # clause 7 is decided on the raw JSON (the abstract document is typed: it cannot hold a null where a
        # list has to stand); no known finding excuses it
        shape = T.shape_errors(cases[i][2]) if cases[i][2] is not None else []
        if shape:
            shape_failures += 1
            unexplained.append((i, CLAUSES[7] + ": " + "; ".join(shape[:3])))
            continue
        if i in ev["unprojectable"]:
            unexplained.append((i, "the written file cannot be read as an OpenAPI document: " + ev["unprojectable"][i]))
            continue
        if i not in ev["c08_fail"]:
            continue
        u = universes[k]
        classes = set()
        j = neutral_of.get((k, v))
        rest = set(ev["c08_fail"][i])
        if j is not None and j not in ev["unprojectable"]:
            rest = set(ev["c08_fail"].get(j, []))
            classes |= set(meta[j][3])
        if 2 in rest and paths_mismatch_equal_counts(u):
            rest.discard(2)
            classes.add(CLS_PATHS)
        if rest:
            unexplained.append((i, "; ".join(CLAUSES[c] for c in sorted(rest))))
            continue
        missing = [c for c in classes if c not in known]
        replay = {"kind": "property-fails-on-implementation", "openapi": v, "input": u, "label": items[k][0],
                  "failed_clauses": [CLAUSES[c] for c in ev["c08_fail"][i]], "document": obs[k][v]["spec"]}
        if missing:
            replay["unlisted_finding_classes"] = missing
            res.violation(replay)
        else:
            for c in classes:
                class_hits[c] = class_hits.get(c, 0) + 1
                res.known(known[c], "the %s document written for a '%s' project: %s" %
                          (v, items[k][0], "; ".join(CLAUSES[x] for x in ev["c08_fail"][i])))
    for k, v, why in hard[:2]:
        res.violation({"kind": "property-fails-on-implementation", "openapi": v, "input": universes[k],
                       "label": items[k][0], "why": why, "cli_exit": obs[k][v]["exit"],
                       "cli_output": obs[k][v]["out"][-1500:]})
    reported = 0
    for i, why in unexplained:
        if reported >= 2:
            break
        reported += 1
        k, v, _, _ = meta[i]
        small = universes[k] if a.replay else T.shrink_universe(universes[k], still_fails(v))
        o = observe(small, v)
        res.violation({"kind": "property-fails-on-implementation", "openapi": v, "input": small, "label": items[k][0],
                       "why": why, "after_shrinking": unexplained_failure(small, v, o["spec"]) if o["spec"] else None,
                       "json_kind_errors": T.shape_errors(o["spec"]) if o["spec"] else [],
                       "document": o["spec"], "cli_exit": o["exit"], "cli_output": o["out"][-1200:],
                       "claim": "prop_C08: every $ref resolves, path templates and required path parameters match, "
                                "parameter names are unique per location, responses are described, enum values fit "
                                "the schema type, info/servers/securitySchemes are the configuration's; every member has "
                                "the JSON kind the OpenAPI schema prescribes"})

    # ---- correspondence: the model of the command (document or failure) against the implementation
    retyped = set((m[0], m[1]) for m in meta if m[2] == "neutral" and C07.CLS_YAML31 in m[3])
    disagree = [i for i in ev["disagree_doc"] if meta[i][2] == "raw" and not C07.has_same_named(universes[meta[i][0]])
                and (meta[i][0], meta[i][1]) not in retyped]
    if disagree and not res.violations:
        i = disagree[0]
        k, v, _, _ = meta[i]
        res.violation({"kind": "correspondence", "obligation": "corr:Schema.cmd (document or failure)", "openapi": v,
                       "input": universes[k], "label": items[k][0], "document": obs[k][v]["spec"],
                       "cli_exit": obs[k][v]["exit"], "cli_output": obs[k][v]["out"][-1200:],
                       "note": "model and implementation disagree on %d of %d runs; prop_C08 holds on every file "
                               "written in this run" % (len(disagree), len([m for m in meta if m[2] == 'raw']))},
                      no_input=True)

    raw = [i for i, m in enumerate(meta) if m[2] == "raw"]
    written = [i for i in raw if cases[i][2] is not None]
    distinct = set(json.dumps(cases[i][1], sort_keys=True) for i in written)
    labels = {}
    for l, _ in items:
        labels[l] = labels.get(l, 0) + 1
    res.coverage.update({
        "evaluations": len(raw), "distinct_nontrivial": len(distinct),
        "rule": "type universes of the C07 generator with their controllers (accepted stream; methods may take a "
                "context.Context parameter at any position) and perturbed copies: "
                + ", ".join(KINDS) + "; each rendered to Go and run through the real CLI for 3.0.0 and 3.1.0, half of "
                "the perturbed projects with a foreign spec file already at outputPath; @Security annotations are written "
                "with and without the optional scopes property, on controllers and routes; wf + configuration sections "
                "(prop_C08) are evaluated by vm_compute on whatever file is at outputPath afterwards and the JSON kind of "
                "every security / required / tags / parameters / responses member on the raw file, failed commands "
                "must leave the path untouched; non-trivial = a document was written; distinct = distinct projects",
        "samples": [{"openapi": cases[i][0], "label": items[meta[i][0]][0], "universe": cases[i][1],
                     "cli_exit": obs[meta[i][0]][cases[i][0]]["exit"]} for i in raw[6:8]],
        "traces_validated_against_impl": len(raw) - len([i for i in ev["disagree_doc"] if meta[i][2] == "raw"]),
        "disagreements": len(disagree),
        "property_oracle_failures_raw": len([i for i in raw if i in ev["c08_fail"] or i in ev["unprojectable"]]),
        "property_oracle_failures_unexplained": len(unexplained) + len(hard),
        "known_finding_class_hits": class_hits,
        "input_distribution": {"projects": len(universes), "cli_runs": len(raw), "labels": labels,
                               "documents_written": len(written), "commands_failed": len(raw) - len(written),
                               "runs_with_foreign_file_in_place": 2 * len(sentinel),
                               "projects_with_a_scope_less_security_annotation_in_effect": len(
                                   [1 for u in universes if scopeless_in_effect(u)]),
                               "documents_failing_the_json_kind_clause": shape_failures,
                               "outcomes": outcome,
                               "model_predicts_failure": len([i for i in ev["model_none"] if meta[i][2] == "raw"]),
                               "runs_satisfying_well_linked (C08_wf_partial)":
                                   len([i for i in ev["well_linked"] if meta[i][2] == "raw"])},
    })
    res.assumptions += [
        "the kin-openapi and libopenapi validators are an oracle: the check observes their verdict through the "
        "command's exit status; only the fragment in Schema.lib_model_ok_v is modelled for the correspondence",
        "a timed-out run is left to C14",
        "the abstract document keeps schemas up to type/format/$ref/items/additionalProperties; unknown keys in a "
        "component are a hard error of the projection",
    ]
    T.cleanup(PROP)
    T.cleanup(PROP + "_shrink")
    sys.exit(res.finish())


if __name__ == "__main__":
    main()
