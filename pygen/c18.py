#!/usr/bin/env python3
"""C18 - diagnostics point at the construct they complain about.

On the perturbed projects of C10 (generator imported from c10.py, renderer c18layout.py), laid out with varying
indentation, blank lines, free comments, multibyte text, other comments in front of an annotation
on the same line, result lists spread over several lines, the same annotated method at two places of a
project (same file or another one), several controllers per file and several files: every diagnostic of
pipeline.Validate() (implrun diagtree: the unflattened entity tree) is checked by the oracle
prop_C18_diag (file, range inside file and construct, covered text = value, code/severity), the
list and the error text are checked for duplicates (prop_C18_list, prop_C18_text), and the model
(Model/Diag.v: ranges of the Linker diagnostics, GetDiagnosticsWithSeverity + DiagnosticsToError)
is compared with the implementation (ranges per receiver, error text byte for byte).

Validate() is called ROUNDS times on the same pipeline (implrun diagtree "rounds"): no diagnostic twice in the list
of any call, and every later call reports the diagnostics of the first one (prop_C18_rounds).  Controllers without a
@Tag (a warning of the controller itself, about its own comment) stand in any file of a project."""
import concurrent.futures
import copy
import json
import os
import random
import re
import shutil
import subprocess
import sys

sys.path.insert(0, os.path.dirname(os.path.abspath(__file__)))
from common import *  # noqa
import project as P
import c10
import c18layout

PROP = "C18"

COMMENT_CODES = {"annotation-unknown", "annotation-invalid-in-context", "annotation-value-must-exist",
                 "annotation-value-invalid", "unsupported-feature", "annotation-properties-should-not-exist",
                 "annotation-property-should-not-exist", "annotation-properties-invalid-value-for-key",
                 "annotation-duplicate", "annotation-duplicate-value", "annotation-mutually-exclusive",
                 "linker-route-missing-path-reference", "linker-multiple-parameter-refs",
                 "linker-path-annotation-invalid-reference", "linker-duplicate-path-param",
                 "linker-duplicate-path-alias-ref", "linker-duplicate-url-parameter", "controller-missing-tag",
                 "route-conflict"}
PARAM_CODES = {"linker-unreferenced-parameter", "receiver-invalid-body", "receiver-parameter-not-primitive"}
RET_CODES = {"receiver-return-values-invalid-signature", "receiver-return-value-is-not-an-error",
             "receiver-missing-security"}
DECL_CODES = PARAM_CODES | RET_CODES

# return types whose EARLIER value is the longer text (with a wrapped result list the end column of the last
# value is then smaller than that of an earlier one); all of them end in a diagnostic about the return values
EXTRA_RETS = [["RForeignStruct", "RPlain"], ["RLocalStruct", "RPlain"], ["RLocalEmbeds", "RPlain"],
              ["RForeignStruct", "RPlain", "RError"], ["RLocalStruct", "RError", "RPlain"],
              ["RForeignStruct", "RLocalStruct"]]

KNOWN_CLASSES = {"entity-per-error-diagnostic": "an entity with k error diagnostics is printed k times in the error text",
                 "children-printed-under-parent": "a parent with an error diagnostic prints its descendants' diagnostics, "
                                                  "which are printed again in their own blocks",
                 "duplicate-sibling-entity": "GetChild(kind, name) called with swapped arguments: a receiver that already "
                                             "has diagnostics gets a second entity node for each route conflict",
                 "repeated-route-conflict": "a route that conflicts with several others gets the same route-conflict "
                                            "warning once per conflict (the message does not name the other route)",
                 "void-return-range": "the diagnostic about a method that returns nothing has the zero range 0:0-0:0",
                 "undocumented-controller-position": "the missing-@Tag warning of a controller that has no comment at all "
                                                     "names no file (FilePath \"\") and has the zero range 0:0-0:0"}

ROUNDS = 3          # Validate() calls on one pipeline

MB = ["é", "日本", "ünï", "→ ok", "Ω"]


# ------------------------------------------------------------------ layouts

def vary_layout(rng, r):
    r = copy.deepcopy(r)
    r["indent"] = rng.choice(["", "", "\t", "  ", "\t  ", "    "])
    r["gap"] = rng.choice([1, 1, 2, 3])
    if rng.random() < 0.4:
        r["lead"] = [rng.choice(["Does a thing", "Résumé des opérations " + rng.choice(MB), "multi " + rng.choice(MB)])
                     for _ in range(rng.choice([1, 2]))]
    for a in r["attrs"]:
        if a["v"] != "" and rng.random() < 0.35:        # a description (after the value), often multibyte
            a["descr"] = rng.choice(["plain text", rng.choice(MB) + " desc", "x " + rng.choice(MB)])
        if rng.random() < 0.15:                           # another comment of the group on the same line, in front
            a["before"] = "/* %s */ " % rng.choice(MB + ["a"])
    if len(r["rets"]) >= 2 and rng.random() < 0.5:
        r["retwrap"] = gen_retwrap(rng, len(r["rets"]))
    return r


def gen_retwrap(rng, n):
    """A result list of n values spread over several lines (see c18layout): at least one line feed."""
    while True:
        w = {"open": rng.random() < 0.6, "seps": [rng.random() < 0.7 for _ in range(n - 1)], "close": rng.random() < 0.6,
             "cind": rng.choice(["\t", "\t", "\t\t", "    ", ""])}
        if w["open"] or w["close"] or any(w["seps"]):
            return w


def twin_of(rng, r, nfiles):
    """The same annotated method a second time in the project (other name, other first route segment, other place:
    every comment line except @Route has the same TEXT at another position).  None when the route cannot be told
    apart by its first segment."""
    t = copy.deepcopy(r)
    t["name"] = r["name"] + "Tw"
    for a in t["attrs"]:
        if a["k"] == "Route":
            v2 = re.sub(r"^/([A-Za-z0-9_-]+)", lambda m: "/" + m.group(1) + "tw", a["v"], 1)
            if v2 == a["v"]:
                return None
            a["v"] = v2
    t["indent"] = rng.choice(["", "\t", "  ", "      "])
    t["gap"] = rng.choice([1, 2, 4])
    t["lead"] = [rng.choice(["twin", "twin " + rng.choice(MB)]) for _ in range(rng.choice([0, 1, 3]))]
    t["file"] = rng.randrange(nfiles)
    t["pert"] = list(r.get("pert", [])) + ["twin"]
    t["twin_of"] = r["name"]
    return t


def conflict_of(rng, r, nfiles):
    """The same annotated method a second time under the SAME route (other name, other place): the two collide, and
    each side has whatever diagnostics the method has of its own."""
    t = copy.deepcopy(r)
    t["name"] = r["name"] + "Cf"
    t["indent"] = rng.choice(["", "\t", "  "])
    t["gap"] = rng.choice([1, 2])
    t["lead"] = [rng.choice(["collides", "collides " + rng.choice(MB)]) for _ in range(rng.choice([0, 1]))]
    t["file"] = rng.randrange(nfiles)
    t["pert"] = list(r.get("pert", [])) + ["conflict"]
    t["conflict_of"] = r["name"]
    return t


def make_projects(rng, routes, per=24):
    """Projects with several files and several controllers per file."""
    projects = []
    for lo in range(0, len(routes), per):
        chunk = routes[lo:lo + per]
        prefixes = sorted(set(r["prefix"] for r in chunk))
        ctls, byp = [], {}
        nfiles = rng.choice([2, 3])
        for k, pre in enumerate(prefixes):
            byp[pre] = "Ctl%d" % k
            ctls.append({"name": byp[pre], "prefix": pre, "file": k % 2,      # two controllers share file 0 when 3+ prefixes
                         "indent": rng.choice(["", "", "\t"]), "gap": rng.choice([1, 2]),
                         "lead": ([rng.choice(MB) + " controller"] if rng.random() < 0.4 else [])})
        rs = []
        for r in chunk:
            r2 = vary_layout(rng, r)
            r2["ctl"] = byp[r["prefix"]]
            r2["file"] = rng.randrange(nfiles)
            rs.append(r2)
            # more often when an annotation carries a properties object (its own positional data)
            if rng.random() < (0.5 if any(a.get("alias") or a.get("xprop") for a in r2["attrs"]) else 0.1):
                tw = twin_of(rng, r2, nfiles)
                if tw is not None:
                    rs.append(tw)
        # (drawn after the loops: the layouts above stay what they were)
        cands = [r for r in rs if r.get("pert") and not r.get("twin_of")]
        for r in rng.sample(cands, min(len(cands), rng.choice([0, 1, 2]))):
            rs.append(conflict_of(rng, r, nfiles))
        for c in ctls:
            if rng.random() < 0.4:
                c["tag"] = None        # no @Tag: controller-missing-tag, about the controller's own comment (it has @Route)
            if rng.random() < 0.3:
                c["file"] = rng.randrange(nfiles)
        projects.append({"controllers": ctls, "routes": rs})
    return projects


def deliberate_projects(undocumented=False):
    """Small projects that show every recorded class on each run."""
    A = lambda k, v, al=None: {"k": k, "v": v, "alias": ({"s": al} if al is not None else None)}
    mk = lambda n, attrs, ps, rets: {"name": n, "prefix": "/c", "ctl": "Ctl0", "attrs": attrs, "params": ps, "rets": rets,
                                     "pert": ["deliberate"]}
    p1 = {"controllers": [{"name": "Ctl0", "prefix": "/c", "attrs": [{"k": "Route", "v": ""}, {"k": "Method", "v": "GET"}]}],
          "routes": [mk("A", [A("Method", "GET"), A("Route", "/same")], [], ["RError"]),
                     mk("B", [A("Method", "GET"), A("Route", "/same"), A("Query", "zz")], [], ["RError"]),
                     mk("C", [A("Method", "GET"), A("Route", "/same"), A("Query", "zz"), A("Header", "yy")], [], ["RError"])]}
    p2 = {"controllers": [{"name": "Ctl0", "prefix": "/c"}],
          "routes": [mk("Void", [A("Method", "POST"), A("Route", "/void")], [], []),
                     mk("PathA", [A("Method", "GET"), A("Route", "/pa"), A("Path", "a")], [], ["RError"])]}
    # the alias diagnostic comes from two passes of the link validator: de-duplication must work across other
    # diagnostics; verbs in other letter cases are invalid values, HEAD is an unsupported feature
    nonstr = lambda v, n: {"k": "Path", "v": v, "alias": {"n": n}}
    p3 = {"controllers": [{"name": "Ctl0", "prefix": "/c"}],
          "routes": [mk("TwoNonStr", [A("Method", "GET"), A("Route", "/tn/{id}/{post}"), nonstr("id", 5), nonstr("post", 6)],
                        [{"name": "id", "base": "TPrim", "shape": "SPlain"}, {"name": "post", "base": "TPrim", "shape": "SPlain"}],
                        ["RError"]),
                     mk("ThreeNonStr", [A("Method", "GET"), A("Route", "/t3/{pa}/{pb}/{pc}"), nonstr("pa", 1), nonstr("pb", 2), nonstr("pc", 3)],
                        [{"name": n_, "base": "TPrim", "shape": "SPlain"} for n_ in ("pa", "pb", "pc")], ["RError"]),
                     mk("NonStrMissing", [A("Method", "GET"), A("Route", "/nm/{id}"), nonstr("idd", 5)],
                        [{"name": "id", "base": "TPrim", "shape": "SPlain"}], ["RError"]),
                     mk("VerbLower", [A("Method", "get"), A("Route", "/vl")], [], ["RError"]),
                     mk("VerbMixed", [A("Method", "Post"), A("Route", "/vm")], [], ["RError"]),
                     mk("VerbHead", [A("Method", "HEAD"), A("Route", "/vh")], [], ["RError"])]}
    # the same annotation line with a properties object at several places: below in the same file, in another file
    pa = lambda n, route, extra: dict(mk(n, [A("Method", "GET"), A("Route", route), nonstr("id", 5)],
                                         [{"name": "id", "base": "TPrim", "shape": "SPlain"}], ["RError"]), **extra)
    p4 = {"controllers": [{"name": "Ctl0", "prefix": "/c"}],
          "routes": [pa("PropsFirst", "/pf/{id}", {"file": 0}),
                     pa("PropsBelow", "/pb/{id}", {"file": 0, "indent": "\t", "gap": 3, "lead": ["below " + MB[1]]}),
                     pa("PropsOtherFile", "/po/{id}", {"file": 1, "indent": "  ", "lead": ["elsewhere", "second line"]}),
                     pa("PropsOtherFileB", "/pq/{id}", {"file": 1, "gap": 2})]}
    # result lists spread over several lines, the longer type first / last, with a diagnostic about the return values
    wr = lambda n, rets, w, extra={}: dict(mk(n, [A("Method", "GET"), A("Route", "/" + n.lower())], [], rets),
                                           retwrap=dict({"cind": "\t"}, **w), **extra)
    p5 = {"controllers": [{"name": "Ctl0", "prefix": "/c"}],
          "routes": [wr("WrapAll", ["RForeignStruct", "RPlain"], {"open": True, "seps": [True], "close": True}),
                     wr("WrapThree", ["RForeignStruct", "RPlain", "RError"], {"open": False, "seps": [True, True], "close": False}),
                     wr("WrapTail", ["RPlain", "RLocalStruct"], {"open": False, "seps": [True], "close": False},
                        {"indent": "\t"}),
                     wr("WrapMixed", ["RLocalStruct", "RError", "RPlain"], {"open": True, "seps": [False, True], "close": True,
                                                                           "cind": "    "}),
                     wr("WrapFine", ["RLocalStruct", "RError"], {"open": True, "seps": [True], "close": True}),
                     wr("OneLine", ["RForeignStruct", "RPlain"], {"open": False, "seps": [False], "close": False})]}
    # controllers without a @Tag in the first and the middle one of three files, a tagged one in the last file; two
    # controllers in one file; a method with a diagnostic of its own on each side of a route conflict and one without
    ct = lambda n, pre, fi, **kw: dict({"name": n, "prefix": pre, "file": fi}, **kw)
    mc = lambda n, ctl, pre, attrs, fi: dict(mk(n, attrs, [], ["RError"]), ctl=ctl, prefix=pre, file=fi)
    p6 = {"controllers": [ct("CtlA", "/a", 0, tag=None, lead=["first file " + MB[0]]), ct("CtlB", "/b", 1, tag=None, indent="\t"),
                          ct("CtlC", "/b2", 1, gap=2), ct("CtlD", "/d", 2), ct("CtlE", "/e", 0, tag=None, gap=3)],
          "routes": [mc("ConfOwn", "CtlA", "/a", [A("Method", "GET"), A("Route", "/x/{v}"), A("Query", "zz")], 0),
                     mc("ConfBare", "CtlA", "/a", [A("Method", "GET"), A("Route", "/x/latest")], 2),
                     mc("ConfOwn2", "CtlB", "/b", [A("Method", "POST"), A("Route", "/y"), A("Header", "hh")], 1),
                     mc("ConfOwn3", "CtlB", "/b", [A("Method", "POST"), A("Route", "/y"), A("Query", "qq")], 0),
                     mc("Fine", "CtlC", "/b2", [A("Method", "GET"), A("Route", "/fine")], 1),
                     mc("FineD", "CtlD", "/d", [A("Method", "GET"), A("Route", "/fine")], 2),
                     mc("FineE", "CtlE", "/e", [A("Method", "GET"), A("Route", "/fine")], 0)]}
    out = [p1, p2, p3, p4, p5, p6]
    if undocumented:
        # a controller without any comment (no @Tag, no @Route, no free text), next to documented ones
        p7 = {"controllers": [ct("Bare", "", 0, tag=None), ct("CtlT", "/t", 1), ct("CtlU", "/u", 1, tag=None)],
              "routes": [mc("OfBare", "Bare", "", [A("Method", "GET"), A("Route", "/bare")], 0),
                         mc("OfT", "CtlT", "/t", [A("Method", "GET"), A("Route", "/t")], 1),
                         mc("OfU", "CtlU", "/u", [A("Method", "GET"), A("Route", "/u")], 0)]}
        out.append(p7)
    return out


# ------------------------------------------------------------------ running

def run_diagtree(job):
    p = subprocess.run([os.path.join(BIN, "implrun"), "diagtree"], input=json.dumps(job).encode(), env=GOENV,
                       stdout=subprocess.PIPE, stderr=subprocess.PIPE, timeout=300)
    if p.returncode != 0:
        return {"crash": p.stderr.decode(errors="replace")[-2000:]}
    try:
        return json.loads(p.stdout.decode())
    except ValueError:
        return {"crash": "unparsable output: " + p.stdout.decode(errors="replace")[-500:]}


def run_projects(projects, workdir):
    shutil.rmtree(workdir, ignore_errors=True)
    P.make_module(workdir)
    jobs, layouts = [], []
    for k, pr in enumerate(projects):
        root = os.path.join(workdir, "p%d" % k)
        layouts.append(c18layout.render_lproject(pr, root, "verifproj/p%d" % k))
        jobs.append({"dir": root, "config": "gleece.json", "rounds": ROUNDS})
    with concurrent.futures.ThreadPoolExecutor(max_workers=14) as ex:
        outs = list(ex.map(run_diagtree, jobs))
    return outs, layouts


# ------------------------------------------------------------------ the oracle's inputs

def flatten(tree):
    """[(parent key, entity dict, index among siblings)] in tree order."""
    out = []

    def go(parent, ents):
        for k, e in enumerate(ents):
            out.append((parent, e, k))
            go((e["kind"], e["name"]), e["children"])
    go(None, tree)
    return out


def expected_value(d, lay):
    """(value the range should cover) for diagnostics about an annotation's value, else None."""
    code, msg = d["code"], d["message"]
    m = None
    if code in ("annotation-value-invalid", "unsupported-feature"):
        m = re.search(r"(?:Invalid HTTP verb|HTTP verb|status code) '([^']*)'", msg)
    elif code == "linker-path-annotation-invalid-reference":
        m = re.match(r"@\w+ '([^']*)' (?:is not a parameter|does not match)", msg)
    elif code == "linker-multiple-parameter-refs":
        m = re.match(r"Function parameter '([^']*)' is referenced", msg)
    elif code in ("linker-route-missing-path-reference", "linker-duplicate-url-parameter"):
        m = re.search(r"URL parameter '([^']*)'", msg)
        return ("{" + m.group(1) + "}") if m else None
    elif code == "route-conflict":
        for a in lay["attrs"]:
            if a["text"].startswith("// @Route("):
                return re.match(r"// @Route\(([^,)]*)", a["text"]).group(1)
        return None
    elif code == "annotation-properties-invalid-value-for-key" and d["severity"] == 1:
        # the properties object of the annotation the message names (annotation name + printed value of `name`),
        # found in the comment by its text, wherever the diagnostic points
        mm = re.match(r"Invalid value for property 'name' in attribute (\w+) \('(.*)'\)$", msg)
        cands = set()
        for a in (lay["attrs"] if mm else []):
            ma = re.match(r"// @(\w+)\(.*?(\{.*\})\)", a["text"])
            if ma and ma.group(1) == mm.group(1) and re.search(r"name:\s*%s\s*[,}]" % re.escape(mm.group(2)), ma.group(2)):
                cands.add(ma.group(2))
        if len(cands) == 1:
            return cands.pop()
        for a in lay["attrs"]:
            if a["line"] == d["start_line"]:
                mm = re.search(r"\{.*\}", a["text"])
                return mm.group(0) if mm else None
        return None
    return m.group(1) if m else None


def region_of(d, lay, file_lines):
    """The construct a diagnostic concerns: the doc comment for annotation-related codes; for a code about the
    parameters the parameter list, for a code about the return values the result list, of the declaration."""
    code = d["code"]
    # the validators use the return-signature code for two rules about PARAMETERS as well (a second body, a form
    # field next to a body: "Body parameter is invalid, ..." / "Form parameter is invalid, ...", on the parameter)
    about_param = code in PARAM_CODES or (code == "receiver-return-values-invalid-signature"
                                          and re.match(r"(Body|Form) parameter is invalid", d["message"]))
    if about_param and lay.get("paramlist"):
        return lay["paramlist"]
    if code in RET_CODES and not about_param and lay.get("retlist"):
        return lay["retlist"]
    if code in DECL_CODES:
        l0, l1 = lay["decl"]
        return (l0, 0, l1, len(file_lines[l1]) if l1 < len(file_lines) else 0)
    if lay.get("doc"):
        l0, l1 = lay["doc"]
        return (l0, 0, l1, len(file_lines[l1]) if l1 < len(file_lines) else 0)
    return (0, 0, 0, 0)


def build_odiags(out, layout, tree=None):
    """Per project: list of dicts with everything prop_C18_diag needs (of the first Validate(), or of `tree`)."""
    files = {}
    res = []
    for parent, e, _ in flatten((out.get("tree") or []) if tree is None else tree):
        lay = layout.get((e["kind"], e["name"]))
        for d in e["diags"]:
            rec = {"entity": (e["kind"], e["name"]), "d": d}
            if lay is not None and e["kind"] == "Controller" and not lay.get("doc"):
                rec["undocumented"] = True
            ok = lay is not None and os.path.exists(d["file"]) and os.path.samefile(d["file"], lay["path"])
            path = d["file"] if os.path.exists(d["file"]) else None
            if path and path not in files:
                files[path] = open(path, "rb").read().split(b"\n")
            fl = files.get(path, [])
            sl, sc, el, ec = d["start_line"], d["start_col"], d["end_line"], d["end_col"]
            rec["file_ok"] = bool(ok)
            rec["nlines"] = len(fl)
            rec["len_sl"] = len(fl[sl]) if 0 <= sl < len(fl) else 0
            rec["len_el"] = len(fl[el]) if 0 <= el < len(fl) else 0
            rec["region"] = region_of(d, lay, fl) if lay else (0, 0, 0, 0)
            ev = expected_value(d, lay) if lay else None
            if ev is not None:
                if sl == el and 0 <= sl < len(fl):
                    cov = fl[sl][sc:ec]
                else:
                    cov = b"<multi-line>"
                rec["value"] = (ev.encode(), cov)
                # stricter than the property text: does the range sit on the value between the parentheses?
                rec["at_value"] = None
                for a in (lay["attrs"] if lay else []):
                    if a["line"] == sl and ev and "(" in a["text"]:
                        want = a["col"] + a["text"].index("(") + 1
                        if d["code"] in ("linker-route-missing-path-reference", "linker-duplicate-url-parameter"):
                            want += a["text"][a["text"].index("(") + 1:].find(ev)
                        elif d["code"] == "annotation-properties-invalid-value-for-key":
                            # (a mis-placed diagnostic may sit on an attribute that has no properties object at all)
                            want = a["col"] + a["text"].index("{") if "{" in a["text"] else -1
                        rec["at_value"] = (sc == want)
            else:
                rec["value"] = None
            res.append(rec)
    return res


def coq_rng(t):
    return "(mkG %d %d %d %d)" % tuple(max(0, x) for x in t)


def coq_odiag(rec):
    d = rec["d"]
    val = "None" if rec["value"] is None else "(Some (%s, %s))" % (coq_bytes(rec["value"][0]), coq_bytes(rec["value"][1]))
    # two different entities may carry textually identical diagnostics (two void methods of one file): the entity
    # is part of a diagnostic's identity; sibling nodes of ONE receiver (duplicate-sibling-entity) share it
    msg = (d["file"] + "|" + rec["entity"][0] + " " + rec["entity"][1] + "|" + d["message"]).encode()
    verb = None
    if d["code"] in ("annotation-value-invalid", "unsupported-feature"):
        m = re.match(r"(?:Invalid HTTP verb|HTTP verb) '([^']*)'", d["message"])
        verb = m.group(1) if m else None
    return "(mkOd %d %d %s %s %s %d %d %d %s %s %s)" % (
        c10.CODE_N.get(d["code"], 99), d["severity"],
        coq_rng((d["start_line"], d["start_col"], d["end_line"], d["end_col"])), coq_bytes(msg), coq_bool(rec["file_ok"]),
        rec["nlines"], rec["len_sl"], rec["len_el"], coq_rng(rec["region"]), val,
        "None" if verb is None else "(Some %s)" % coq_bytes(verb))


NO_SUGGESTION = lambda m: re.sub(r"\. Did you mean '[^']*'\?", "", m)


def coq_odiag_id(rec):
    """The identity of a diagnostic (what odiag_same compares), the suggestion taken out of the message."""
    d = rec["d"]
    msg = (d["file"] + "|" + rec["entity"][0] + " " + rec["entity"][1] + "|" + NO_SUGGESTION(d["message"])).encode()
    return "(mkOl %d %d %s %s)" % (c10.CODE_N.get(d["code"], 99), d["severity"],
                                   coq_rng((d["start_line"], d["start_col"], d["end_line"], d["end_col"])), coq_bytes(msg))


SEVS = {1: "EError", 2: "EWarning", 3: "EInfo", 4: "EHint"}


def coq_entity(e):
    ds = coq_list(["(mkRd %s %s %s %d %d %s)" % (coq_bytes(d["code"]), SEVS[d["severity"]], coq_bytes(d["file"]),
                                               d["start_line"], d["start_col"], coq_bytes(d["message"])) for d in e["diags"]])
    return "(Ent %s %s %s %s)" % (coq_bytes(e["kind"]), coq_bytes(e["name"]), ds, coq_list([coq_entity(c) for c in e["children"]]))


def coq_layout(lay):
    attrs = coq_list(["(mkC %d %d %s)" % (a["line"], a["col"], coq_bytes(a["text"])) for a in lay["attrs"]])
    params = coq_list([coq_rng(p) for p in lay["params"]])
    # RetValsRange is the model's: from the single return values, in declaration order
    return "(mkLy %s %s (rets_range %s))" % (attrs, params, coq_list([coq_rng(v) for v in lay.get("retvals", [])]))


COQ_HEADER = c10.COQ_HEADER.replace("Model.Linker.", "Model.Linker Model.Diag.") + """
Definition mkG a b c d := {| g_sl := a; g_sc := b; g_el := c; g_ec := d |}.
Definition mkC l c t := {| c_line := l; c_col := c; c_text := t |}.
Definition mkLy a p r := {| ly_attrs := a; ly_params := p; ly_rets := r |}.
Definition mkRd c sv f l co m := {| rd_code := c; rd_sev := sv; rd_file := f; rd_line := l; rd_col := co; rd_msg := m |}.
Definition mkOd c sv g m ok n l1 l2 reg v vb :=
  {| od_code := c; od_sev := sv; od_range := g; od_msg := m; od_file_ok := ok; od_nlines := n; od_len_sl := l1;
     od_len_el := l2; od_region := reg; od_value := v; od_verb := vb |}.
Definition mkOl c sv g m := mkOd c sv g m true 0 0 0 (mkG 0 0 0 0) None None.
"""


def evaluate(projects, outs, layouts, tag):
    """One coqc run per few projects.  Returns per project: oracle numbers per diagnostic, list/text oracle,
    range correspondence per receiver, text correspondence."""
    results = []
    SH = 6
    for lo in range(0, len(projects), SH):
        body = COQ_HEADER
        names = []
        for k in range(lo, min(lo + SH, len(projects))):
            out, lay, pr = outs[k], layouts[k], projects[k]
            od = build_odiags(out, lay)
            tree = out.get("tree") or []
            body += "Definition od_%d : list odiag := [\n%s].\n" % (k, ";\n".join(coq_odiag(x) for x in od))
            # the rounds are compared on what identifies a diagnostic (entity, file, code, severity, range, message
            # without the "Did you mean" suggestion, which follows Go map iteration order from call to call)
            later = [build_odiags(out, lay, t) for t in (out.get("later_rounds") or [])]
            body += "Definition first_%d : list odiag := [\n%s].\n" % (k, ";\n".join(coq_odiag_id(x) for x in od))
            body += "Definition later_%d : list (list odiag) := %s.\n" % (
                k, coq_list(["[\n%s]" % ";\n".join(coq_odiag_id(x) for x in l) for l in later]))
            body += ("Definition r_%d := Eval vm_compute in [bool_n (prop_C18_rounds first_%d later_%d); "
                     "bool_n (prop_C18_rounds_nodup later_%d)].\nPrint r_%d.\n") % ((k,) * 5)
            body += "Definition tree_%d : list entity := %s.\n" % (k, coq_list([coq_entity(e) for e in tree]))
            body += "Definition text_%d : str := %s.\n" % (k, coq_bytes((out.get("error_text") or "").encode()))
            # receivers: route, layout, implementation (code, severity, range) without the route conflicts
            impl = {}
            for parent, e, _ in flatten(tree):
                if e["kind"] == "Receiver":
                    for d in e["diags"]:
                        if d["code"] != "route-conflict":
                            impl.setdefault(e["name"], []).append(
                                "(%d, %d, %s)" % (c10.CODE_N.get(d["code"], 99), d["severity"],
                                                  coq_rng((d["start_line"], d["start_col"], d["end_line"], d["end_col"]))))
            ctl_prefix = {c["name"]: c["prefix"] for c in pr["controllers"]}
            rows = []
            for r in pr["routes"]:
                rows.append("(%s, %s, %s)" % (c10.coq_route(r, ctl_prefix[r["ctl"]]), coq_layout(lay[("Receiver", r["name"])]),
                                             coq_list(impl.get(r["name"], []))))
            body += "Definition recv_%d : list (route * layout * list (nat * nat * rng)) := [\n%s].\n" % (k, ";\n".join(rows))
            body += ("Definition o_%d := Eval vm_compute in map prop_C18_diag od_%d.\nPrint o_%d.\n"
                     "Definition l_%d := Eval vm_compute in [bool_n (prop_C18_list od_%d); bool_n (prop_C18_text_tree tree_%d text_%d); "
                     "bool_n (str_eqb (error_text tree_%d) text_%d)].\nPrint l_%d.\n"
                     "Definition c_%d := Eval vm_compute in map (fun x => let '(r, ly, im) := x in "
                     "bool_n (match validate r with VDiags _ => mset_eqb ranged_eqb (ranged r ly) im | _ => true end)) recv_%d.\n"
                     "Print c_%d.\n") % ((k,) * 13)
            names.append((k, od, later))
        o = run_coq_file(PROP, "%s_%d" % (tag, lo), body)
        for k, od, later in names:
            results.append({"oracle": parse_nat_list(o, "o_%d" % k), "lists": parse_nat_list(o, "l_%d" % k),
                            "corr": parse_nat_list(o, "c_%d" % k), "od": od, "rounds": parse_nat_list(o, "r_%d" % k),
                            "later": later})
    return results


# ------------------------------------------------------------------ classification of duplicates

def classify_tree(tree):
    """Which recorded classes the tree exhibits."""
    cls = set()

    def go(ents, anc_has_err):
        seen = set()
        for e in ents:
            key = (e["kind"], e["name"])
            if key in seen:
                cls.add("duplicate-sibling-entity")
            seen.add(key)
            nerr = sum(1 for d in e["diags"] if d["severity"] == 1)
            if nerr >= 2:
                cls.add("entity-per-error-diagnostic")
            if anc_has_err and e["diags"]:
                cls.add("children-printed-under-parent")
            confl = [(d["start_line"], d["start_col"], d["message"]) for d in e["diags"] if d["code"] == "route-conflict"]
            if len(set(confl)) < len(confl):
                cls.add("repeated-route-conflict")
            go(e["children"], anc_has_err or nerr > 0)
        # the same conflict warning spread over duplicate sibling entities
        confl = [(e["name"], d["start_line"], d["start_col"], d["message"]) for e in ents for d in e["diags"]
                 if d["code"] == "route-conflict"]
        if len(set(confl)) < len(confl):
            cls.add("repeated-route-conflict")
    go(tree, False)
    return cls


def od_key(rec):
    d = rec["d"]
    return (rec["entity"], d["code"], d["severity"], d["file"], d["start_line"], d["start_col"], d["end_line"], d["end_col"],
            NO_SUGGESTION(d["message"]))


def is_undocumented(rec, o):
    """The missing-@Tag warning of a controller without any comment, without file and position (recorded class)."""
    d = rec["d"]
    return (o == 1 and d["code"] == "controller-missing-tag" and d["file"] == "" and rec.get("undocumented")
            and (d["start_line"], d["start_col"], d["end_line"], d["end_col"]) == (0, 0, 0, 0))


def round_failures(out, rs):
    """[(rec or None, clause)] of the later Validate() calls on the same pipeline: a round that does not report what
    the first one did (names a diagnostic whose number of occurrences differs), a round with a diagnostic twice that
    the recorded class repeated-route-conflict does not explain."""
    fails = []
    if len(out.get("later_rounds") or []) != ROUNDS - 1:
        fails.append((None, "a later Validate() on the same pipeline failed: %s" % out.get("validate_again_err")))
        return fails
    same, nodup = rs["rounds"]
    if not same:
        first = {}
        for rec in rs["od"]:
            first[od_key(rec)] = first.get(od_key(rec), 0) + 1
        rec_ = None
        for n, l in enumerate(rs["later"]):
            cnt = {}
            for rec in l:
                cnt[od_key(rec)] = cnt.get(od_key(rec), 0) + 1
            for rec in l + rs["od"]:
                if cnt.get(od_key(rec), 0) != first.get(od_key(rec), 0):
                    rec_ = dict(rec, round=n + 2, times_in_this_round=cnt.get(od_key(rec), 0),
                                times_in_first_round=first.get(od_key(rec), 0))
                    break
            if rec_:
                break
        fails.append((rec_, "a later Validate() on the same pipeline reports other diagnostics than the first"))
    if not nodup and not all("repeated-route-conflict" in classify_tree(t) or
                             len(set(od_key(x) for x in l)) == len(l)
                             for t, l in zip(out["later_rounds"], rs["later"])):
        fails.append((None, "duplicate diagnostic in the list of a later Validate()"))
    return fails


def has_conflict_with_own(out):
    """Some receiver has a route conflict and a diagnostic of its own (in one entity or in sibling entities)."""
    codes = {}
    for parent, e, _ in flatten(out.get("tree") or []):
        if e["kind"] == "Receiver":
            codes.setdefault((parent, e["name"]), set()).update(d["code"] for d in e["diags"])
    return any("route-conflict" in c and len(c) > 1 for c in codes.values())


def clause_of(rec, o):
    """Which clause of the oracle failed: a list/text duplicate, or prop_C18_diag number o on a diagnostic code."""
    if isinstance(o, str):
        return o
    return ("diag", o, rec["d"]["code"] if rec else None)


def project_failures(pr, out, rs):
    """The oracle failures of one evaluated project that no recorded class explains: [(rec or None, o)]."""
    cls = classify_tree(out.get("tree") or [])
    fails = []
    for rec, o in zip(rs["od"], rs["oracle"]):
        d = rec["d"]
        if o == 0:
            continue
        if (d["code"] == "receiver-return-values-invalid-signature" and "found void" in d["message"]
                and (d["start_line"], d["start_col"], d["end_line"], d["end_col"]) == (0, 0, 0, 0) and o == 4):
            continue
        if is_undocumented(rec, o):
            continue
        fails.append((rec, o))
    fails += round_failures(out, rs)
    list_ok, text_ok, _ = rs["lists"]
    if not list_ok and "repeated-route-conflict" not in cls:
        fails.append((None, "duplicate diagnostic in the list"))
    if not text_ok and not any(c in cls for c in ("entity-per-error-diagnostic", "children-printed-under-parent")):
        fails.append((None, "duplicate line in the error text"))
    return fails


def shrink_project(pr, clause, workdir, budget=24):
    """Delta debugging over the routes: keep a sub-project only if the SAME oracle clause still fails on it."""
    def test(routes):
        used = set(r["ctl"] for r in routes)
        cand = {"controllers": [c for c in pr["controllers"] if c["name"] in used], "routes": routes}
        outs, lays = run_projects([cand], workdir)
        if "tree" not in outs[0]:
            return False
        rs = evaluate([cand], outs, lays, "shrink")[0]
        return any(clause_of(rec, o) == clause for (rec, o) in project_failures(cand, outs[0], rs))

    items = list(pr["routes"])
    n = 2
    while len(items) >= 2 and budget > 0:
        chunk = max(1, len(items) // n)
        reduced = False
        for i in range(0, len(items), chunk):
            cand = items[:i] + items[i + chunk:]
            if not cand:
                continue
            budget -= 1
            if test(cand):
                items, n, reduced = cand, max(n - 1, 2), True
                break
            if budget <= 0:
                break
        if not reduced:
            if chunk == 1:
                break
            n = min(len(items), n * 2)
    used = set(r["ctl"] for r in items)
    return {"controllers": [c for c in pr["controllers"] if c["name"] in used], "routes": items}


def known_index():
    found = list(known_for(PROP))
    extra = os.environ.get("VERIF_KNOWN_EXTRA")
    if extra and os.path.exists(extra):
        found += [f for f in json.load(open(extra)) if f.get("property") == PROP]
    idx = {}
    for f in found:
        cls = (f.get("match") or {}).get("class")
        for cl in ([cls] if isinstance(cls, str) else list(cls or [])):
            idx[cl] = f
    return idx


def strip_project(pr):
    return {"controllers": pr["controllers"],
            "routes": [dict(c10.strip_route(dict(r, prefix=r.get("prefix", ""))), ctl=r["ctl"], file=r.get("file", 0),
                            indent=r.get("indent", ""), gap=r.get("gap", 1), lead=r.get("lead", []),
                            **({"retwrap": r["retwrap"]} if c18layout.wrap_of(r) else {}),
                            attrs=[{k: v for k, v in a.items()} for a in r["attrs"]]) for r in pr["routes"]]}


def main():
    a, seed = args_for(PROP)
    res = Result(PROP, a.tier, seed)
    rng = random.Random(seed)
    if not os.environ.get("VERIF_SKIP_COQ_BUILD"):
        build_coq()
    build_harness()
    proof_coverage(PROP, res)
    known = known_index()
    workdir = os.path.join(WORK, PROP, "mod")

    if a.replay:
        projects = [json.load(open(a.replay))["input"]]
    else:
        nbase = 8 if a.tier == "quick" else 60
        nsingle = 400 if a.tier == "quick" else 6000
        base = [c10.gen_base_route(rng, i) for i in range(nbase)]
        singles = []
        for b in base:
            singles += [x for (_, x) in c10.single_perturbations(b)]
            for rv in EXTRA_RETS:
                if rv != b["rets"]:
                    singles.append(dict(copy.deepcopy(b), rets=list(rv), pert=b["pert"] + ["rets:" + ",".join(rv)], at=None))
        rng.shuffle(singles)
        routes = [copy.deepcopy(b) for b in base] + singles[:nsingle] + c10.deliberate_routes()
        c10.rename_unique(routes)
        # a route whose validation ends in a Go error yields no diagnostics and takes the project with it
        pred = c10.coq_eval_predict(routes, [r["prefix"] for r in routes], "pred")
        routes = [r for r, p_ in zip(routes, pred) if p_ != 1]
        # the controller without any comment is generated once its class is recorded (or on request): see the
        # class undocumented-controller-position
        undoc = "undocumented-controller-position" in known or bool(os.environ.get("VERIF_C18_UNDOCUMENTED"))
        projects = make_projects(rng, routes) + deliberate_projects(undoc)

    outs, layouts = run_projects(projects, workdir)
    broken = [k for k, o in enumerate(outs) if "tree" not in o]
    # a project that cannot be analysed at all (an unpredicted Go error) is split into single-route projects
    if broken and not a.replay:
        extra = []
        for k in broken:
            for r in projects[k]["routes"]:
                ctl = next(c for c in projects[k]["controllers"] if c["name"] == r["ctl"])
                extra.append({"controllers": [dict(ctl, file=0)], "routes": [dict(r, file=0)]})
        keep = [k for k in range(len(projects)) if k not in broken]
        projects = [projects[k] for k in keep]
        outs = [outs[k] for k in keep]
        layouts = [layouts[k] for k in keep]
        o2, l2 = run_projects(extra, workdir + "_x")
        for pr, o, l in zip(extra, o2, l2):
            if "tree" in o:
                projects.append(pr)
                outs.append(o)
                layouts.append(l)
    results = evaluate(projects, outs, layouts, "cases")

    ndiag = 0
    codes, fails, classes_seen, corr_bad, text_bad, at_value_miss, unstable = {}, [], {}, [], [], [], []
    for k, (pr, out, rs) in enumerate(zip(projects, outs, results)):
        cls = classify_tree(out.get("tree") or [])
        for rec, o in zip(rs["od"], rs["oracle"]):
            ndiag += 1
            d = rec["d"]
            nm = "%s/%d" % (d["code"], d["severity"])
            codes[nm] = codes.get(nm, 0) + 1
            if rec.get("at_value") is False:
                at_value_miss.append({"message": d["message"], "range": [d["start_line"], d["start_col"], d["end_col"]]})
            if o == 0:
                continue
            void = (d["code"] == "receiver-return-values-invalid-signature" and "found void" in d["message"]
                    and (d["start_line"], d["start_col"], d["end_line"], d["end_col"]) == (0, 0, 0, 0) and o == 4)
            if void:
                classes_seen.setdefault("void-return-range", []).append((k, d["message"]))
            elif is_undocumented(rec, o):
                classes_seen.setdefault("undocumented-controller-position", []).append((k, d["message"]))
            else:
                fails.append((k, rec, o))
        for rec, cl in round_failures(out, rs):
            fails.append((k, rec, cl))
        list_ok, text_ok, text_same = rs["lists"]
        if not list_ok:
            if "repeated-route-conflict" in cls:
                classes_seen.setdefault("repeated-route-conflict", []).append((k, "list"))
            else:
                # name the receiver and the diagnostic that occurs twice
                dup = None
                seen_d = {}
                for rec in rs["od"]:
                    d = rec["d"]
                    key_ = (rec["entity"], d["code"], d["severity"], d["file"], d["start_line"], d["start_col"], d["end_line"],
                            d["end_col"], d["message"])
                    if key_ in seen_d:
                        dup = rec
                        break
                    seen_d[key_] = rec
                fails.append((k, dup, "duplicate diagnostic in the list"))
        if not text_ok:
            hit = [c for c in ("entity-per-error-diagnostic", "children-printed-under-parent") if c in cls]
            for c in hit:
                classes_seen.setdefault(c, []).append((k, "text"))
            if not hit:
                fails.append((k, None, "duplicate line in the error text"))
        if "duplicate-sibling-entity" in cls:
            classes_seen.setdefault("duplicate-sibling-entity", []).append((k, "tree"))
        if not text_same:
            text_bad.append(k)
        # the command's own error (a second pipeline on the same sources): the same lines; their order inside a
        # receiver and the "Did you mean" suggestion follow Go set iteration order and may differ between runs
        norm = lambda t: sorted(re.sub(r"\. Did you mean '[^']*'\?", "", x) for x in (t or "").split("\n"))
        if norm(out.get("run_err")) != norm(out.get("error_text")):
            text_bad.append(k)
        elif out.get("run_err") != out.get("error_text"):
            unstable.append(k)
        for r, ok in zip(pr["routes"], rs["corr"]):
            if not ok:
                corr_bad.append((k, r["name"]))

    for c, hits in sorted(classes_seen.items()):
        f = known.get(c)
        what = "%s: %s (%d projects, e.g. project %d)" % (c, KNOWN_CLASSES[c], len(set(h[0] for h in hits)), hits[0][0])
        if f is not None:
            res.known(f, what)
        else:
            k = hits[0][0]
            res.violation({"kind": "property-fails-on-implementation", "class": c, "input": strip_project(projects[k]),
                           "implementation_output": {"tree": outs[k].get("tree"), "error_text": outs[k].get("error_text")},
                           "claim": KNOWN_CLASSES[c], "note": "this class is not listed in known_findings.json"})
    for (k, rec, o) in fails[:3]:
        pr = shrink_project(projects[k], clause_of(rec, o), workdir + "_shr") if k < len(projects) else projects[k]
        res.violation({"kind": "property-fails-on-implementation", "input": strip_project(pr),
                       "diagnostic": (dict(rec["d"], **{x: rec[x] for x in ("round", "times_in_this_round", "times_in_first_round")
                                                          if x in rec}) if rec else None), "oracle": o,
                       "validate_calls_on_one_pipeline": ROUNDS,
                       "claim": "prop_C18_diag: 1 file, 2 start after end, 3 outside the file, 4 outside the construct, "
                                "5 covered text differs from the value, 6 code/severity not as documented"})
    if not fails and (corr_bad or text_bad) and not a.replay:
        # the model no longer describes the code: look harder - the same routes under other layouts
        wide = make_projects(rng, [r for pr in projects[:8] for r in pr["routes"] if "prefix" in r])
        wouts, wlays = run_projects(wide, workdir + "_w")
        keepw = [k for k, o in enumerate(wouts) if "tree" in o]
        wide, wouts, wlays = [wide[k] for k in keepw], [wouts[k] for k in keepw], [wlays[k] for k in keepw]
        wres = evaluate(wide, wouts, wlays, "widen")
        for k, (pr, out, rs) in enumerate(zip(wide, wouts, wres)):
            for rec, o in zip(rs["od"], rs["oracle"]):
                d = rec["d"]
                if o != 0 and not (o == 4 and "found void" in d["message"]):
                    fails.append((len(projects) + k, rec, o))
        if fails:
            projects = projects + wide
            for (k, rec, o) in fails[:2]:
                name = rec["entity"][1]
                pr = projects[k]
                rs_ = [r for r in pr["routes"] if r["name"] == name] or pr["routes"][:1]
                res.violation({"kind": "property-fails-on-implementation",
                               "input": strip_project({"controllers": [c for c in pr["controllers"] if c["name"] == rs_[0]["ctl"]],
                                                       "routes": rs_}),
                               "diagnostic": rec["d"], "oracle": o,
                               "note": "found while widening the search after a model/implementation disagreement"})
    if not fails and (corr_bad or text_bad):
        k = (corr_bad[0][0] if corr_bad else text_bad[0])
        res.violation({"kind": "correspondence",
                       "obligation": "corr:Diag.ranged" if corr_bad else "corr:Diag.error_text",
                       "input": strip_project(projects[k]), "receivers": corr_bad[:5],
                       "implementation_output": {"tree": outs[k].get("tree"), "error_text": outs[k].get("error_text")},
                       "note": "model and implementation disagree; the oracle found no failing diagnostic"}, no_input=True)

    layouts_dist = {"indent": {}, "multibyte_description": 0, "comment_in_front": 0, "files": {}, "controllers_per_project": {},
                    "result_list_on_several_lines": 0, "twins_same_file": 0, "twins_other_file": 0,
                    "controllers_without_tag": 0, "controllers_without_tag_not_in_the_last_controller_file": 0,
                    "validate_calls_per_pipeline": ROUNDS,
                    "projects_with_a_conflict_on_a_receiver_that_has_other_diagnostics": sum(
                        1 for o in outs if has_conflict_with_own(o))}
    for pr in projects:
        for r in pr["routes"]:
            layouts_dist["indent"][repr(r.get("indent", ""))] = layouts_dist["indent"].get(repr(r.get("indent", "")), 0) + 1
            layouts_dist["files"][str(r.get("file", 0))] = layouts_dist["files"].get(str(r.get("file", 0)), 0) + 1
            if c18layout.wrap_of(r):
                layouts_dist["result_list_on_several_lines"] += 1
            if r.get("conflict_of"):
                layouts_dist["same_route_twice"] = layouts_dist.get("same_route_twice", 0) + 1
            if r.get("twin_of"):
                first = next((x for x in pr["routes"] if x["name"] == r["twin_of"]), None)
                same = first is not None and first.get("file", 0) == r.get("file", 0)
                layouts_dist["twins_same_file" if same else "twins_other_file"] += 1
            for a_ in r["attrs"]:
                if any(ord(ch) > 127 for ch in a_.get("descr", "")):
                    layouts_dist["multibyte_description"] += 1
                if a_.get("before"):
                    layouts_dist["comment_in_front"] += 1
        for c in pr["controllers"]:
            if "tag" in c and c["tag"] is None:
                last = max(x.get("file", 0) for x in pr["controllers"])
                layouts_dist["controllers_without_tag"] += 1
                if c.get("file", 0) != last:
                    layouts_dist["controllers_without_tag_not_in_the_last_controller_file"] += 1
        n = str(len(pr["controllers"]))
        layouts_dist["controllers_per_project"][n] = layouts_dist["controllers_per_project"].get(n, 0) + 1
    res.coverage.update({
        "evaluations": ndiag, "distinct_nontrivial": len(set(json.dumps(r["d"], sort_keys=True) for rs in results for r in rs["od"])),
        "rule": "the perturbed routes of C10 (all single perturbations of seeded well-formed routes, sampled) rendered with "
                "random indentation, blank lines, free comments, multibyte descriptions, another comment in front of an "
                "annotation on the same line, result lists spread over several lines (line feed after the parenthesis, "
                "after any comma, in front of the closing parenthesis), the same annotated method a second time in the "
                "project (same or other file), 2-3 files and several controllers per file, controllers without a @Tag in "
                "any of the files; every diagnostic of the first pipeline.Validate() is one evaluation; distinct by (code, "
                "message, file, range); Validate() is called %d times on each pipeline and the later rounds are compared "
                "with the first" % ROUNDS,
        "samples": [results[0]["od"][i]["d"] for i in range(min(3, len(results[0]["od"])))] if results else [],
        "traces_validated_against_impl": sum(len(rs["corr"]) for rs in results) - len(corr_bad),
        "disagreements": len(corr_bad) + len(text_bad), "property_oracle_failures": len(fails),
        "input_distribution": {"projects": len(projects), "diagnostic_codes": codes, "layout": layouts_dist,
                               "recorded_classes_seen": {c: len(h) for c, h in classes_seen.items()},
                               "range_on_first_occurrence_not_on_the_value": at_value_miss[:5],
                               "range_on_first_occurrence_count": len(at_value_miss),
                               "projects_whose_error_text_differs_between_two_runs(order / Did-you-mean)": len(unstable)},
    })
    res.assumptions += [
        "columns are byte columns of the source line (go/token), 0-based; the covered text is read back from the file by bytes",
        "the region a diagnostic must lie in is the doc comment block for annotation-related codes; for a code about "
        "the parameters the parameter list and for a code about the return values the result list (parentheses "
        "included) of the method's declaration",
        "a route whose validation ends in a Go error (C10 classes value clash / foreign error type / unknown annotation "
        "naming a parameter) produces no diagnostics and is left out",
    ]
    if not os.environ.get("VERIF_KEEP_WORK"):
        shutil.rmtree(os.path.join(WORK, PROP), ignore_errors=True)
    sys.exit(res.finish())


if __name__ == "__main__":
    main()
