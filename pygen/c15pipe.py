"""C15, pipeline leg: "so each offending method receives a warning".

Small projects are rendered to Go sources (pygen/project.py's renderer), the real pipeline
(LoadGleeceConfig -> NewGleecePipeline -> GenerateGraph -> Validate, harness command `routewarn`) is run
on each, and the set of methods that carry a `route-conflict` warning is compared in Coq with
  * the model of the validator (Conflicts.warned_methods: both ends of every conflict of the model, on the
    entries getRouteEntries builds: controller route + method route) - correspondence, as a multiset of
    warnings per method;
  * the property oracle (Conflicts.prop_C15_pipeline: a method is warned iff its MOUNTED route - controller
    prefix + method route - overlaps with another same-verb mounted route).
Input shapes: controllers written from one skeleton, one per file (the @Route values of different methods
sit at the same line and column of different files), same-file control pairs, controllers spread over
files and packages, star-shaped projects (a catch-all after ten or more literal siblings), controllers
mounted under different prefixes (same method routes that do not collide, different method routes that
do), methods that already carry other diagnostics, controllers mounted DEEP (a @Route of 3..7 segments, several
methods whose own route is one segment, an overlapping route spelled out under a shorter prefix in another
controller), @Hidden methods (absent from the specification, registered by every routes template like any
other: entries of the route list)."""
import concurrent.futures
import copy
import json
import os
import shutil
import time

from common import *  # noqa
import project as P

VERBS = ["GET", "POST", "PUT", "DELETE"]
LITS = ["a", "b", "c", "items", "users", "posts"]
PNAMES = ["id", "key", "x", "y"]
TWIN_NAMES = ["UsersCtl", "PostsCtl", "ItemsCtl", "TeamsCtl", "NotesCtl"]
WORDS = ["health", "version", "metrics", "status", "ping", "ready", "live", "info", "config", "docs",
         "about", "stats", "peers", "nodes"]


# ------------------------------------------------------------------ abstract projects
# project  = {"kind", "prefix" (the common one, text), "shared_files", "controllers": [controller]}
# controller = {"name", "pkg", "prefix", "descr", "tag", "methods": [method]}
# method   = {"name", "verb", "segs": [...], "route": text, "file": k, "descr": text, "loose": bool,
#             "hidden": bool, "hidden_form": text after "// @Hidden"}
HIDDEN_FORMS = ["", "", "(internal)", " not for the public", "(ops-only) text"]

def spell(rng, segs, leading=True):
    if not segs:
        return "/"
    sep = lambda: "/" if rng.random() < 0.9 else "//"
    out = sep() if (leading or rng.random() < 0.8) else ""
    out += segs[0]
    for sg in segs[1:]:
        out += sep() + sg
    if rng.random() < 0.1:
        out += "/"
    return out


def gen_segs(rng):
    depth = rng.choice([0, 1, 1, 1, 2, 2, 3])
    names = list(PNAMES)
    rng.shuffle(names)
    out = []
    for _ in range(depth):
        if rng.random() < 0.45 and names:
            out.append("{" + names.pop() + "}")
        else:
            out.append(rng.choice(LITS))
    return out


def mk_method(rng, idx, verb, segs, must_lead, descr=None, file=0, route=None):
    return {"name": "M%d" % idx, "verb": verb, "segs": list(segs),
            "route": route if route is not None else spell(rng, segs, leading=must_lead),
            "file": file, "descr": rng.choice(["", "", "Does a thing"]) if descr is None else descr,
            # a function parameter no annotation refers to: the method (and its controller) already carries
            # diagnostics of the controller validator when the conflict warnings are merged in
            "loose": rng.random() < 0.12,
            # @Hidden: no operation in the specification; the route is registered and served all the same
            "hidden": rng.random() < 0.18, "hidden_form": rng.choice(HIDDEN_FORMS)}


def prefix_spellings(rng, prefix):
    """Spellings of one prefix that normalise to the same segments."""
    if prefix == "":
        return ""
    r = rng.random()
    return prefix if r < 0.7 else prefix + "/" if r < 0.85 else "/" + prefix


def gen_twins(rng, counter):
    """Controllers written from one skeleton, one per file: same line / column for the k-th method of each."""
    prefix = rng.choice(["", "/api", "/api", "/api/v1", "/v1"])
    lead = True
    k = rng.randint(2, 5)
    skeleton = []
    for _ in range(k):
        skeleton.append((rng.choice(VERBS[:3]), gen_segs(rng), rng.choice(["", "", "Does a thing"]),
                         rng.choice([0, 0, 0, 1])))
    t = rng.choice([2, 2, 3])
    names = rng.sample(TWIN_NAMES, t)
    pkgs = ["ctl"] * t
    if rng.random() < 0.3:
        pkgs[-1] = "ctlb"
    descr, tag = rng.choice(["", "Controller description"]), rng.choice(["Things", "T"])
    controllers = []
    for ci in range(t):
        methods = []
        for (verb, segs, d, fl) in skeleton:
            segs2, verb2 = list(segs), verb
            r = rng.random()
            if r < 0.15 and segs2:
                q = rng.randrange(len(segs2))
                if not segs2[q].startswith("{"):
                    same = [l for l in LITS if len(l) == len(segs2[q])]
                    segs2[q] = rng.choice(same)
            elif r < 0.25:
                verb2 = rng.choice(VERBS[:3])
            route = "/" + "/".join(segs2)           # one spelling for all twins: equal ranges when the routes are equal
            methods.append(mk_method(rng, next(counter), verb2, segs2, lead, descr=d, file=fl, route=route))
        controllers.append({"name": names[ci], "pkg": pkgs[ci], "prefix": prefix, "descr": descr, "tag": tag,
                            "methods": methods})
    if rng.random() < 0.6:
        # a control: all methods in one file, some routes taken from the skeleton, some same-file pairs
        ms = []
        for _ in range(rng.randint(2, 4)):
            if rng.random() < 0.5:
                verb, segs, _, _ = rng.choice(skeleton)
            elif ms and rng.random() < 0.5:
                verb, segs = ms[-1]["verb"], ms[-1]["segs"]
            else:
                verb, segs = rng.choice(VERBS[:3]), gen_segs(rng)
            ms.append(mk_method(rng, next(counter), verb, segs, lead))
        controllers.append({"name": rng.choice(["ACtl", "ZCtl", "QCtl"]), "pkg": "ctl", "prefix": prefix,
                            "descr": "", "tag": "C", "methods": ms})
    return {"kind": "twins", "prefix": prefix, "shared_files": False, "controllers": controllers}


def gen_random(rng, counter):
    prefix = rng.choice(["", "", "/api", "/api/", "/api/v1"])
    lead = not (prefix == "" or prefix.endswith("/"))
    nctl = rng.randint(1, 4)
    controllers = []
    allm = []
    for ci in range(nctl):
        nfiles = rng.choice([1, 1, 2, 3])
        ms = []
        for _ in range(rng.randint(1, 5)):
            r = rng.random()
            if allm and r < 0.3:
                b = rng.choice(allm)
                verb, segs = (b["verb"] if rng.random() < 0.7 else rng.choice(VERBS)), b["segs"]
            elif allm and r < 0.45:
                b = rng.choice(allm)
                verb, segs = b["verb"], list(b["segs"])
                if segs:
                    q = rng.randrange(len(segs))
                    segs[q] = rng.choice(LITS) if rng.random() < 0.5 else \
                        "{" + rng.choice([n for n in PNAMES if "{" + n + "}" not in segs] or ["zz"]) + "}"
            else:
                verb, segs = rng.choice(VERBS), gen_segs(rng)
            m = mk_method(rng, next(counter), verb, segs, lead, file=rng.randrange(nfiles))
            ms.append(m)
            allm.append(m)
        controllers.append({"name": "%sCtl%d" % (rng.choice("ABZ"), ci), "pkg": "ctl" if ci % 2 == 0 or rng.random() < 0.5 else "ctlb",
                            "prefix": prefix_spellings(rng, prefix) if lead else prefix,
                            "descr": rng.choice(["", "Controller description"]),
                            "tag": "Tag%d" % ci, "methods": ms})
    return {"kind": "random", "prefix": prefix, "shared_files": rng.random() < 0.3, "controllers": controllers}


def gen_star(rng, counter):
    """A catch-all next to ten or more literal siblings (declared / discovered after them, mostly)."""
    prefix = rng.choice(["", "/api"])
    verb = rng.choice(VERBS[:2])
    k = rng.randint(10, 14)
    base = rng.choice([[], [], [rng.choice(LITS)]])
    leaves = [mk_method(rng, next(counter), verb, base + [w], True, route="/" + "/".join(base + [w]))
              for w in rng.sample(WORDS, k)]
    centre = mk_method(rng, next(counter), verb, base + ["{id}"], True, route="/" + "/".join(base + ["{id}"]))
    other = mk_method(rng, next(counter), rng.choice([v for v in VERBS if v != verb]), base + ["{id}"], True)
    r = rng.random()
    if r < 0.4:
        ctls = [{"name": "ServiceCtl", "methods": leaves + [other, centre]}]
    elif r < 0.8:
        ctls = [{"name": "ACtl", "methods": leaves}, {"name": "ZCtl", "methods": [other, centre]}]
    else:
        ctls = [{"name": "ACtl", "methods": [centre]}, {"name": "ZCtl", "methods": leaves + [other]}]
    for c in ctls:
        c.update({"pkg": "ctl", "prefix": prefix, "descr": "", "tag": "S"})
    return {"kind": "star", "prefix": prefix, "shared_files": False, "controllers": ctls}


def gen_prefixed(rng, counter):
    """Controllers mounted under DIFFERENT prefixes: equal method routes that do not collide, different
    method routes that do (a prefix may end where another one's method route goes on)."""
    pr = gen_twins(rng, counter) if rng.random() < 0.6 else gen_random(rng, counter)
    pr["kind"] = "prefixed"
    pool = ["/users", "/posts", "/a", "", "/a/b", "/{tenant}", "/a/"]
    for c in pr["controllers"]:
        c["prefix"] = rng.choice(pool)
    # some method of one controller spelled out in full under another controller
    if len(pr["controllers"]) > 1 and rng.random() < 0.6:
        src, dst = rng.sample(pr["controllers"], 2)
        m = rng.choice(src["methods"])
        full = [x for x in (src["prefix"] + "/" + m["route"]).split("/") if x]
        dpre = [x for x in dst["prefix"].split("/") if x]
        if full[:len(dpre)] == dpre or not dpre:
            rest = full[len(dpre):]
            dst["methods"].append(mk_method(rng, next(counter), m["verb"], rest, True, route="/" + "/".join(rest)))
    pr["prefix"] = ""
    return pr


def gen_deep(rng, counter):
    """A controller mounted deep (a @Route of 3..7 segments, literals and the odd parameter) with several methods
    whose own route is ONE segment (literals, a parameter), some of two or none; another controller mounted at a
    proper prefix of that mount point whose method routes spell the remaining segments out (some turned into
    parameters) and go on with a segment that does / does not overlap; a bystander controller."""
    depth = rng.choice([3, 3, 3, 3, 4, 5, 5, 6, 7, 2])
    pool = ["api", "v1", "v2", "accounts", "orgs", "teams", "admin", "store", "inner", "ext"]
    pre = rng.sample(pool, depth)
    if rng.random() < 0.25:
        pre[rng.randrange(depth)] = "{tenant}"
    prefix = "/" + "/".join(pre)
    verbs = [rng.choice(VERBS[:2])] * 3 + [rng.choice(VERBS)]
    words = rng.sample(WORDS, 6)
    deep = []
    for i in range(rng.randint(2, 5)):                      # the one-segment methods
        sg = "{id}" if rng.random() < 0.2 else words[i]
        deep.append(mk_method(rng, next(counter), rng.choice(verbs), [sg], True, route="/" + sg))
    for _ in range(rng.choice([0, 0, 1, 2])):               # others: no segment, two, three
        segs = rng.choice([[], [rng.choice(words), "{key}"], ["{id}", rng.choice(LITS)],
                           [rng.choice(LITS), rng.choice(LITS), "{key}"]])
        deep.insert(rng.randint(0, len(deep)), mk_method(rng, next(counter), rng.choice(verbs), segs, True))
    k = rng.randrange(depth)                                # the other controller's mount point: k leading segments
    opre = ("/" + "/".join(pre[:k])) if k else ""
    names = [n for n in ["kind", "x", "y", "zone", "grp", "part", "sub"]]
    rng.shuffle(names)
    others = []
    for _ in range(rng.randint(1, 3)):
        rest = [("{" + names.pop() + "}") if (rng.random() < 0.4 and names and not s_.startswith("{")) else s_ for s_ in pre[k:]]
        r = rng.random()
        tgt = rng.choice(deep)
        if r < 0.65:
            tail = list(tgt["segs"])                        # lands on a route of the deep controller
            verb = tgt["verb"] if rng.random() < 0.85 else rng.choice(VERBS)
        elif r < 0.85:
            tail, verb = [rng.choice(words)], tgt["verb"]
        else:
            tail, verb = [rng.choice(words), "{key}"], tgt["verb"]
        segs = rest + tail
        if len(set(segs)) != len(segs):
            continue
        others.append(mk_method(rng, next(counter), verb, segs, True, route="/" + "/".join(segs)))
    ctls = [{"name": rng.choice(["AccountsCtl", "MCtl"]), "methods": deep, "prefix": prefix}]
    if others:
        ctls.append({"name": rng.choice(["ACtl", "ReportsCtl", "ZCtl"]), "methods": others, "prefix": opre})
    if rng.random() < 0.5:
        ctls.append({"name": "StatusCtl", "prefix": "/status",
                     "methods": [mk_method(rng, next(counter), "GET", [w], True, route="/" + w) for w in ("live", "ready")]})
    for c in ctls:
        c.update({"pkg": "ctl", "descr": "", "tag": "D"})
    return {"kind": "deep", "prefix": "", "shared_files": False, "controllers": ctls}


def gen_hidden(rng, counter):
    """Overlaps one (or both) of whose ends is @Hidden, the visible end having no other partner; a visible / visible
    overlap and hidden methods that overlap nothing as controls."""
    prefix = rng.choice(["/users", "/api/users", ""])
    verb = rng.choice(VERBS)
    word = rng.sample(WORDS, 4)
    hid = lambda m, h: dict(m, hidden=h, hidden_form=rng.choice(HIDDEN_FORMS))
    legacy = [hid(mk_method(rng, next(counter), verb, ["{id}"], True, route="/{id}"), True),
              hid(mk_method(rng, next(counter), "DELETE" if verb != "DELETE" else "PUT", ["{id}"], True, route="/{id}"), True)]
    users = [hid(mk_method(rng, next(counter), verb, [word[0]], True, route="/" + word[0]), rng.random() < 0.25),
             hid(mk_method(rng, next(counter), verb, [word[1], "{key}"], True), False),
             hid(mk_method(rng, next(counter), rng.choice(VERBS), [], True, route="/"), rng.random() < 0.3)]
    rng.shuffle(users)
    ctls = [{"name": "LegacyCtl", "prefix": prefix, "methods": legacy},
            {"name": rng.choice(["UsersCtl", "ACtl"]), "prefix": prefix_spellings(rng, prefix), "methods": users}]
    if rng.random() < 0.7:
        ctls.append({"name": "TeamsCtl", "prefix": "/teams", "methods": [
            hid(mk_method(rng, next(counter), "GET", ["{team}"], True, route="/{team}"), False),
            hid(mk_method(rng, next(counter), "GET", [word[2]], True, route="/" + word[2]), False),
            hid(mk_method(rng, next(counter), "POST", [word[3]], True, route="/" + word[3]), True)]})
    for c in ctls:
        c.update({"pkg": "ctl", "descr": "", "tag": "H"})
    return {"kind": "hidden", "prefix": "", "shared_files": False, "controllers": ctls}


def deliberate_projects(counter):
    """Always present: the smallest projects of each shape."""
    def ctl(name, prefix, routes, pkg="ctl"):
        # a route written "!/x" belongs to a @Hidden method
        return {"name": name, "pkg": pkg, "prefix": prefix, "descr": "", "tag": "T",
                "methods": [{"name": "M%d" % next(counter), "verb": v, "segs": [x for x in r.lstrip("!").split("/") if x],
                             "route": r.lstrip("!"), "file": 0, "descr": "", "hidden": r.startswith("!"), "hidden_form": ""}
                            for (v, r) in routes]}
    crud = [("GET", "/"), ("GET", "/{id}"), ("POST", "/"), ("DELETE", "/{id}")]
    return [
        # two resources written from the same skeleton, mounted under the same prefix: every GET / DELETE / POST collides
        {"kind": "twins", "prefix": "/api", "shared_files": False,
         "controllers": [ctl("UsersCtl", "/api", crud), ctl("PostsCtl", "/api", crud),
                         ctl("ZCtl", "/api", [("GET", "/x/{id}"), ("GET", "/x/{key}"), ("PUT", "/only")])]},
        # the same with one controller per package
        {"kind": "twins", "prefix": "", "shared_files": False,
         "controllers": [ctl("UsersCtl", "", crud), ctl("PostsCtl", "", crud, pkg="ctlb")]},
        # a catch-all discovered after eleven literal siblings of its verb (controllers are visited by name)
        {"kind": "star", "prefix": "/api", "shared_files": False,
         "controllers": [ctl("ACtl", "/api", [("GET", "/" + w) for w in WORDS[:11]] + [("POST", "/{id}")]),
                         ctl("ZCtl", "/api", [("GET", "/items/{id}"), ("GET", "/{id}")])]},
        # different prefixes: equal method routes, nothing collides, nobody is to be warned
        {"kind": "prefixed", "prefix": "", "shared_files": False,
         "controllers": [ctl("UsersCtl", "/users", [("GET", "/{id}")]), ctl("PostsCtl", "/posts", [("GET", "/{id}")])]},
        # different prefixes: different method routes mounted at the same place, both are to be warned
        {"kind": "prefixed", "prefix": "", "shared_files": False,
         "controllers": [ctl("ACtl", "/a", [("GET", "/b")]), ctl("BCtl", "", [("GET", "/a/b")])]},
        # a mount point of three segments, one-segment methods; one of them is also reachable through a controller
        # mounted two segments deep: these two are to be warned, nobody else
        {"kind": "deep", "prefix": "", "shared_files": False,
         "controllers": [ctl("AccountsCtl", "/api/v1/accounts", [("GET", "/list"), ("GET", "/search"), ("GET", "/me"), ("POST", "/import")]),
                         ctl("ReportsCtl", "/api/v1", [("GET", "/{kind}/me"), ("GET", "/{kind}/all/{year}")])]},
        # the same five and six segments deep, the last one-segment method being the overlapping one
        {"kind": "deep", "prefix": "", "shared_files": False,
         "controllers": [ctl("MCtl", "/api/v1/orgs/inner/accounts", [("GET", "/list"), ("GET", "/x/{id}"), ("GET", "/me")]),
                         ctl("NCtl", "/api/v1/orgs/inner/accounts/ext", [("PUT", "/a"), ("PUT", "/{id}"), ("POST", "/b"), ("GET", "/c")]),
                         ctl("ZCtl", "/api/v1/orgs", [("GET", "/inner/{kind}/list")])]},
        # a @Hidden method is served like any other: it and the visible route it overlaps are to be warned
        {"kind": "hidden", "prefix": "", "shared_files": False,
         "controllers": [ctl("LegacyCtl", "/users", [("GET", "!/{id}"), ("DELETE", "!/{id}")]),
                         ctl("UsersCtl", "/users", [("GET", "/me"), ("GET", "/export/{format}"), ("POST", "/")]),
                         ctl("TeamsCtl", "/teams", [("GET", "/{team}"), ("GET", "/archived"), ("PUT", "!/{team}")])]},
        # no conflict at all
        {"kind": "random", "prefix": "/api", "shared_files": False,
         "controllers": [ctl("ACtl", "/api", [("GET", "/a"), ("POST", "/a"), ("GET", "/b/{id}")]),
                         ctl("BCtl", "/api", [("GET", "/c"), ("PUT", "/a")])]},
    ]


class Counter:
    def __init__(self):
        self.k = 0

    def __next__(self):
        self.k += 1
        return self.k


def gen_projects(rng, n):
    counter = Counter()
    out = deliberate_projects(counter)
    for i in range(n):
        r = rng.random()
        out.append(gen_twins(rng, counter) if r < 0.3 else gen_random(rng, counter) if r < 0.48 else
                   gen_star(rng, counter) if r < 0.58 else gen_prefixed(rng, counter) if r < 0.72 else
                   gen_deep(rng, counter) if r < 0.88 else gen_hidden(rng, counter))
    return out


# ------------------------------------------------------------------ rendering (through project.py)

def to_render_project(pr):
    ctls = []
    for c in pr["controllers"]:
        ms = []
        for m in c["methods"]:
            params = []
            seen = set()
            for sg in m["route"].split("/"):
                if sg.startswith("{") and sg.endswith("}") and len(sg) > 2 and sg[1:-1] not in seen:
                    seen.add(sg[1:-1])
                    params.append({"name": sg[1:-1], "ctx": False, "loc": "path", "alias": None, "type": "string",
                                   "pointer": False, "validator": None, "slice": False})
            if m.get("loose"):
                params.append({"name": "loose", "ctx": True, "loc": None, "alias": None, "type": "string", "pointer": False,
                               "validator": None, "slice": False})
            ms.append({"name": m["name"], "verb": m["verb"], "route": m["route"], "hidden": bool(m.get("hidden")),
                       "hidden_form": m.get("hidden_form", ""), "deprecated": False,
                       "security": [], "params": params, "ret": None, "errtype": "error", "response": None, "errors": [],
                       "descr": m["descr"], "file": m["file"], "grouped": False, "template_context": []})
        ctls.append({"shape": "plain", "name": c["name"], "pkg": c["pkg"], "tag": c["tag"], "route": c["prefix"],
                     "security": [], "descr": c["descr"], "methods": ms})
    cfg = {"schemes": ["sec1"], "default_security": None, "enforce": False, "engine": "gin", "title": "API",
           "version": "1.0.0", "base_url": "https://api.example.com"}
    return {"config": cfg, "controllers": ctls, "types": ["Item"], "shared_files": bool(pr.get("shared_files"))}


def render(projects, workdir):
    shutil.rmtree(workdir, ignore_errors=True)
    P.make_module(workdir)
    jobs = []
    for k, pr in enumerate(projects):
        root = os.path.join(workdir, "p%d" % k)
        rp = to_render_project(pr)
        P.render_project(rp, root, "verifproj/p%d" % k)
        name = P.render_config(rp, root, "verifproj/p%d" % k)
        jobs.append({"dir": root, "config": name})
    return jobs


def run_jobs(jobs, workers=8):
    if not jobs:
        return []
    w = max(1, min(workers, len(jobs)))
    chunks = [jobs[i::w] for i in range(w)]
    with concurrent.futures.ThreadPoolExecutor(max_workers=w) as ex:
        res = list(ex.map(lambda ch: implrun("routewarn", ch, timeout=900), chunks))
    out = [None] * len(jobs)
    for i in range(w):
        for j, r in enumerate(res[i]):
            out[i + j * w] = r
    return out


# ------------------------------------------------------------------ observation -> Coq case

class Broken(Exception):
    pass


def observe(pr, out):
    """Maps the harness output back to the abstract project.  Returns dict(methods=[(prefix, route, verb, label)] in the
    validator's order, warned=[index per warning], conflicts=[...], stray=[warnings that sit on no method],
    positions={(line, col, endcol): [labels]})."""
    if out.get("panic") or out.get("err"):
        return {"failed": out.get("panic") or out.get("err")}
    want = {}
    for c in pr["controllers"]:
        for m in c["methods"]:
            want[(c["name"], c["pkg"], m["name"])] = (c["prefix"], m["route"], m["verb"], bool(m.get("hidden")))
    methods, index = [], {}
    for k, m in enumerate(out["methods"]):
        key = (m["controller"], m["pkg"].rsplit("/", 1)[-1], m["receiver"])
        if key not in want or want[key] != (m["prefix"], m["route"], m["verb"], bool(m.get("hidden"))):
            raise Broken("the pipeline sees a method the project does not have (renderer / generator mistake?): %r vs %r"
                         % (m, want.get(key)))
        methods.append({"prefix": m["prefix"], "route": m["route"], "verb": m["verb"],
                        "label": "%s.%s.%s" % (key[1], key[0], key[2]), "hidden": bool(m.get("hidden")), "file": os.path.basename(m["file"]),
                        "range": [m["start_line"], m["start_col"], m["end_line"], m["end_col"]]})
        index[(m["controller"], m["receiver"], m["file"])] = k
    if len(methods) != len(want):
        raise Broken("the pipeline sees %d of the project's %d methods" % (len(methods), len(want)))
    warned, stray = [], []
    for w in out["warnings"]:
        k = index.get((w["controller"], w["receiver"], w["file"]))
        if k is None:
            stray.append(w)
        else:
            warned.append(k)
    pos = {}
    for m in methods:
        pos.setdefault(tuple(m["range"]), []).append(m["file"])
    coincide = sum(1 for fs in pos.values() if len(set(fs)) > 1)
    return {"methods": methods, "warned": warned, "stray": stray, "conflicts": out["conflicts"],
            "other_diags": out.get("other_diags", 0), "coincident_positions": coincide}


HEADER = """From Gleece Require Import Base.Bytes Model.Conflicts.
From Coq Require Import String.
Definition M p r v := {| m_prefix := p; m_route := r; m_verb := v |}.
Definition pcase := (nat * str * list method * list nat * list obs)%type.
Definition pid (c : pcase) : nat := let '(i, _, _, _, _) := c in i.
(* the validator's model: one warning for either end of every conflict of the entries it builds *)
Definition agrees_warn (c : pcase) : bool :=
  let '(_, _, ms, w, _) := c in mset_eqb Nat.eqb (warned_methods ms) w.
(* paths.FindConflicts on the real entries *)
Definition agrees_conf (c : pcase) : bool :=
  let '(_, _, ms, _, o) := c in mset_eqb obs_eqb (find_conflicts_obs (map impl_entry ms)) o.
(* the property, on the mounted routes *)
Definition holds (c : pcase) : bool := let '(_, _, ms, w, _) := c in prop_C15_pipeline ms w.
Definition sel (f : pcase -> bool) (l : list pcase) := map pid (filter (fun c => negb (f c)) l).
"""


def coq_pcase(cid, pr, ob):
    ms = coq_list(["M %s %s %s" % (coq_bytes(m["prefix"]), coq_bytes(m["route"]), coq_bytes(m["verb"])) for m in ob["methods"]])
    w = coq_list([str(k) for k in ob["warned"]])
    o = coq_list(["(%d, %d, %s)" % (x["a"], x["b"], coq_bytes(x["reason"])) for x in ob["conflicts"]])
    return "(%d, %s, %s, %s, %s)" % (cid, coq_bytes(pr["prefix"]), ms, w, o)


def evaluate(projects, workdir, tag="pipe"):
    """Returns a list of per-project dicts: ob (observation) + booleans agrees_warn, agrees_conf, holds."""
    outs = run_jobs(render(projects, workdir))
    obs = [observe(pr, o) for pr, o in zip(projects, outs)]
    live = [i for i, ob in enumerate(obs) if "failed" not in ob]
    body = HEADER + "Definition cases : list pcase :=\n " + \
        coq_list([coq_pcase(i, projects[i], obs[i]) for i in live]).replace("; (", ";\n (") + ".\n"
    names = ["agrees_warn", "agrees_conf", "holds"]
    for nme in names:
        body += "Definition bad_%s := Eval vm_compute in sel %s cases.\nPrint bad_%s.\n" % (nme, nme, nme)
    out = run_coq_file("C15", tag, body)
    bad = {nme: set(parse_nat_list(out, "bad_" + nme)) for nme in names}
    res = []
    for i, ob in enumerate(obs):
        r = {"ob": ob}
        for nme in names:
            r[nme] = ("failed" not in ob) and (i not in bad[nme])
        res.append(r)
    return res


def public(pr):
    return copy.deepcopy(pr)


def describe(pr, r):
    ob = r["ob"]
    if "failed" in ob:
        return {"pipeline_failed": ob["failed"]}
    cnt = {}
    for k in ob["warned"]:
        cnt[k] = cnt.get(k, 0) + 1
    return {"methods_in_validator_order": [
        {"method": m["label"], "verb": m["verb"], "hidden": m["hidden"], "controller_prefix": m["prefix"], "route": m["route"], "file": m["file"],
         "route_value_range": m["range"], "route_conflict_warnings": cnt.get(k, 0)} for k, m in enumerate(ob["methods"])],
        "conflicts_of_FindConflicts_on_these_entries": ob["conflicts"], "stray_warnings": ob["stray"]}


def shrink(pr, pred, budget_s=150):
    """Greedy removal of controllers, then methods, while pred(project) stays true; candidates of one round
    are evaluated together."""
    t0 = time.time()
    cur = public(pr)
    changed = True
    while changed and time.time() - t0 < budget_s:
        changed = False
        cands = []
        if len(cur["controllers"]) > 1:
            for ci in range(len(cur["controllers"])):
                c = public(cur)
                del c["controllers"][ci]
                cands.append(c)
        for ci, ctl in enumerate(cur["controllers"]):
            if len(ctl["methods"]) > 1 or len(cur["controllers"]) > 1:
                for mi in range(len(ctl["methods"])):
                    c = public(cur)
                    del c["controllers"][ci]["methods"][mi]
                    if not c["controllers"][ci]["methods"]:
                        continue
                    cands.append(c)
        if not cands:
            break
        flags = pred(cands)
        for c, f in zip(cands, flags):
            if f:
                cur = c
                changed = True
                break
    return cur
