"""C18 - the renderer of laid-out projects (c10.render_lproject plus layouts of the DECLARATION).

On top of what c10.render_lproject knows (indentation, blank lines, free comment lines, descriptions, another
comment in front of an annotation, several controllers per file, several files) a route may carry

  "retwrap": {"open": bool, "seps": [bool, ...], "close": bool, "cind": str}
      the parenthesised result list is spread over several lines: a line feed after the opening parenthesis
      ("open"), after the comma behind value j ("seps"[j]), and a trailing comma + line feed in front of the closing
      parenthesis ("close"); continuation lines are indented by the method's indentation + "cind".

The layout map says where every single return value is ("retvals": [(l0, c0, l1, c1)]), where the result list is
("retlist": from the opening parenthesis to behind the closing one; the single type when there is no parenthesis)
and where the parameter list is ("paramlist", parentheses included).  0-based lines, BYTE columns."""
import json
import os
import re
import shutil

import c10


def wrap_of(r):
    """The normalised wrap description of a route's result list (None: one line)."""
    w = r.get("retwrap")
    n = len(r["rets"])
    if not w or n < 2:
        return None
    seps = [bool(x) for x in (list(w.get("seps") or []) + [False] * n)[:n - 1]]
    if not (w.get("open") or w.get("close") or any(seps)):
        return None
    return {"open": bool(w.get("open")), "seps": seps, "close": bool(w.get("close")), "cind": w.get("cind", "\t")}


def render_lproject(proj, root, modpath, cfgname="gleece.json"):
    """See c10.render_lproject; the layout of a receiver also has "retvals", "retlist", "paramlist"."""
    shutil.rmtree(root, ignore_errors=True)
    os.makedirs(os.path.join(root, "types"))
    pkgdir = os.path.join(root, "ctl")
    os.makedirs(pkgdir)
    with open(os.path.join(root, "types", "types.go"), "w") as f:
        f.write(c10.TYPES_GO)
    with open(os.path.join(pkgdir, "zz_local.go"), "w") as f:
        f.write(c10.LOCAL_GO % "ctl")
    if any(p.get("rep") == 1 for r in proj["routes"] for p in r["params"]):
        os.makedirs(os.path.join(root, "context"))
        with open(os.path.join(root, "context", "context.go"), "w") as f:
            f.write(c10.APPCTX_GO)
    files = {}           # file index -> list of lines (without the header)
    layout = {}

    def emit(fi, line):
        files.setdefault(fi, []).append(line)
        return len(files[fi]) - 1

    for c in proj["controllers"]:
        fi = c.get("file", 0)
        for _ in range(c.get("gap", 1)):
            emit(fi, "")
        ind = c.get("indent", "")
        lay = {"file": fi, "kind": "Controller", "attrs": []}
        l0 = None
        for ln in c.get("lead", []):
            k = emit(fi, ind + "// " + ln)
            l0 = k if l0 is None else l0
        cattrs = list(c.get("attrs") or ([{"k": "Tag", "v": c.get("tag", "T")}] if c.get("tag", "T") is not None else []) +
                      ([{"k": "Route", "v": c["prefix"]}] if c["prefix"] else []))
        for a in cattrs:
            txt = c10.attr_text(a)
            k = emit(fi, ind + txt)
            l0 = k if l0 is None else l0
            lay["attrs"].append({"line": k, "col": len(ind.encode()), "text": txt, "k": a["k"], "v": a["v"]})
        k1 = len(files.get(fi, [])) - 1
        d0 = emit(fi, ind + "type %s struct {" % c["name"])
        emit(fi, ind + "\truntime.GleeceController")
        d1 = emit(fi, ind + "}")
        lay["doc"] = (l0, k1) if l0 is not None else None
        lay["decl"] = (d0, d1)
        layout[("Controller", c["name"])] = lay
    ctl_by = {c["name"]: c for c in proj["controllers"]}
    for r in proj["routes"]:
        fi = r.get("file", ctl_by[r["ctl"]].get("file", 0))
        for _ in range(r.get("gap", 1)):
            emit(fi, "")
        ind = r.get("indent", "")
        lay = {"file": fi, "kind": "Receiver", "attrs": [], "params": []}
        l0 = None
        for ln in r.get("lead", []):
            k = emit(fi, ind + "// " + ln)
            l0 = k if l0 is None else l0
        for a in r["attrs"]:
            txt = c10.attr_text(a)
            pre = a.get("before", "")          # e.g. "/* é */ " : another comment of the group on the same line
            k = emit(fi, ind + pre + txt)
            l0 = k if l0 is None else l0
            lay["attrs"].append({"line": k, "col": len((ind + pre).encode()), "text": txt})
        k1 = len(files.get(fi, [])) - 1
        sig = ind + "func (c *%s) %s" % (r["ctl"], r["name"])
        pl0 = len(sig.encode())
        sig += "("
        pcols = []
        for j, p in enumerate(r["params"]):
            if j:
                sig += ", "
            c0 = len(sig.encode())
            sig += "%s %s" % (p["name"], c10.go_type(p))
            pcols.append((c0, len(sig.encode())))
        sig += ")"
        pl1 = len(sig.encode())
        rets = [c10.GO_RET[x] for x in r["rets"]]
        # the declaration's lines; positions relative to its first line
        dlines = []
        retvals = []
        retlist = None
        if len(rets) == 1:
            sig += " "
            c0 = len(sig.encode())
            sig += rets[0]
            retvals.append((0, c0, 0, len(sig.encode())))
            retlist = retvals[0]
        elif len(rets) > 1:
            w = wrap_of(r) or {"open": False, "seps": [False] * (len(rets) - 1), "close": False, "cind": "\t"}
            sig += " "
            open_at = (0, len(sig.encode()))
            sig += "("
            if w["open"]:
                dlines.append(sig)
                sig = ind + w["cind"]
            for j, t in enumerate(rets):
                c0 = len(sig.encode())
                sig += t
                retvals.append((len(dlines), c0, len(dlines), len(sig.encode())))
                if j < len(rets) - 1:
                    sig += ","
                    if w["seps"][j]:
                        dlines.append(sig)
                        sig = ind + w["cind"]
                    else:
                        sig += " "
            if w["close"]:
                sig += ","
                dlines.append(sig)
                sig = ind
            sig += ")"
            retlist = (open_at[0], open_at[1], len(dlines), len(sig.encode()))
        sig += " {"
        dlines.append(sig)
        d0 = None
        for ln in dlines:
            k = emit(fi, ln)
            d0 = k if d0 is None else d0
        emit(fi, ind + '\tpanic("not called")')
        d1 = emit(fi, ind + "}")
        sh = lambda t: (t[0] + d0, t[1], t[2] + d0, t[3])
        lay["params"] = [(d0, a_, d0, b_) for (a_, b_) in pcols]
        lay["paramlist"] = (d0, pl0, d0, pl1)
        lay["retvals"] = [sh(t) for t in retvals]
        lay["retlist"] = sh(retlist) if retlist else None
        lay["rets"] = ((lay["retvals"][0][0], lay["retvals"][0][1], lay["retvals"][-1][2], lay["retvals"][-1][3])
                       if retvals else (0, 0, 0, 0))
        lay["doc"] = (l0, k1) if l0 is not None else None
        lay["decl"] = (d0, d1)
        layout[("Receiver", r["name"])] = lay
    paths = {}
    for fi, lines in files.items():
        body = "\n".join(lines) + "\n"
        imports = ['"github.com/gopher-fleece/runtime"']
        if re.search(r"(?<![A-Za-z_])context\.", body):
            imports.append('"context"')
        if re.search(r"(?<![A-Za-z_])time\.", body):
            imports.append('"time"')
        if re.search(r"(?<![A-Za-z_])types\.", body):
            imports.append('"%s/types"' % modpath)
        if re.search(r"(?<![A-Za-z_])appctx\.", body):
            imports.append('appctx "%s/context"' % modpath)
        header = "package ctl\n\nimport (\n%s\n)\n" % "\n".join("\t" + i for i in imports)
        if '"github.com/gopher-fleece/runtime"' in header and "runtime." not in body:
            header += "\nvar _ = runtime.GleeceController{}\n"
        off = header.count("\n")
        path = os.path.join(pkgdir, "f%d.go" % fi)
        with open(path, "w", encoding="utf-8") as f:
            f.write(header + body)
        paths[fi] = (path, off)
    mv = lambda t, off: (t[0] + off, t[1], t[2] + off, t[3])
    for key, lay in layout.items():
        path, off = paths[lay["file"]]
        lay["path"] = path
        for a in lay["attrs"]:
            a["line"] += off
        if lay.get("params"):
            lay["params"] = [mv(t, off) for t in lay["params"]]
        if lay.get("rets") and lay["rets"] != (0, 0, 0, 0):
            lay["rets"] = mv(lay["rets"], off)
        if lay.get("retvals"):
            lay["retvals"] = [mv(t, off) for t in lay["retvals"]]
        if lay.get("retlist"):
            lay["retlist"] = mv(lay["retlist"], off)
        if lay.get("paramlist"):
            lay["paramlist"] = mv(lay["paramlist"], off)
        if lay.get("doc"):
            lay["doc"] = (lay["doc"][0] + off, lay["doc"][1] + off)
        lay["decl"] = (lay["decl"][0] + off, lay["decl"][1] + off)
    conf = {
        "commonConfig": {"controllerGlobs": ["./ctl/*.go"]},
        "routesConfig": {"engine": "gin", "outputPath": "./dist/routes.go", "outputFilePerms": "0644",
                         "packageName": "routes", "skipGenerateDateComment": True,
                         "authorizationConfig": {"authFileFullPackageName": modpath + "/auth",
                                                 "enforceSecurityOnAllRoutes": False}},
        "openapiGeneratorConfig": {
            "openapi": "3.0.0", "info": {"title": "API", "version": "1.0.0"}, "baseUrl": "https://api.example.com",
            "securitySchemes": [{"description": "scheme " + n, "name": n, "fieldName": "x-" + n, "type": "apiKey",
                                 "in": "header"} for n in ("sec1", "sec2")],
            "specGeneratorConfig": {"outputPath": "./dist/spec.json"}},
    }
    with open(os.path.join(root, cfgname), "w") as f:
        json.dump(conf, f, indent=1)
    return layout
